package decorator

// C14 / C15: trigger scenarios on the real decorator controller (see the composite twin).

import (
	"encoding/json"
	"fmt"
	"os"
	"testing"

	"k8s.io/apimachinery/pkg/apis/meta/v1/unstructured"
	"k8s.io/client-go/tools/cache"

	"metacontroller/pkg/controller/common"
	vs "metacontroller/pkg/internal/verifsim"
)

func selectorObj(v interface{}) vs.Obj {
	if v == nil {
		return vs.SelectorInfo(nil)
	}
	b, err := json.Marshal(v)
	if err != nil {
		return vs.SelectorInfo(nil)
	}
	var m vs.Obj
	if json.Unmarshal(b, &m) != nil {
		return vs.SelectorInfo(nil)
	}
	return vs.SelectorInfo(m)
}

// TrigCfg reports what the REAL controller object is configured with (one parent rule).
func (d *decoratorCtl) TrigCfg() vs.Obj {
	out := vs.Obj{"kind": "decorator", "pkind": "", "pav": "", "pNs": false, "genSel": false, "ignoreStatus": false,
		"fin": d.c.finalizer.Name, "csel": vs.SelectorInfo(nil), "casel": vs.SelectorInfo(nil), "childKinds": []interface{}{},
		"customize": d.c.customize.IsEnabled()}
	for _, rule := range d.c.dc.Spec.Resources {
		if rule.Resource != d.parentRes {
			continue
		}
		if r := d.w.Resources.Get(rule.APIVersion, rule.Resource); r != nil {
			out["pkind"], out["pav"], out["pNs"] = r.Kind, r.APIVersion, r.Namespaced
		}
		if rule.LabelSelector != nil {
			out["csel"] = selectorObj(rule.LabelSelector)
		}
		if rule.AnnotationSelector != nil {
			out["casel"] = selectorObj(vs.Obj{"matchLabels": rule.AnnotationSelector.MatchAnnotations, "matchExpressions": rule.AnnotationSelector.MatchExpressions})
		}
		out["ignoreStatus"] = rule.IgnoreStatusChanges != nil && *rule.IgnoreStatusChanges
	}
	kinds := []interface{}{}
	for gvr := range d.c.childInformers {
		if r := d.w.Resources.Get(gvr.GroupVersion().String(), gvr.Resource); r != nil {
			kinds = append(kinds, r.Kind)
		}
	}
	out["childKinds"] = kinds
	return out
}

// ParseKey parses a queued key the way sync() does.
func (d *decoratorCtl) ParseKey(key string) vs.Obj {
	av, kind, ns, name, err := splitParentQueueKey(key)
	if err != nil {
		// best guess for the report: the key of a cache tombstone is namespace/name
		gns, gname, _ := cache.SplitMetaNamespaceKey(key)
		return vs.Obj{"key": key, "ok": false, "ns": gns, "name": gname, "av": "", "kind": ""}
	}
	return vs.Obj{"key": key, "ok": true, "ns": ns, "name": name, "av": av, "kind": kind}
}

func (d *decoratorCtl) ParentSel(parent vs.Obj) vs.Obj { return vs.SelectorInfo(nil) }

// Direct hands a shape the watch cannot produce on demand to the handler function that
// Start() registered for that role.
func (d *decoratorCtl) Direct(role, typ string, obj *unstructured.Unstructured) error {
	key, err := cache.MetaNamespaceKeyFunc(obj)
	if err != nil {
		return err
	}
	switch role + "/" + typ {
	case "parent/tombstone":
		d.c.enqueueParentObject(cache.DeletedFinalStateUnknown{Key: key, Obj: obj}) // DeleteFunc of the parent handlers
	case "parent/resync":
		d.c.updateParentObject(obj, obj)
	case "child/tombstone":
		d.c.onChildDelete(cache.DeletedFinalStateUnknown{Key: key, Obj: obj})
	case "child/resync":
		d.c.onChildUpdate(obj, obj)
	default:
		return fmt.Errorf("direct: unsupported %s/%s", role, typ)
	}
	return nil
}

var _ vs.ExtCtl = (*decoratorCtl)(nil)

// TestVerifTriggers replays the trigger scenarios of $VERIF_SCN (C14, C15).
func TestVerifTriggers(t *testing.T) {
	scn, out := os.Getenv("VERIF_SCN"), os.Getenv("VERIF_TRACE")
	if scn == "" || out == "" {
		t.Skip("VERIF_SCN / VERIF_TRACE not set")
	}
	scs, err := vs.ReadScenarios(scn)
	if err != nil {
		t.Fatalf("MACHINERY: %v", err)
	}
	tr, err := vs.NewTrace(out)
	if err != nil {
		t.Fatalf("MACHINERY: %v", err)
	}
	defer tr.Close()
	r := &vs.Runner{Trace: tr, Factory: decoratorFactory, OnCrash: common.VerifResetMemo}
	n := 0
	for _, sc := range scs {
		if vs.AsStr(sc.Cfg["kind"]) != "decorator" {
			continue
		}
		if err := r.RunExt(sc); err != nil {
			tr.Close()
			t.Fatalf("MACHINERY: scenario %s: %v", sc.ID, err)
		}
		n++
	}
	t.Logf("replayed %d trigger scenarios", n)
}
