package decorator

// C20 harness (decorator half): drives the REAL decorator Metacontroller.Reconcile with
// controller-runtime's fake client holding the DecoratorController objects; discovery,
// dynamic clients, shared informer factory, hosted controllers with real workers and
// webhook executors are the real code over the simulated API server.  The shared driver
// is verifsim.RunLifecycle; this file only builds objects and exposes the reconciler's map.

import (
	"context"
	"fmt"
	"os"
	"testing"

	"github.com/go-logr/logr"
	metav1 "k8s.io/apimachinery/pkg/apis/meta/v1"
	"k8s.io/apimachinery/pkg/runtime"
	"k8s.io/apimachinery/pkg/types"
	"sigs.k8s.io/controller-runtime/pkg/client"
	"sigs.k8s.io/controller-runtime/pkg/client/fake"
	"sigs.k8s.io/controller-runtime/pkg/reconcile"

	"metacontroller/pkg/apis/metacontroller/v1alpha1"
	vs "metacontroller/pkg/internal/verifsim"
)

type lifeDecorator struct {
	mc   *Metacontroller
	cl   client.Client
	sids map[string]string // canonical spec JSON -> scenario spec id
	tick int
}

func newLifeDecorator(w *vs.World, srv *vs.Server) vs.LifeAdapter {
	scheme := runtime.NewScheme()
	if err := v1alpha1.AddToScheme(scheme); err != nil {
		panic("MACHINERY: " + err.Error())
	}
	cl := fake.NewClientBuilder().WithScheme(scheme).Build()
	mc := &Metacontroller{
		k8sClient:            cl,
		resources:            w.Resources,
		dynClient:            w.DynClient,
		dynInformers:         w.DynInformers,
		eventRecorder:        vs.NopRecorder{},
		decoratorControllers: make(map[string]*decoratorController),
		numWorkers:           vs.LifeWorkers(),
		logger:               logr.Discard(),
	}
	return &lifeDecorator{mc: mc, cl: cl, sids: map[string]string{}}
}

func lifeDecoratorSpec(name string, t vs.Obj) v1alpha1.DecoratorControllerSpec {
	tag := vs.AsInt(t["tag"])
	var spec v1alpha1.DecoratorControllerSpec
	av, res, _ := vs.LifeResource(vs.AsStr(t["par"]))
	spec.Resources = []v1alpha1.DecoratorControllerResourceRule{{
		ResourceRule:  v1alpha1.ResourceRule{APIVersion: av, Resource: res},
		LabelSelector: vs.LifeSelector(vs.AsStr(t["sel"])),
	}}
	for _, k := range vs.AsList(t["kids"]) {
		cav, cres, _ := vs.LifeResource(vs.AsStr(k))
		rule := v1alpha1.DecoratorControllerAttachmentRule{ResourceRule: v1alpha1.ResourceRule{APIVersion: cav, Resource: cres}}
		if vs.AsBool(t["strat"]) {
			rule.UpdateStrategy = &v1alpha1.DecoratorControllerAttachmentUpdateStrategy{Method: v1alpha1.ChildUpdateInPlace}
		}
		spec.Attachments = append(spec.Attachments, rule)
	}
	if vs.AsStr(t["hooks"]) != "nil" {
		h := &v1alpha1.DecoratorControllerHooks{Sync: vs.LifeHook(vs.AsMap(t["sync"]), name, tag, "sync")}
		switch vs.AsStr(t["cust"]) {
		case "ok":
			h.Customize = vs.LifePlainHook(name, tag, "customize")
		case "bad":
			h.Customize = vs.LifeBadHook()
		}
		switch vs.AsStr(t["fin"]) {
		case "ok":
			h.Finalize = vs.LifePlainHook(name, tag, "finalize")
		case "bad":
			h.Finalize = vs.LifeBadHook()
		}
		spec.Hooks = h
	}
	return spec
}

func (a *lifeDecorator) Apply(t, name, sid string, traits vs.Obj) error {
	ctx := context.Background()
	key := types.NamespacedName{Name: name}
	switch t {
	case "create":
		dc := &v1alpha1.DecoratorController{ObjectMeta: metav1.ObjectMeta{Name: name, UID: types.UID("uid-" + name)}}
		dc.Spec = lifeDecoratorSpec(name, traits)
		a.sids[vs.LifeSpecKey(dc.Spec)] = sid
		return a.cl.Create(ctx, dc)
	case "update":
		dc := &v1alpha1.DecoratorController{}
		if err := a.cl.Get(ctx, key, dc); err != nil {
			return err
		}
		dc.Spec = lifeDecoratorSpec(name, traits)
		a.sids[vs.LifeSpecKey(dc.Spec)] = sid
		return a.cl.Update(ctx, dc)
	case "noop":
		dc := &v1alpha1.DecoratorController{}
		if err := a.cl.Get(ctx, key, dc); err != nil {
			return err
		}
		a.tick++
		if dc.Annotations == nil {
			dc.Annotations = map[string]string{}
		}
		dc.Annotations["verif/touch"] = fmt.Sprint(a.tick)
		dc.Labels = map[string]string{"touched": fmt.Sprint(a.tick)}
		return a.cl.Update(ctx, dc)
	case "delete":
		dc := &v1alpha1.DecoratorController{}
		if err := a.cl.Get(ctx, key, dc); err != nil {
			return err
		}
		return a.cl.Delete(ctx, dc)
	}
	return fmt.Errorf("unknown event %q", t)
}

func (a *lifeDecorator) Reconcile(name string) error {
	_, err := a.mc.Reconcile(context.Background(), reconcile.Request{NamespacedName: types.NamespacedName{Name: name}})
	return err
}

func (a *lifeDecorator) Running() map[string]vs.LifeInst {
	out := map[string]vs.LifeInst{}
	for name, c := range a.mc.decoratorControllers {
		sp := c.dc.Spec
		in := vs.LifeInst{Ref: c, QLen: c.queue.Len(), Sid: "?"}
		if sid, ok := a.sids[vs.LifeSpecKey(sp)]; ok {
			in.Sid = sid
		}
		if sp.Hooks != nil {
			in.Tag = vs.LifeTagOf(sp.Hooks.Sync)
		}
		for i, r := range sp.Resources {
			rk := vs.LifeResKey(r.APIVersion, r.Resource)
			if i == 0 {
				in.Parent = rk
			}
			in.Uses = append(in.Uses, rk)
		}
		for _, r := range sp.Attachments {
			in.Uses = append(in.Uses, vs.LifeResKey(r.APIVersion, r.Resource))
		}
		if sp.Hooks != nil && sp.Hooks.Customize != nil {
			in.Uses = append(in.Uses, vs.LifeResources[2])
		}
		out[name] = in
	}
	return out
}

func (a *lifeDecorator) StopAll() {
	for name, c := range a.mc.decoratorControllers {
		func() {
			defer func() { _ = recover() }()
			c.Stop()
		}()
		delete(a.mc.decoratorControllers, name)
	}
}

func init() { vs.RegisterLifeAdapter("decorator", newLifeDecorator) }

// TestVerifLifecycle replays the C20 scenarios of $VERIF_SCN on the real decorator
// reconciler and writes the observations to $VERIF_TRACE.
func TestVerifLifecycle(t *testing.T) {
	scn, out := os.Getenv("VERIF_SCN"), os.Getenv("VERIF_TRACE")
	if scn == "" || out == "" {
		t.Skip("VERIF_SCN / VERIF_TRACE not set")
	}
	n, err := vs.RunLifecycle(scn, out)
	if err != nil {
		t.Fatalf("MACHINERY: %v", err)
	}
	t.Logf("replayed %d lifecycle scenarios", n)
}
