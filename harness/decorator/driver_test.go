package decorator

import (
	"os"
	"testing"

	"github.com/go-logr/logr"
	metav1 "k8s.io/apimachinery/pkg/apis/meta/v1"
	"k8s.io/client-go/tools/cache"

	"metacontroller/pkg/apis/metacontroller/v1alpha1"
	"metacontroller/pkg/controller/common"
	vs "metacontroller/pkg/internal/verifsim"
)

// decoratorCtl adapts a real decoratorController to the scenario runner.
type decoratorCtl struct {
	c         *decoratorController
	q         *vs.RecQueue
	w         *vs.World
	parentRes string
}

func (d *decoratorCtl) Start()              { d.c.Start() }
func (d *decoratorCtl) Stop()               { d.c.Stop() }
func (d *decoratorCtl) ProcessOne()         { d.c.processNextWorkItem() }
func (d *decoratorCtl) Queue() *vs.RecQueue { return d.q }
func (d *decoratorCtl) ParentStore() cache.Store {
	for gvr, pi := range d.c.parentInformers {
		if gvr.Resource == d.parentRes {
			return pi.Informer().GetStore()
		}
	}
	return nil
}
func (d *decoratorCtl) Stores() []vs.InformerSpec {
	var out []vs.InformerSpec
	for gvr, pi := range d.c.parentInformers {
		out = append(out, vs.InformerSpec{ResKey: gvr.Resource + "." + gvr.Group, Store: pi.Informer().GetStore(), Synced: pi.Informer().HasSynced})
	}
	for gvr, ci := range d.c.childInformers {
		out = append(out, vs.InformerSpec{ResKey: gvr.Resource + "." + gvr.Group, Store: ci.Informer().GetStore(), Synced: ci.Informer().HasSynced})
	}
	return out
}
func (d *decoratorCtl) SyncInfo(parent vs.Obj) vs.Obj {
	return vs.Obj{"sel": vs.SelectorInfo(nil), "selOK": false, "marker": d.c.dc.Name, "fin": d.c.finalizer.Name}
}

func boolp(b bool) *bool { return &b }

func webhook(actor, hook string, cfg vs.Obj) *v1alpha1.Hook {
	url := "http://hook/" + actor + "/" + hook
	wh := &v1alpha1.Webhook{URL: &url}
	if vs.AsBool(cfg["etag"]) {
		on := true
		wh.Etag = &v1alpha1.WebhookEtagConfig{Enabled: &on}
	}
	if vs.AsBool(cfg["strict"]) {
		m := v1alpha1.ResponseUnmarshallModeStrict
		wh.ResponseUnmarshallMode = &m
	}
	return &v1alpha1.Hook{Webhook: wh}
}

func labelSelector(v interface{}) *metav1.LabelSelector {
	m := vs.AsMap(v)
	sel := &metav1.LabelSelector{}
	if ml := vs.StrMapOf(m["matchLabels"]); len(ml) > 0 {
		sel.MatchLabels = ml
	}
	for _, e := range vs.AsList(m["matchExpressions"]) {
		em := vs.AsMap(e)
		req := metav1.LabelSelectorRequirement{Key: vs.AsStr(em["key"]), Operator: metav1.LabelSelectorOperator(vs.AsStr(em["operator"]))}
		for _, x := range vs.AsList(em["values"]) {
			req.Values = append(req.Values, vs.AsStr(x))
		}
		sel.MatchExpressions = append(sel.MatchExpressions, req)
	}
	return sel
}

func buildDC(sc *vs.Scenario, actor string) (*v1alpha1.DecoratorController, string) {
	cfg := sc.Cfg
	name := vs.AsStr(cfg["name"])
	if name == "" {
		name = "dc"
	}
	if n := vs.AsStr(vs.AsMap(cfg["names"])[actor]); n != "" {
		name = n // several decorators sharing a target: one name per actor
	}
	parentRes := vs.AsStr(cfg["parentRes"])
	if parentRes == "" {
		parentRes = "parents"
	}
	dc := &v1alpha1.DecoratorController{
		TypeMeta:   metav1.TypeMeta{APIVersion: "metacontroller.k8s.io/v1alpha1", Kind: "DecoratorController"},
		ObjectMeta: metav1.ObjectMeta{Name: name, UID: "dc-uid"},
	}
	rule := v1alpha1.DecoratorControllerResourceRule{ResourceRule: v1alpha1.ResourceRule{APIVersion: "verif.example/v1", Resource: parentRes}}
	if ls, ok := cfg["dselLabels"]; ok {
		rule.LabelSelector = labelSelector(ls)
	}
	if as, ok := cfg["dselAnn"]; ok {
		am := vs.AsMap(as)
		sel := &v1alpha1.AnnotationSelector{}
		if ml := vs.StrMapOf(am["matchAnnotations"]); len(ml) > 0 {
			sel.MatchAnnotations = ml
		}
		for _, e := range vs.AsList(am["matchExpressions"]) {
			em := vs.AsMap(e)
			req := metav1.LabelSelectorRequirement{Key: vs.AsStr(em["key"]), Operator: metav1.LabelSelectorOperator(vs.AsStr(em["operator"]))}
			for _, x := range vs.AsList(em["values"]) {
				req.Values = append(req.Values, vs.AsStr(x))
			}
			sel.MatchExpressions = append(sel.MatchExpressions, req)
		}
		rule.AnnotationSelector = sel
	}
	if vs.AsBool(cfg["ignoreStatus"]) {
		rule.IgnoreStatusChanges = boolp(true)
	}
	dc.Spec.Resources = []v1alpha1.DecoratorControllerResourceRule{rule}
	for _, c := range vs.AsList(cfg["children"]) {
		cm := vs.AsMap(c)
		res := vs.AsStr(cm["res"])
		av := "verif.example/v1"
		if res == "configmaps" {
			av = "v1"
		}
		ar := v1alpha1.DecoratorControllerAttachmentRule{ResourceRule: v1alpha1.ResourceRule{APIVersion: av, Resource: res}}
		if m := vs.AsStr(cm["method"]); m != "" && m != "-" {
			ar.UpdateStrategy = &v1alpha1.DecoratorControllerAttachmentUpdateStrategy{Method: v1alpha1.ChildUpdateMethod(m)}
		}
		dc.Spec.Attachments = append(dc.Spec.Attachments, ar)
	}
	hooks := &v1alpha1.DecoratorControllerHooks{}
	if _, off := cfg["noSyncHook"]; !off {
		hooks.Sync = webhook(actor, "sync", cfg)
	}
	if vs.AsBool(cfg["finalize"]) {
		hooks.Finalize = webhook(actor, "finalize", cfg)
	}
	if vs.AsBool(cfg["customize"]) {
		hooks.Customize = webhook(actor, "customize", cfg)
	}
	dc.Spec.Hooks = hooks
	return dc, parentRes
}

func decoratorFactory(w *vs.World, sc *vs.Scenario, actor string) (vs.Ctl, error) {
	dc, parentRes := buildDC(sc, actor)
	c, err := newDecoratorController(w.Resources, w.DynClient, w.DynInformers, vs.NopRecorder{}, dc, 0, logr.Discard())
	if err != nil {
		return nil, err
	}
	q := vs.NewRecQueue()
	c.queue.ShutDown()
	c.queue = q
	return &decoratorCtl{c: c, q: q, w: w, parentRes: parentRes}, nil
}

// TestVerifReplay replays the decorator scenarios of $VERIF_SCN on the real decorator
// controller and writes the recorded trace to $VERIF_TRACE.
func TestVerifReplay(t *testing.T) {
	scn, out := os.Getenv("VERIF_SCN"), os.Getenv("VERIF_TRACE")
	if scn == "" || out == "" {
		t.Skip("VERIF_SCN / VERIF_TRACE not set")
	}
	scs, err := vs.ReadScenarios(scn)
	if err != nil {
		t.Fatalf("MACHINERY: %v", err)
	}
	tr, err := vs.NewTrace(out)
	if err != nil {
		t.Fatalf("MACHINERY: %v", err)
	}
	defer tr.Close()
	r := &vs.Runner{Trace: tr, Factory: decoratorFactory, OnCrash: common.VerifResetMemo}
	for _, sc := range scs {
		if vs.AsStr(sc.Cfg["kind"]) != "decorator" {
			continue
		}
		if err := r.Run(sc); err != nil {
			tr.Close()
			t.Fatalf("MACHINERY: scenario %s: %v", sc.ID, err)
		}
	}
	t.Logf("replayed %d scenarios, drift steps %d", len(scs), r.Drift)
}
