package verifsim

import (
	"bufio"
	"encoding/json"
	"fmt"
	"os"
	"sort"
	"strconv"
	"strings"
)

// ---------------------------------------------------------------------------------
// tolerant accessors for TLC-emitted JSON (ToJson renders empty records as []).

func AsMap(v interface{}) Obj {
	if m, ok := v.(map[string]interface{}); ok {
		return m
	}
	return Obj{}
}
func AsList(v interface{}) []interface{} {
	if l, ok := v.([]interface{}); ok {
		return l
	}
	return nil
}
func AsStr(v interface{}) string {
	switch t := v.(type) {
	case string:
		return t
	case float64:
		return strconv.FormatFloat(t, 'f', -1, 64)
	case bool:
		return strconv.FormatBool(t)
	}
	return ""
}
func AsBool(v interface{}) bool {
	b, _ := v.(bool)
	return b
}
func AsInt(v interface{}) int {
	switch t := v.(type) {
	case float64:
		return int(t)
	case int:
		return t
	case string:
		n, _ := strconv.Atoi(t)
		return n
	}
	return 0
}
func StrMapOf(v interface{}) map[string]string {
	out := map[string]string{}
	for k, x := range AsMap(v) {
		out[k] = AsStr(x)
	}
	return out
}

// normTree converts empty lists that stand for empty records into empty maps, for
// free-form content (spec/status trees): scenario authors use the key suffix "[]" to
// request a real list.  Scalars are passed through.
func normTree(v interface{}) interface{} {
	switch t := v.(type) {
	case map[string]interface{}:
		out := Obj{}
		for k, x := range t {
			if strings.HasSuffix(k, "[]") {
				l := AsList(x)
				nl := make([]interface{}, len(l))
				for i, y := range l {
					nl[i] = normTree(y)
				}
				out[strings.TrimSuffix(k, "[]")] = nl
				continue
			}
			out[k] = normTree(x)
		}
		return out
	case []interface{}:
		if len(t) == 0 {
			return Obj{}
		}
		nl := make([]interface{}, len(t))
		for i, y := range t {
			nl[i] = normTree(y)
		}
		return nl
	case float64:
		if t == float64(int64(t)) {
			return int64(t)
		}
		return t
	}
	return v
}

// ---------------------------------------------------------------------------------
// scenario file

type Scenario struct {
	ID     string        `json:"id"`
	Fam    string        `json:"fam"`
	Cfg    Obj           `json:"cfg"`
	Objs   []interface{} `json:"objs"`
	Hook   Obj           `json:"hook"`
	Sched  []interface{} `json:"sched"`
	Expect Obj           `json:"expect"`
	Raw    Obj           `json:"-"`
}

func ReadScenarios(path string) ([]*Scenario, error) {
	f, err := os.Open(path)
	if err != nil {
		return nil, err
	}
	defer f.Close()
	var out []*Scenario
	sc := bufio.NewScanner(f)
	sc.Buffer(make([]byte, 1<<20), 1<<26)
	for sc.Scan() {
		line := strings.TrimSpace(sc.Text())
		if line == "" {
			continue
		}
		var raw Obj
		if err := json.Unmarshal([]byte(line), &raw); err != nil {
			return nil, fmt.Errorf("scenario line: %v", err)
		}
		s := &Scenario{Raw: raw}
		s.ID = AsStr(raw["id"])
		s.Fam = AsStr(raw["fam"])
		s.Cfg = AsMap(raw["cfg"])
		s.Objs = AsList(raw["objs"])
		s.Hook = AsMap(raw["hook"])
		s.Sched = AsList(raw["sched"])
		s.Expect = AsMap(raw["expect"])
		out = append(out, s)
	}
	return out, sc.Err()
}

// ResKeyOf maps the short resource names of scenarios to resource keys.
func ResKeyOf(short string) string {
	switch short {
	case "configmaps", "cm":
		return "configmaps."
	case "controllerrevisions", "cr":
		return "controllerrevisions.metacontroller.k8s.io"
	}
	if strings.Contains(short, ".") {
		return short
	}
	return short + ".verif.example"
}

// BuildObject turns a semi-concrete object spec of a scenario into a full object.
//
//	{res, ns, name, uid, labels, ann, owners:[{uid,kind,name,av,ctrl}], fins, deleting,
//	 spec, status, la (last-applied spec tree; key absent = no annotation), gen}
func (s *Server) BuildObject(spec Obj) (string, Obj) {
	resKey := ResKeyOf(AsStr(spec["res"]))
	rd := s.res[resKey]
	o := Obj{"apiVersion": rd.APIVersion(), "kind": rd.Kind}
	m := Obj{"name": AsStr(spec["name"])}
	if rd.Namespaced {
		ns := AsStr(spec["ns"])
		if ns == "" {
			ns = "ns1"
		}
		m["namespace"] = ns
	}
	if u := AsStr(spec["uid"]); u != "" {
		m["uid"] = "preset-" + u
	}
	if l := StrMapOf(spec["labels"]); len(l) > 0 {
		lm := Obj{}
		for k, v := range l {
			lm[k] = v
		}
		m["labels"] = lm
	}
	ann := Obj{}
	for k, v := range StrMapOf(spec["ann"]) {
		ann[k] = v
	}
	var owners []interface{}
	for _, x := range AsList(spec["owners"]) {
		r := AsMap(x)
		av := AsStr(r["av"])
		if av == "" {
			av = "verif.example/v1"
		}
		ref := Obj{"apiVersion": av, "kind": AsStr(r["kind"]), "name": AsStr(r["name"]), "uid": AsStr(r["uid"])}
		if AsBool(r["ctrl"]) {
			ref["controller"] = true
			ref["blockOwnerDeletion"] = true
		}
		owners = append(owners, ref)
	}
	if len(owners) > 0 {
		m["ownerReferences"] = owners
	}
	if fl := AsList(spec["fins"]); len(fl) > 0 {
		m["finalizers"] = fl
	}
	if AsBool(spec["deleting"]) {
		m["deletionTimestamp"] = "2026-01-02T00:00:00Z"
	}
	if sp, ok := spec["spec"]; ok {
		o["spec"] = normTree(sp)
	}
	if st, ok := spec["status"]; ok {
		if stm := AsMap(normTree(st)); len(stm) > 0 {
			o["status"] = stm
		}
	}
	for k, v := range AsMap(spec["top"]) { // extra top-level fields (e.g. data for ConfigMaps)
		o[k] = normTree(v)
	}
	if la, ok := spec["la"]; ok {
		// last-applied = the desired object the controller would have sent earlier
		lao := Obj{"apiVersion": rd.APIVersion(), "kind": rd.Kind}
		lam := Obj{"name": AsStr(spec["name"])}
		if rd.Namespaced {
			lam["namespace"] = m["namespace"]
		}
		lal := StrMapOf(spec["laLabels"])
		if _, has := spec["laLabels"]; !has {
			lal = StrMapOf(spec["labels"])
		}
		if len(lal) > 0 {
			lm := Obj{}
			for k, v := range lal {
				lm[k] = v
			}
			lam["labels"] = lm
		}
		if laa := StrMapOf(spec["laAnn"]); len(laa) > 0 {
			am := Obj{}
			for k, v := range laa {
				am[k] = v
			}
			lam["annotations"] = am
		}
		lao["metadata"] = lam
		if AsStr(spec["laTop"]) != "" {
			lao[AsStr(spec["laTop"])] = normTree(la)
		} else {
			lao["spec"] = normTree(la)
		}
		b, _ := json.Marshal(lao)
		ann[LastAppliedAnnotation] = string(b)
	}
	if len(ann) > 0 {
		m["annotations"] = ann
	}
	o["metadata"] = m
	return resKey, o
}

// ---------------------------------------------------------------------------------
// hook programmes (pure functions of the request)

// childFromSpec builds a desired child as a hook would return it.
func (s *Server) childFromSpec(spec Obj) Obj {
	resKey := ResKeyOf(AsStr(spec["res"]))
	rd := s.res[resKey]
	o := Obj{"apiVersion": rd.APIVersion(), "kind": rd.Kind}
	m := Obj{"name": AsStr(spec["name"])}
	if ns := AsStr(spec["ns"]); ns != "" {
		m["namespace"] = ns
	}
	if l := StrMapOf(spec["labels"]); len(l) > 0 {
		lm := Obj{}
		for k, v := range l {
			lm[k] = v
		}
		m["labels"] = lm
	}
	if a := StrMapOf(spec["ann"]); len(a) > 0 {
		am := Obj{}
		for k, v := range a {
			am[k] = v
		}
		m["annotations"] = am
	}
	var owners []interface{}
	for _, x := range AsList(spec["owners"]) {
		r := AsMap(x)
		ref := Obj{"apiVersion": "verif.example/v1", "kind": AsStr(r["kind"]), "name": AsStr(r["name"]), "uid": AsStr(r["uid"])}
		if AsBool(r["ctrl"]) {
			ref["controller"] = true
		}
		owners = append(owners, ref)
	}
	if len(owners) > 0 {
		m["ownerReferences"] = owners
	}
	o["metadata"] = m
	if sp, ok := spec["spec"]; ok {
		o["spec"] = normTree(sp)
	}
	if st, ok := spec["status"]; ok {
		o["status"] = normTree(st) // a hook that (needlessly) hands a status back inside a desired child
	}
	for k, v := range AsMap(spec["top"]) {
		o[k] = normTree(v)
	}
	return o
}

func observedNames(req Obj, field string) map[string]bool {
	out := map[string]bool{}
	for _, g := range AsMap(req[field]) {
		for n := range AsMap(g) {
			out[n] = true
		}
	}
	return out
}

// RunHookProg evaluates one hook programme against a decoded request.
func (s *Server) RunHookProg(prog Obj, req Obj) HookReply {
	kind := AsStr(prog["prog"])
	parent := AsMap(req["parent"])
	childField, kidsKey := "children", "children"
	if _, isDec := req["object"]; isDec {
		parent = AsMap(req["object"])
		childField, kidsKey = "attachments", "attachments"
	}
	resp := Obj{}
	kids := []interface{}{}
	switch kind {
	case "raw":
		hdr := map[string]string{}
		for k, v := range StrMapOf(prog["headers"]) {
			hdr[k] = v
		}
		code := AsInt(prog["code"])
		if _, ok := prog["code"]; !ok {
			code = 200
		}
		return HookReply{Status: code, Header: hdr, Body: []byte(AsStr(prog["body"]))}
	case "const", "":
		for _, c := range AsList(prog["children"]) {
			kids = append(kids, s.childFromSpec(AsMap(c)))
		}
	case "echo":
		// a hook that hands observed children back as it received them and adds the missing ones
		obsObjs := map[string]Obj{}
		for _, g := range AsMap(req[childField]) {
			for n, o := range AsMap(g) {
				obsObjs[n] = AsMap(o)
			}
		}
		for _, c := range AsList(prog["children"]) {
			cm := AsMap(c)
			name := AsStr(cm["name"])
			o, ok := obsObjs[name]
			if !ok {
				o, ok = obsObjs["ns1/"+name]
			}
			if ok {
				o = CopyObj(o)
				if AsBool(prog["clean"]) {
					// a careful echo: everything the API server owns is dropped, the rest (annotations included) is kept
					m := meta(o)
					for _, f := range []string{"resourceVersion", "uid", "creationTimestamp", "generation", "managedFields", "selfLink", "ownerReferences"} {
						delete(m, f)
					}
					delete(o, "status")
				}
				kids = append(kids, o)
			} else {
				kids = append(kids, s.childFromSpec(cm))
			}
		}
	case "byParent":
		// children named in parent.spec.names, content derived from revisioned and
		// non-revisioned parent fields
		ps := AsMap(parent["spec"])
		res := AsStr(prog["res"])
		if res == "" {
			res = "things"
		}
		hidden := map[string]bool{}
		// hideAtRev: {rev: [names]} -- the revisioned field also decides which children exist
		for _, n := range AsList(AsMap(prog["hideAtRev"])[AsStr(ps["rev"])]) {
			hidden[AsStr(n)] = true
		}
		for _, n := range AsList(ps["names"]) {
			if hidden[AsStr(n)] {
				continue
			}
			c := Obj{"res": res, "name": AsStr(n), "labels": AsMap(AsMap(AsMap(ps["template"])["metadata"])["labels"]),
				"spec": Obj{"rev": ps["rev"], "nonrev": ps["nonrev"]}}
			if len(AsMap(c["labels"])) == 0 {
				c["labels"] = prog["labels"]
			}
			kids = append(kids, s.childFromSpec(c))
		}
		// also: the same names once more as children of further resources (content under `data`), after the first kind
		for _, a := range AsList(prog["also"]) {
			am := AsMap(a)
			for _, n := range AsList(ps["names"]) {
				if hidden[AsStr(n)] {
					continue
				}
				c := Obj{"res": AsStr(am["res"]), "name": AsStr(n), "labels": AsMap(AsMap(AsMap(ps["template"])["metadata"])["labels"]),
					"top": Obj{"data": Obj{"rev": ps["rev"], "nonrev": ps["nonrev"]}}}
				if len(AsMap(c["labels"])) == 0 {
					c["labels"] = prog["labels"]
				}
				kids = append(kids, s.childFromSpec(c))
			}
		}
	case "ordinal":
		// StatefulSet-like: child i is desired only once child i-1 has been observed
		obs := observedNames(req, childField)
		cl := AsList(prog["children"])
		for i, c := range cl {
			if i > 0 {
				prev := AsStr(AsMap(cl[i-1])["name"])
				if !(obs[prev] || obs["ns1/"+prev]) {
					break
				}
			}
			kids = append(kids, s.childFromSpec(AsMap(c)))
		}
	case "drain":
		// finalize programme: want nothing; finalized once nothing is observed
		obs := observedNames(req, childField)
		resp["finalized"] = len(obs) == 0
	default:
		return HookReply{Status: 500, Body: []byte(`unknown programme`)}
	}
	if AsBool(prog["needRelated"]) {
		// the answer depends on the related objects the hook was sent: nothing is wanted while there are none
		n := 0
		for _, g := range AsMap(req["related"]) {
			n += len(AsMap(g))
		}
		if n == 0 {
			kids = []interface{}{}
		}
	}
	resp[kidsKey] = kids
	if st, ok := prog["status"]; ok {
		resp["status"] = normTree(st)
	}
	if AsStr(prog["statusFrom"]) == "observed" {
		n := len(observedNames(req, childField))
		resp["status"] = Obj{"observed": int64(n)}
	}
	if f, ok := prog["finalized"]; ok {
		resp["finalized"] = AsBool(f)
	}
	if fb, ok := prog["finalizedByRev"]; ok { // finalize programme answering per parent revision
		rev := AsStr(AsMap(parent["spec"])["rev"])
		resp["finalized"] = AsBool(AsMap(fb)[rev])
	}
	if r, ok := prog["resync"]; ok {
		resp["resyncAfterSeconds"] = r
	}
	if rb, ok := prog["resyncByRev"]; ok { // resyncAfterSeconds answered per parent revision
		rev := AsStr(AsMap(parent["spec"])["rev"])
		if v, has := AsMap(rb)[rev]; has {
			resp["resyncAfterSeconds"] = v
		}
	}
	if l, ok := prog["setLabels"]; ok {
		lm := Obj{}
		for k, v := range AsMap(l) {
			if AsStr(v) == "<null>" {
				lm[k] = nil
			} else {
				lm[k] = AsStr(v)
			}
		}
		resp["labels"] = lm
	}
	if l, ok := prog["setAnnotations"]; ok {
		lm := Obj{}
		for k, v := range AsMap(l) {
			if AsStr(v) == "<null>" {
				lm[k] = nil
			} else {
				lm[k] = AsStr(v)
			}
		}
		resp["annotations"] = lm
	}
	if rr, ok := prog["related"]; ok { // customize programme
		resp = Obj{"relatedResources": normRelated(rr)}
	}
	b, _ := json.Marshal(resp)
	return HookReply{Status: 200, Body: b}
}

func normRelated(v interface{}) []interface{} {
	out := []interface{}{}
	for _, x := range AsList(v) {
		r := AsMap(x)
		rule := Obj{"apiVersion": AsStr(r["apiVersion"]), "resource": AsStr(r["resource"])}
		if ls, ok := r["labelSelector"]; ok {
			sel := Obj{}
			if ml := StrMapOf(AsMap(ls)["matchLabels"]); len(ml) > 0 {
				m := Obj{}
				for k, v := range ml {
					m[k] = v
				}
				sel["matchLabels"] = m
			}
			if me := AsList(AsMap(ls)["matchExpressions"]); len(me) > 0 {
				sel["matchExpressions"] = me
			}
			rule["labelSelector"] = sel
		}
		if ns := AsStr(r["namespace"]); ns != "" {
			rule["namespace"] = ns
		}
		if names := AsList(r["names"]); len(names) > 0 {
			rule["names"] = names
		}
		out = append(out, rule)
	}
	return out
}

// SortedKeys returns the sorted keys of a map.
func SortedKeys(m Obj) []string {
	ks := make([]string, 0, len(m))
	for k := range m {
		ks = append(ks, k)
	}
	sort.Strings(ks)
	return ks
}

// SelectorInfo renders a metav1.LabelSelector-shaped JSON tree for the trace.
func SelectorInfo(sel Obj) Obj {
	ml := Obj{}
	for k, v := range StrMapOf(sel["matchLabels"]) {
		ml[k] = v
	}
	me := []interface{}{}
	for _, e := range AsList(sel["matchExpressions"]) {
		em := AsMap(e)
		vals := []interface{}{}
		for _, x := range AsList(em["values"]) {
			vals = append(vals, AsStr(x))
		}
		me = append(me, Obj{"key": AsStr(em["key"]), "op": AsStr(em["operator"]), "values": vals})
	}
	return Obj{"ml": ml, "me": me}
}
