package verifsim

// Additive helpers for the C18 (shared informer) harness: LIST/WATCH statistics read
// under the server mutex (the exported maps are written by reflector goroutines).

// WatchStat is the LIST/WATCH traffic of one resource key.
type WatchStat struct {
	Lists  int // LIST calls so far
	Opens  int // WATCH requests accepted so far
	Closes int // WATCH streams closed so far
	Active int // WATCH streams open now
}

// WatchStats returns a consistent snapshot of the LIST/WATCH statistics per resource key.
func (s *Server) WatchStats() map[string]WatchStat {
	s.mu.Lock()
	defer s.mu.Unlock()
	out := map[string]WatchStat{}
	for k := range s.res {
		out[k] = WatchStat{Lists: s.ListCalls[k], Opens: s.WatchOpens[k], Closes: s.WatchCloses[k]}
	}
	for _, w := range s.watchers {
		if !w.closed {
			st := out[w.resKey]
			st.Active++
			out[w.resKey] = st
		}
	}
	return out
}
