package verifsim

import (
	"bufio"
	"encoding/json"
	"fmt"
	"os"
	"sort"
	"strconv"
	"sync"
)

const LastAppliedAnnotation = "metacontroller.k8s.io/last-applied-configuration"

// Trace collects ndjson events.  Sequence numbers are assigned under the trace mutex;
// server-side events are emitted while the server mutex is held, so `i` is a
// linearization order.
type Trace struct {
	mu     sync.Mutex
	seq    int
	sc     string
	events []Obj
	w      *bufio.Writer
	f      *os.File
}

func NewTrace(path string) (*Trace, error) {
	t := &Trace{}
	if path != "" {
		f, err := os.Create(path)
		if err != nil {
			return nil, err
		}
		t.f = f
		t.w = bufio.NewWriterSize(f, 1<<20)
	}
	return t, nil
}

// SetScenario sets the scenario id stamped on subsequent events.
func (t *Trace) SetScenario(sc string) {
	t.mu.Lock()
	t.sc = sc
	t.mu.Unlock()
}

func (t *Trace) Emit(ev Obj) {
	if t == nil {
		return
	}
	t.mu.Lock()
	defer t.mu.Unlock()
	t.seq++
	ev["i"] = t.seq
	ev["sc"] = t.sc
	if t.w != nil {
		b, err := json.Marshal(ev)
		if err != nil {
			panic(fmt.Sprintf("trace marshal: %v (%v)", err, ev))
		}
		t.w.Write(b)
		t.w.WriteByte('\n')
		if ev["ev"] == "SyncStart" || ev["ev"] == "Hook" || ev["ev"] == "Reset" {
			// a panic on a goroutine the controller spawned kills the process: keep the file current
			t.w.Flush()
		}
	} else {
		t.events = append(t.events, ev)
	}
}

func (t *Trace) Events() []Obj {
	t.mu.Lock()
	defer t.mu.Unlock()
	return append([]Obj(nil), t.events...)
}

func (t *Trace) Close() error {
	if t == nil || t.f == nil {
		return nil
	}
	t.mu.Lock()
	defer t.mu.Unlock()
	t.w.Flush()
	return t.f.Close()
}

// ---------------------------------------------------------------------------------
// projection of a concrete object onto the abstract record of the specification.
// JSON null never appears (TLC's Json module rejects it).

func scalarStr(v interface{}) string {
	switch t := v.(type) {
	case nil:
		return "null"
	case string:
		return "s:" + t
	case bool:
		if t {
			return "true"
		}
		return "false"
	case float64:
		if t == float64(int64(t)) {
			return strconv.FormatInt(int64(t), 10)
		}
		return strconv.FormatFloat(t, 'g', -1, 64)
	case int64:
		return strconv.FormatInt(t, 10)
	case int:
		return strconv.Itoa(t)
	case json.Number:
		return t.String()
	}
	b, _ := json.Marshal(v)
	return string(b)
}

// Flatten turns a JSON tree into path -> scalar string.
func Flatten(prefix string, v interface{}, out map[string]interface{}) {
	switch t := v.(type) {
	case map[string]interface{}:
		if len(t) == 0 {
			if prefix != "" {
				out[prefix] = "{}"
			}
			return
		}
		for k, x := range t {
			p := k
			if prefix != "" {
				p = prefix + "." + k
			}
			Flatten(p, x, out)
		}
	case []interface{}:
		if len(t) == 0 {
			out[prefix] = "[]"
			return
		}
		for i, x := range t {
			Flatten(prefix+"."+strconv.Itoa(i), x, out)
		}
	default:
		out[prefix] = scalarStr(v)
	}
}

func strMap(v interface{}) Obj {
	out := Obj{}
	m, _ := v.(map[string]interface{})
	for k, x := range m {
		if s, ok := x.(string); ok {
			out[k] = s
		} else {
			out[k] = "!" + scalarStr(x)
		}
	}
	return out
}

// Absent is the projection of "no object".
func Absent() Obj {
	return Obj{"live": false, "kind": "", "av": "", "ns": "", "name": "", "uid": "", "rv": 0, "gen": 0,
		"labels": Obj{}, "ann": Obj{}, "hasLA": false, "la": Obj{}, "owners": []interface{}{}, "ctrl": "",
		"fins": []interface{}{}, "deleting": false, "fields": Obj{}, "status": Obj{}, "hasStatus": false,
		"patch": "", "claims": []interface{}{}}
}

// Project maps a concrete object to the abstract record.
func Project(o Obj) Obj {
	if o == nil {
		return Absent()
	}
	p := Absent()
	p["live"] = true
	p["kind"], _ = o["kind"].(string)
	p["av"], _ = o["apiVersion"].(string)
	m, _ := o["metadata"].(map[string]interface{})
	if m == nil {
		m = Obj{}
	}
	p["ns"], _ = m["namespace"].(string)
	p["name"], _ = m["name"].(string)
	p["uid"], _ = m["uid"].(string)
	if rv, _ := m["resourceVersion"].(string); rv != "" {
		n, _ := strconv.Atoi(rv)
		p["rv"] = n
	}
	if g, ok := toInt64(m["generation"]); ok {
		p["gen"] = int(g)
	}
	p["labels"] = strMap(m["labels"])
	ann := strMap(m["annotations"])
	if la, ok := ann[LastAppliedAnnotation]; ok {
		delete(ann, LastAppliedAnnotation)
		p["hasLA"] = true
		var tree interface{}
		if s, _ := la.(string); s != "" && json.Unmarshal([]byte(s), &tree) == nil {
			flat := Obj{}
			Flatten("", tree, flat)
			p["la"] = flat
		}
	}
	p["ann"] = ann
	owners := []interface{}{}
	if l, ok := m["ownerReferences"].([]interface{}); ok {
		for _, x := range l {
			r, _ := x.(map[string]interface{})
			if r == nil {
				continue
			}
			c, _ := r["controller"].(bool)
			uid, _ := r["uid"].(string)
			k, _ := r["kind"].(string)
			n, _ := r["name"].(string)
			av, _ := r["apiVersion"].(string)
			owners = append(owners, Obj{"uid": uid, "kind": k, "name": n, "av": av, "ctrl": c})
			if c && p["ctrl"] == "" {
				p["ctrl"] = uid
			}
		}
	}
	p["owners"] = owners
	fs := finalizers(o)
	sort.Strings(fs)
	fl := make([]interface{}, len(fs))
	for i, f := range fs {
		fl[i] = f
	}
	p["fins"] = fl
	_, p["deleting"] = m["deletionTimestamp"]
	fields := Obj{}
	for k, v := range o {
		if k == "metadata" || k == "status" || k == "apiVersion" || k == "kind" {
			continue
		}
		Flatten(k, v, fields)
	}
	p["fields"] = fields
	if st, ok := o["status"]; ok && st != nil {
		flat := Obj{}
		Flatten("", st, flat)
		p["status"] = flat
		p["hasStatus"] = true
	}
	if p["kind"] == "ControllerRevision" {
		if pp, ok := o["parentPatch"]; ok {
			p["patch"] = canon(pp)
		}
		claims := []interface{}{}
		if l, ok := o["children"].([]interface{}); ok {
			for _, x := range l {
				c, _ := x.(map[string]interface{})
				if c == nil {
					continue
				}
				g, _ := c["apiGroup"].(string)
				k, _ := c["kind"].(string)
				names := []interface{}{}
				if nl, ok := c["names"].([]interface{}); ok {
					for _, n := range nl {
						if s, ok := n.(string); ok {
							names = append(names, s)
						}
					}
				}
				claims = append(claims, Obj{"g": g, "k": k, "names": names})
			}
		}
		p["claims"] = claims
	}
	return p
}

// ProjectJSON projects raw JSON bytes of an object (or returns Absent on failure).
func ProjectJSON(b []byte) Obj {
	var o Obj
	if len(b) == 0 || json.Unmarshal(b, &o) != nil {
		return Absent()
	}
	return Project(o)
}
