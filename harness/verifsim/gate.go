package verifsim

import (
	"encoding/json"
	"errors"
	"net/http"
	"sort"
	"strings"
	"sync"
)

// Gate is the scheduler gate: requests issued by the code under test (everything except
// reflector LIST/WATCH and discovery) block here until the driver releases them.
type Gate struct {
	mu       sync.Mutex
	stepped  map[string]bool
	dead     map[string]bool
	arrivals map[string]chan *Pending
}

// Pending is a request parked at the gate.
type Pending struct {
	Actor   string
	Verb    string
	ResKey  string
	NS      string
	Name    string
	release chan struct{}
	done    chan struct{}
}

func newGate() *Gate {
	return &Gate{stepped: map[string]bool{}, dead: map[string]bool{}, arrivals: map[string]chan *Pending{}}
}

// Step puts an actor under stepping control and returns its arrival channel.
func (s *Server) Step(actor string) <-chan *Pending {
	g := s.gate
	g.mu.Lock()
	defer g.mu.Unlock()
	g.stepped[actor] = true
	if g.arrivals[actor] == nil {
		g.arrivals[actor] = make(chan *Pending)
	}
	return g.arrivals[actor]
}

// Unstep lets the actor run free again.
func (s *Server) Unstep(actor string) {
	g := s.gate
	g.mu.Lock()
	defer g.mu.Unlock()
	delete(g.stepped, actor)
}

// Kill marks an actor as crashed: every further request of it fails with a transport
// error, has no effect and is not traced.
func (s *Server) Kill(actor string) {
	g := s.gate
	g.mu.Lock()
	g.dead[actor] = true
	g.mu.Unlock()
}

func (s *Server) IsDead(actor string) bool {
	g := s.gate
	g.mu.Lock()
	defer g.mu.Unlock()
	return g.dead[actor]
}

// Release lets the parked request proceed and waits until the server has answered it.
func (p *Pending) Release() {
	close(p.release)
	<-p.done
}

var ErrCrashed = errors.New("verifsim: actor crashed")

// ErrTimeout is what a request that timed out on the wire looks like to the client: a net.Error whose Timeout() is
// true (http.Client wraps it in a *url.Error that reports the same), as a real deadline on the connection would give.
var ErrTimeout error = timeoutErr{}

type timeoutErr struct{}

func (timeoutErr) Error() string   { return "verifsim: injected timeout" }
func (timeoutErr) Timeout() bool   { return true }
func (timeoutErr) Temporary() bool { return true }

// InjectFault queues a fault for the actor's next gated request(s).
func (s *Server) InjectFault(actor string, f Fault) {
	s.mu.Lock()
	s.faults[actor] = append(s.faults[actor], f)
	s.mu.Unlock()
}

func (s *Server) ClearFaults() {
	s.mu.Lock()
	s.faults = map[string][]Fault{}
	s.mu.Unlock()
}

func verbOf(method, sub, contentType string) string {
	switch method {
	case "GET":
		return "get"
	case "POST":
		return "create"
	case "PUT":
		if sub == "status" {
			return "updateStatus"
		}
		return "update"
	case "DELETE":
		return "delete"
	case "PATCH":
		if strings.Contains(contentType, "apply-patch") {
			return "apply"
		}
		if strings.Contains(contentType, "json-patch") {
			return "jsonpatch"
		}
		return "patch"
	}
	return strings.ToLower(method)
}

func (s *Server) serveGated(req *http.Request, actor string, rd ResourceDef, pr parsedReq, body []byte) (*http.Response, error) {
	verb := verbOf(req.Method, pr.sub, req.Header.Get("Content-Type"))
	g := s.gate
	g.mu.Lock()
	dead := g.dead[actor]
	stepped := g.stepped[actor]
	ch := g.arrivals[actor]
	g.mu.Unlock()
	if dead {
		return nil, ErrCrashed
	}
	var p *Pending
	if stepped {
		pname := pr.name
		if verb == "create" {
			var tmp Obj
			if json.Unmarshal(body, &tmp) == nil {
				pname = metaStr(tmp, "name")
			}
		}
		p = &Pending{Actor: actor, Verb: verb, ResKey: rd.ResKey(), NS: pr.ns, Name: pname,
			release: make(chan struct{}), done: make(chan struct{})}
		ch <- p
		<-p.release
		defer close(p.done)
		if s.IsDead(actor) {
			return nil, ErrCrashed
		}
	}
	q := req.URL.Query()

	s.mu.Lock()
	defer s.mu.Unlock()

	name := pr.name
	var bodyObj Obj
	var patchOps []interface{}
	opt := Obj{"rv": "", "precondUid": "", "propagation": "", "fieldManager": q.Get("fieldManager"), "force": q.Get("force") == "true"}
	var dopts DeleteOpts
	switch verb {
	case "create", "update", "updateStatus", "apply":
		if err := json.Unmarshal(body, &bodyObj); err != nil {
			return jsonResp(req, 400, statusBody(400, "BadRequest", "cannot decode body")), nil
		}
		if verb == "create" {
			name = metaStr(bodyObj, "name")
		}
		opt["rv"] = metaStr(bodyObj, "resourceVersion")
	case "jsonpatch":
		if err := json.Unmarshal(body, &patchOps); err != nil {
			return jsonResp(req, 400, statusBody(400, "BadRequest", "cannot decode patch")), nil
		}
	case "delete":
		if len(body) > 0 {
			var do Obj
			if json.Unmarshal(body, &do) == nil {
				if pc, ok := do["preconditions"].(map[string]interface{}); ok {
					dopts.PrecondUID, _ = pc["uid"].(string)
					dopts.PrecondRV, _ = pc["resourceVersion"].(string)
				}
				dopts.Propagation, _ = do["propagationPolicy"].(string)
			}
		}
		opt["precondUid"] = dopts.PrecondUID
		opt["propagation"] = dopts.Propagation
		opt["rv"] = dopts.PrecondRV
	}
	ns := pr.ns
	if !rd.Namespaced {
		ns = ""
	}
	key := storeKey(rd.ResKey(), ns, name)
	pre := Project(s.store[key])

	// fault injection
	injected := -1
	if fl := s.faults[actor]; len(fl) > 0 {
		for i := range fl {
			f := &fl[i]
			if (f.Verb == "" || f.Verb == verb) && (f.ResKey == "" || f.ResKey == rd.ResKey()) && (f.Name == "" || f.Name == name) {
				if f.Skip > 0 {
					f.Skip--
				} else {
					injected = f.Code
					s.faults[actor] = append(append([]Fault{}, fl[:i]...), fl[i+1:]...)
				}
				break
			}
		}
	}

	var code int
	var res Obj
	var msg string
	switch {
	case injected == 0:
		code = 0
	case injected > 0:
		code, msg = injected, "injected fault"
	default:
		switch verb {
		case "get":
			if pr.sub != "" {
				code, msg = 404, "subresource get not supported"
			} else if o, ok := s.store[key]; ok {
				code, res = 200, CopyObj(o)
			} else {
				code, msg = 404, rd.Resource+" \""+name+"\" not found"
			}
		case "create":
			code, res, msg = s.createLocked(rd, pr.ns, bodyObj)
		case "update":
			code, res, msg = s.updateLocked(rd, pr.ns, name, "", bodyObj)
		case "updateStatus":
			code, res, msg = s.updateLocked(rd, pr.ns, name, "status", bodyObj)
		case "delete":
			code, res, msg = s.deleteLocked(rd, pr.ns, name, dopts)
		case "jsonpatch":
			code, res, msg = s.jsonPatchLocked(rd, pr.ns, name, patchOps)
		case "apply":
			code, res, msg = s.applyLocked(rd, pr.ns, name, q.Get("fieldManager"), q.Get("force") == "true", bodyObj)
		default:
			code, msg = 405, "unsupported verb"
		}
	}
	post := Project(s.store[key])
	inj := injected
	ev := Obj{"ev": "Req", "a": actor, "verb": verb, "res": rd.ResKey(), "kind": rd.Kind, "ns": ns, "name": name,
		"sub": pr.sub, "opt": opt, "code": code, "pre": pre, "post": post, "injected": inj,
		"nsReq": pr.ns}
	if bodyObj != nil {
		ev["body"] = Project(bodyObj)
	} else {
		ev["body"] = Absent()
	}
	if res != nil && verb == "get" {
		ev["got"] = Project(res)
	}
	if res != nil {
		ev["ret"] = Project(res) // what the client was handed back
	} else {
		ev["ret"] = Absent()
	}
	s.Trace.Emit(ev)

	if code == 0 {
		return nil, ErrTimeout
	}
	if code >= 200 && code < 300 {
		b, _ := json.Marshal(res)
		return jsonResp(req, code, b), nil
	}
	reason := reasonFor(code)
	if code == 409 && (msg == "AlreadyExists" || (verb == "create" && injected == 409)) {
		reason = "AlreadyExists"
	}
	return jsonResp(req, code, statusBody(code, reason, msg)), nil
}

// ---------------------------------------------------------------------------------
// environment steps: applied directly to the store, traced as Env events.

// EnvOp is one environment step of a scenario.
//
//	op: create | delete | recreate | relabel | setowners | setfield | setstatus |
//	    setfinalizers | gc | touch
type EnvOp struct {
	Op          string
	ResKey      string
	NS, Name    string
	Obj         Obj               // create / recreate: the object to create
	Labels      map[string]string // relabel: full replacement
	Owners      []interface{}     // setowners: full replacement of ownerReferences
	Path        []string          // setfield/setstatus: path (setstatus is relative to status)
	Value       interface{}       // setfield/setstatus value (nil = remove)
	Propagation string            // delete
	Finalizers  []string
}

// Env applies one environment step.  It returns the HTTP-like code.
func (s *Server) Env(op EnvOp) int {
	s.mu.Lock()
	defer s.mu.Unlock()
	rd, ok := s.res[op.ResKey]
	if !ok {
		return 404
	}
	ns := op.NS
	if !rd.Namespaced {
		ns = ""
	}
	name := op.Name
	if op.Obj != nil && name == "" {
		name = metaStr(op.Obj, "name")
	}
	key := storeKey(rd.ResKey(), ns, name)
	pre := Project(s.store[key])
	code := 200
	mutate := func(f func(o Obj)) {
		cur, ok := s.store[key]
		if !ok {
			code = 404
			return
		}
		o := CopyObj(cur)
		f(o)
		m := meta(o)
		m["resourceVersion"] = metaStr(cur, "resourceVersion")
		if st, had := o["status"]; rd.StatusSub && had {
			// environment writers may change status too: write it through the subresource
			c, _, _ := s.updateLocked(rd, ns, name, "status", Obj{"metadata": Obj{"name": name}, "status": st})
			if c != 200 {
				code = c
				return
			}
			if cur2, ok := s.store[key]; ok {
				m["resourceVersion"] = metaStr(cur2, "resourceVersion")
			} else {
				return
			}
		}
		code, _, _ = s.updateLocked(rd, ns, name, "", o)
	}
	switch op.Op {
	case "create":
		code, _, _ = s.createLocked(rd, ns, CopyObj(op.Obj))
	case "delete":
		code, _, _ = s.deleteLocked(rd, ns, name, DeleteOpts{Propagation: op.Propagation})
	case "recreate":
		c1, _, _ := s.deleteLocked(rd, ns, name, DeleteOpts{})
		if _, still := s.store[key]; still {
			// has finalizers: force removal, this is "someone deleted it and it went away"
			o := s.store[key]
			meta(o)["resourceVersion"] = s.nextRV()
			delete(s.store, key)
			delete(s.managed, key)
			s.recordLocked(rd.ResKey(), "DELETED", o)
		}
		_ = c1
		code, _, _ = s.createLocked(rd, ns, CopyObj(op.Obj))
	case "relabel":
		mutate(func(o Obj) {
			l := Obj{}
			for k, v := range op.Labels {
				l[k] = v
			}
			if len(l) == 0 {
				delete(meta(o), "labels")
			} else {
				meta(o)["labels"] = l
			}
		})
	case "setowners":
		mutate(func(o Obj) {
			if len(op.Owners) == 0 {
				delete(meta(o), "ownerReferences")
			} else {
				meta(o)["ownerReferences"] = deepCopy(op.Owners)
			}
		})
	case "setfinalizers":
		mutate(func(o Obj) { setFinalizers(o, op.Finalizers) })
	case "dropfin":
		mutate(func(o Obj) {
			var keep []string
			for _, f := range finalizers(o) {
				drop := false
				for _, d := range op.Finalizers {
					if d == f {
						drop = true
					}
				}
				if !drop {
					keep = append(keep, f)
				}
			}
			setFinalizers(o, keep)
		})
	case "setfield":
		mutate(func(o Obj) {
			if op.Value == nil {
				delPath(o, op.Path)
			} else {
				setPath(o, op.Path, op.Value)
			}
		})
	case "setstatus":
		mutate(func(o Obj) {
			p := append([]string{"status"}, op.Path...)
			if op.Value == nil {
				delPath(o, p)
			} else {
				setPath(o, p, op.Value)
			}
		})
	case "terminate":
		// deleted while a finalizer holds it: the object stays with a deletionTimestamp
		if cur, ok := s.store[key]; ok {
			fs := finalizers(cur)
			has := false
			for _, f := range fs {
				if f == "verif/hold" {
					has = true
				}
			}
			if !has {
				o := CopyObj(cur)
				setFinalizers(o, append(fs, "verif/hold"))
				meta(o)["resourceVersion"] = metaStr(cur, "resourceVersion")
				s.updateLocked(rd, ns, name, "", o)
			}
			code, _, _ = s.deleteLocked(rd, ns, name, DeleteOpts{})
		} else {
			code = 404
		}
	case "heal":
		// the child's own controller reports it healthy: Ready=True and (unless noOG) it has
		// observed its latest generation.  skipIfRevNot: leave it alone unless spec.rev has that value.
		if cur, ok := s.store[key]; ok {
			if want, has := op.Value.(string); has && want != "" {
				sp, _ := cur["spec"].(map[string]interface{})
				if rv, _ := sp["rev"].(string); rv != want {
					break
				}
			}
		}
		mutate(func(o Obj) {
			st := Obj{"conditions": []interface{}{Obj{"type": "Ready", "status": "True", "reason": "Healthy"}}}
			mode := ""
			if len(op.Path) > 0 {
				mode = op.Path[0]
			}
			switch mode {
			case "noOG":
			case "zeroOG": // reported as 0: "not observed anything yet" -- metacontroller treats it as not reported
				st["observedGeneration"] = int64(0)
			case "strOG": // wrong type: cannot be read, treated as not reported
				st["observedGeneration"] = "7"
			default:
				if g, ok := toInt64(meta(o)["generation"]); ok {
					st["observedGeneration"] = g
				}
			}
			o["status"] = st
		})
	case "touch":
		mutate(func(o Obj) {
			a, _ := meta(o)["annotations"].(map[string]interface{})
			if a == nil {
				a = Obj{}
				meta(o)["annotations"] = a
			}
			n, _ := a["verif/touch"].(string)
			a["verif/touch"] = n + "x"
		})
	case "gc":
		code = s.gcLocked()
	default:
		code = 400
	}
	post := Project(s.store[key])
	s.Trace.Emit(Obj{"ev": "Env", "op": op.Op, "res": rd.ResKey(), "kind": rd.Kind, "ns": ns, "name": name,
		"code": code, "pre": pre, "post": post})
	return code
}

// gcLocked: delete dependents whose controller owner does not exist (by uid), and
// finish foreground/orphan deletion of owners.  One pass.
func (s *Server) gcLocked() int {
	uids := map[string]bool{}
	for _, o := range s.store {
		uids[metaStr(o, "uid")] = true
	}
	var keys []string
	for k := range s.store {
		keys = append(keys, k)
	}
	sort.Strings(keys)
	for _, k := range keys {
		o := s.store[k]
		p := Project(o)
		c, _ := p["ctrl"].(string)
		if c != "" && !uids[c] {
			parts := strings.SplitN(k, "|", 3)
			rd := s.res[parts[0]]
			s.deleteLocked(rd, parts[1], parts[2], DeleteOpts{})
		}
	}
	return 200
}

// Seed puts an object into the store without tracing (scenario initialisation).
func (s *Server) Seed(resKey string, o Obj) (Obj, int) {
	s.mu.Lock()
	defer s.mu.Unlock()
	rd, ok := s.res[resKey]
	if !ok {
		return nil, 404
	}
	o = CopyObj(o)
	st, hasSt := o["status"]
	deleting := false
	if _, d := meta(o)["deletionTimestamp"]; d {
		deleting = true
	}
	code, res, _ := s.createLocked(rd, metaStr(o, "namespace"), o)
	if code != 201 {
		return nil, code
	}
	key := storeKey(rd.ResKey(), metaStr(res, "namespace"), metaStr(res, "name"))
	cur := s.store[key]
	changed := false
	if hasSt && rd.StatusSub {
		cur["status"] = deepCopy(st)
		changed = true
	}
	if deleting {
		meta(cur)["deletionTimestamp"] = "2026-01-02T00:00:00Z"
		changed = true
	}
	if changed {
		meta(cur)["resourceVersion"] = s.nextRV()
		s.recordLocked(rd.ResKey(), "MODIFIED", cur)
	}
	return CopyObj(cur), 201
}

// Get returns a copy of a stored object (nil if absent).
// NamesOf lists the names of the objects of a resource in a namespace.
func (s *Server) NamesOf(resKey, ns string) []string {
	s.mu.Lock()
	defer s.mu.Unlock()
	var out []string
	for _, o := range s.store {
		m := meta(o)
		k, _ := o["kind"].(string)
		rd, ok := s.res[resKey]
		if !ok || k != rd.Kind {
			continue
		}
		if n, _ := m["namespace"].(string); rd.Namespaced && n != ns {
			continue
		}
		if name, _ := m["name"].(string); name != "" {
			out = append(out, name)
		}
	}
	sort.Strings(out)
	return out
}

func (s *Server) Get(resKey, ns, name string) Obj {
	s.mu.Lock()
	defer s.mu.Unlock()
	return CopyObj(s.store[storeKey(resKey, ns, name)])
}

// Dump returns the projected store, sorted by key.
func (s *Server) Dump() []interface{} {
	s.mu.Lock()
	defer s.mu.Unlock()
	var keys []string
	for k := range s.store {
		keys = append(keys, k)
	}
	sort.Strings(keys)
	out := make([]interface{}, 0, len(keys))
	for _, k := range keys {
		out = append(out, Project(s.store[k]))
	}
	return out
}

// RV returns the current global resourceVersion counter.
func (s *Server) RV() int64 {
	s.mu.Lock()
	defer s.mu.Unlock()
	return s.rv
}
