package verifsim

import (
	"context"
	"fmt"
	"runtime/debug"
	"strings"
	"sync"
	"time"

	utilruntime "k8s.io/apimachinery/pkg/util/runtime"
	"k8s.io/client-go/tools/cache"
)

// ---------------------------------------------------------------------------------
// RecQueue: a recording stand-in for the controller's rate-limiting work queue.  Get()
// returns exactly the keys the driver feeds, so event handlers that enqueue
// asynchronously cannot perturb a replay; every call is recorded.

type QCall struct {
	Op  string
	Key string
	D   time.Duration
}

type RecQueue struct {
	mu    sync.Mutex
	feed  chan string
	shut  chan struct{}
	once  sync.Once
	calls []QCall // AddRateLimited / Forget / AddAfter / Done
	adds  []string
	fails map[string]int // the rate limiter's failure count per item (AddRateLimited counts, Forget resets)
}

func NewRecQueue() *RecQueue {
	return &RecQueue{feed: make(chan string, 16), shut: make(chan struct{})}
}

func (q *RecQueue) Feed(key string) { q.feed <- key }
func (q *RecQueue) rec(op string, item any, d time.Duration) {
	q.mu.Lock()
	q.calls = append(q.calls, QCall{op, fmt.Sprint(item), d})
	q.mu.Unlock()
}
func (q *RecQueue) Add(item any) {
	q.mu.Lock()
	q.adds = append(q.adds, fmt.Sprint(item))
	q.mu.Unlock()
}
func (q *RecQueue) Len() int { return len(q.feed) }
func (q *RecQueue) Get() (any, bool) {
	select {
	case k := <-q.feed:
		return k, false
	case <-q.shut:
		return nil, true
	}
}
func (q *RecQueue) Done(item any)      {}
func (q *RecQueue) ShutDown()          { q.once.Do(func() { close(q.shut) }) }
func (q *RecQueue) ShutDownWithDrain() { q.ShutDown() }
func (q *RecQueue) ShuttingDown() bool {
	select {
	case <-q.shut:
		return true
	default:
		return false
	}
}
func (q *RecQueue) AddAfter(item any, d time.Duration) { q.rec("AddAfter", item, d) }
func (q *RecQueue) AddRateLimited(item any) {
	q.mu.Lock()
	if q.fails == nil {
		q.fails = map[string]int{}
	}
	q.fails[fmt.Sprint(item)]++
	q.mu.Unlock()
	q.rec("AddRateLimited", item, 0)
}
func (q *RecQueue) Forget(item any) {
	q.mu.Lock()
	delete(q.fails, fmt.Sprint(item))
	q.mu.Unlock()
	q.rec("Forget", item, 0)
}
func (q *RecQueue) NumRequeues(item any) int {
	q.mu.Lock()
	defer q.mu.Unlock()
	return q.fails[fmt.Sprint(item)]
}

// TakeCalls returns and clears the recorded sync-side calls.
func (q *RecQueue) TakeCalls() []QCall {
	q.mu.Lock()
	defer q.mu.Unlock()
	c := q.calls
	q.calls = nil
	return c
}

// TakeAdds returns and clears the keys added by event handlers.
func (q *RecQueue) TakeAdds() []string {
	q.mu.Lock()
	defer q.mu.Unlock()
	a := q.adds
	q.adds = nil
	return a
}

// ---------------------------------------------------------------------------------

// Ctl is the in-package adapter around a real parentController / decoratorController.
type Ctl interface {
	Start()
	Stop()
	ProcessOne() // one real processNextWorkItem()
	Stores() []InformerSpec
	Queue() *RecQueue
	ParentStore() cache.Store
	// SyncInfo describes, for the trace, what the controller claims for this parent:
	// {"sel": {"ml": {...}, "me": [...]}, "selOK": bool, "marker": "<decorator name>"}
	SyncInfo(parent Obj) Obj
}

type CtlFactory func(w *World, sc *Scenario, actor string) (Ctl, error)

type syncResult struct {
	panicked bool
	panicMsg string
}

type actorState struct {
	base     string
	name     string
	gen      int
	world    *World
	ctl      Ctl
	arrivals <-chan *Pending
	running  bool
	done     chan syncResult
	sid      int
	key      string
	fpBase   map[string]map[string]string
	nreq     int
	parked   *Pending
	tcount   map[string]int
	arrived  []arrival // every gated request of the current sync, in order
	hooked   bool      // the sync/finalize hook has been called in the current sync
}

type arrival struct {
	resKey, name, verb string
	afterHook          bool
}

// Runner executes scenarios against real controllers.
type Runner struct {
	Trace   *Trace
	Factory CtlFactory
	OnCrash func() // reset process-wide state (SSA memo) on simulated restart
	Timeout time.Duration

	srv     *Server
	sc      *Scenario
	actors  map[string]*actorState
	order   []string
	hookFl  map[string][]int // hook name -> queued fault codes
	hookMu  sync.Mutex
	Drift   int
	lastErr string
	errMu   sync.Mutex
}

var errHookOnce sync.Once
var curRunner *Runner
var curRunnerMu sync.Mutex

func (r *Runner) installErrHandler() {
	errHookOnce.Do(func() {
		utilruntime.ErrorHandlers = []utilruntime.ErrorHandler{func(_ context.Context, err error, msg string, kv ...interface{}) {
			curRunnerMu.Lock()
			cr := curRunner
			curRunnerMu.Unlock()
			if cr != nil {
				cr.errMu.Lock()
				if err != nil {
					cr.lastErr = err.Error()
				} else {
					cr.lastErr = msg
				}
				cr.errMu.Unlock()
			}
		}}
	})
	curRunnerMu.Lock()
	curRunner = r
	curRunnerMu.Unlock()
}

func (r *Runner) timeout() time.Duration {
	if r.Timeout > 0 {
		return r.Timeout
	}
	return 20 * time.Second
}

// Run executes one scenario; an error means broken machinery (never a verdict).
func (r *Runner) Run(sc *Scenario) (err error) {
	r.installErrHandler()
	r.sc = sc
	r.Trace.SetScenario(sc.ID)
	r.srv = NewServer(DefaultResources(), r.Trace)
	r.actors = map[string]*actorState{}
	r.order = nil
	r.hookFl = map[string][]int{}
	hooks := InstallHooks()
	hooks.Set(r.hookHandler)
	if r.OnCrash != nil {
		r.OnCrash() // process-wide memo must not leak between scenarios
	}
	for _, o := range sc.Objs {
		resKey, obj := r.srv.BuildObject(AsMap(o))
		if _, code := r.srv.Seed(resKey, obj); code != 201 {
			return fmt.Errorf("seed %s %v: code %d", resKey, obj["metadata"], code)
		}
	}
	r.Trace.Emit(Obj{"ev": "Reset", "cfg": sc.Cfg, "objs": r.srv.Dump(), "fam": sc.Fam, "expect": sc.Expect})
	r.srv.Hold()
	defer r.teardown()

	actors := []string{}
	for _, a := range AsList(sc.Cfg["actors"]) {
		actors = append(actors, AsStr(a))
	}
	if len(actors) == 0 {
		actors = []string{"A"}
	}
	for _, a := range actors {
		if err := r.startActor(a, 1); err != nil {
			return err
		}
	}
	for _, st := range sc.Sched {
		if err := r.step(AsMap(st)); err != nil {
			return fmt.Errorf("scenario %s step %v: %w", sc.ID, st, err)
		}
	}
	for _, a := range r.order {
		if err := r.finish(r.actors[a]); err != nil {
			return err
		}
	}
	r.Trace.Emit(Obj{"ev": "End", "objs": r.srv.Dump()})
	return nil
}

func (r *Runner) teardown() {
	for _, a := range r.order {
		as := r.actors[a]
		if as.running {
			r.srv.Kill(as.name)
			r.drain(as)
		}
		r.srv.Unstep(as.name)
		as.ctl.Stop()
		as.world.Stop()
	}
	GlobalHooks.Set(nil)
}

func (r *Runner) startActor(base string, gen int) error {
	name := base
	if gen > 1 {
		name = fmt.Sprintf("%s.%d", base, gen)
	}
	w, err := NewWorld(r.srv, name, 0)
	if err != nil {
		return err
	}
	ctl, err := r.Factory(w, r.sc, name)
	if err != nil {
		w.Stop()
		return fmt.Errorf("controller construction: %w", err)
	}
	ctl.Start()
	as := &actorState{base: base, name: name, gen: gen, world: w, ctl: ctl, done: make(chan syncResult, 1)}
	as.arrivals = r.srv.Step(name)
	if _, ok := r.actors[base]; !ok {
		r.order = append(r.order, base)
	}
	r.actors[base] = as
	if err := w.WaitCaches(ctl.Stores(), r.timeout()); err != nil {
		return err
	}
	return nil
}

func (r *Runner) fingerprints(as *actorState) map[string]map[string]string {
	out := map[string]map[string]string{}
	for _, sp := range as.ctl.Stores() {
		out[sp.ResKey] = Fingerprint(sp.Store)
	}
	return out
}

func (r *Runner) fpDiff(as *actorState) []interface{} {
	now := r.fingerprints(as)
	d := []interface{}{}
	for k, base := range as.fpBase {
		for _, x := range FingerprintDiff(base, now[k]) {
			d = append(d, k+":"+x)
		}
	}
	return d
}

func (r *Runner) cacheDump(as *actorState) []interface{} {
	out := []interface{}{}
	seen := map[string]bool{}
	for _, sp := range as.ctl.Stores() {
		if seen[sp.ResKey] {
			continue
		}
		seen[sp.ResKey] = true
		var items []Obj
		for _, x := range sp.Store.List() {
			o := toObj(x)
			if k, _ := o["kind"].(string); k == "" {
				// typed clients strip TypeMeta from decoded objects
				if rd, ok := r.srv.res[sp.ResKey]; ok {
					o["kind"] = rd.Kind
					o["apiVersion"] = rd.APIVersion()
				}
			}
			items = append(items, o)
		}
		// deterministic order
		SortObjs(items)
		for _, o := range items {
			out = append(out, Project(o))
		}
	}
	return out
}

func (r *Runner) startSync(as *actorState, key string) error {
	if as.running {
		if err := r.finish(as); err != nil {
			return err
		}
	}
	as.sid++
	as.key = key
	as.nreq = 0
	as.tcount = map[string]int{}
	as.arrived = nil
	as.hooked = false
	as.fpBase = r.fingerprints(as)
	parent := Absent()
	var parentObj Obj
	if x, ok, _ := as.ctl.ParentStore().GetByKey(parentStoreKey(key)); ok {
		parentObj = toObj(x)
		parent = Project(parentObj)
	}
	ev := Obj{"ev": "SyncStart", "a": as.name, "base": as.base, "sid": as.sid, "key": key, "parent": parent, "cache": r.cacheDump(as)}
	for k, v := range as.ctl.SyncInfo(parentObj) {
		ev[k] = v
	}
	r.Trace.Emit(ev)
	as.ctl.Queue().TakeCalls()
	as.ctl.Queue().Feed(key)
	as.running = true
	go func() {
		res := syncResult{}
		defer func() {
			if p := recover(); p != nil {
				res.panicked = true
				res.panicMsg = fmt.Sprintf("%v\n%s", p, debug.Stack())
			}
			as.done <- res
		}()
		as.ctl.ProcessOne()
	}()
	return nil
}

// parentStoreKey maps a queue key to the indexer key of the parent ("ns/name" or
// "name"); decorator keys are "apiVersion:kind:ns:name".
func parentStoreKey(key string) string {
	if strings.Count(key, ":") >= 3 {
		p := strings.SplitN(key, ":", 4)
		if p[2] == "" {
			return p[3]
		}
		return p[2] + "/" + p[3]
	}
	return key
}

func (r *Runner) endSync(as *actorState, res syncResult) {
	as.running = false
	calls := as.ctl.Queue().TakeCalls()
	q := []interface{}{}
	result := "ok"
	for _, c := range calls {
		q = append(q, Obj{"op": c.Op, "key": c.Key, "d": int(c.D / time.Millisecond)})
		if c.Op == "AddRateLimited" {
			result = "error"
		}
	}
	msg := ""
	if res.panicked {
		result = "panic"
		msg = res.panicMsg
		if len(msg) > 600 {
			msg = msg[:600]
		}
	} else if result == "error" {
		r.errMu.Lock()
		msg = r.lastErr
		r.errMu.Unlock()
		if len(msg) > 300 {
			msg = msg[:300]
		}
	}
	phase := "other"
	if strings.Contains(msg, "can't reconcile children") {
		phase = "manage" // the response was accepted; a request of the reconcile phase failed
	}
	r.Trace.Emit(Obj{"ev": "SyncEnd", "a": as.name, "base": as.base, "sid": as.sid, "key": as.key, "result": result, "msg": msg, "errPhase": phase,
		"queue": q, "fpDiff": r.fpDiff(as), "nreq": as.nreq})
}

// stepOne lets the actor's sync perform one request (or notice that it has ended).
func (r *Runner) stepOne(as *actorState) (ended bool, err error) {
	if !as.running {
		return true, nil
	}
	if as.parked != nil {
		p := as.parked
		as.parked = nil
		p.Release()
		return false, nil
	}
	select {
	case p := <-as.arrivals:
		as.nreq++
		as.tcount[p.ResKey+"|"+p.Name]++
		as.arrived = append(as.arrived, arrival{p.ResKey, p.Name, p.Verb, as.isHooked()})
		p.Release()
		return false, nil
	case res := <-as.done:
		r.endSync(as, res)
		return true, nil
	case <-time.After(r.timeout()):
		return false, fmt.Errorf("actor %s: neither request nor sync end within timeout (dead driver)", as.name)
	}
}

// until releases requests of the actor until its nth request (since sync start) on the
// object arrives, and leaves that one parked.  If the sync ends first, that is drift.
func (r *Runner) until(as *actorState, resKey, name string, nth int) error {
	return r.untilM(as, resKey, name, nth, "", false)
}

func (as *actorState) isHooked() bool {
	hookedMu.Lock()
	defer hookedMu.Unlock()
	return as.hooked
}

var hookedMu sync.Mutex

// untilM is until with optional verb / after-the-hook matchers.
func (r *Runner) untilM(as *actorState, resKey, name string, nth int, verb string, afterHook bool) error {
	if nth <= 0 {
		nth = 1
	}
	match := func(a arrival) bool {
		return a.resKey == resKey && a.name == name && (verb == "" || a.verb == verb) && (!afterHook || a.afterHook)
	}
	for as.running {
		if as.parked != nil {
			p := as.parked
			as.parked = nil
			p.Release()
			continue
		}
		select {
		case p := <-as.arrivals:
			as.nreq++
			as.tcount[p.ResKey+"|"+p.Name]++
			ar := arrival{p.ResKey, p.Name, p.Verb, as.isHooked()}
			as.arrived = append(as.arrived, ar)
			cnt := 0
			for _, x := range as.arrived {
				if match(x) {
					cnt++
				}
			}
			if match(ar) && cnt >= nth {
				as.parked = p
				return nil
			}
			p.Release()
		case res := <-as.done:
			r.endSync(as, res)
			r.Drift++
			return nil
		case <-time.After(r.timeout()):
			return fmt.Errorf("actor %s: neither request nor sync end within timeout (dead driver)", as.name)
		}
	}
	r.Drift++
	return nil
}

func (r *Runner) finish(as *actorState) error {
	for as.running {
		if _, err := r.stepOne(as); err != nil {
			return err
		}
	}
	return nil
}

// drain releases everything a killed actor still tries; its requests fail.
func (r *Runner) drain(as *actorState) {
	if as.parked != nil {
		p := as.parked
		as.parked = nil
		p.Release()
	}
	for as.running {
		select {
		case p := <-as.arrivals:
			p.Release()
		case <-as.done:
			as.running = false
		case <-time.After(r.timeout()):
			as.running = false
		}
	}
}

func (r *Runner) step(st Obj) error {
	kind := AsStr(st["s"])
	a := AsStr(st["a"])
	if a == "" {
		a = "A"
	}
	as := r.actors[a]
	switch kind {
	case "sync":
		if as == nil {
			return fmt.Errorf("unknown actor %q", a)
		}
		return r.startSync(as, AsStr(st["key"]))
	case "ctl":
		if as == nil {
			return fmt.Errorf("unknown actor %q", a)
		}
		n := AsInt(st["n"])
		if n == 0 {
			n = 1
		}
		for i := 0; i < n; i++ {
			ended, err := r.stepOne(as)
			if err != nil {
				return err
			}
			if ended {
				r.Drift++
				break
			}
		}
		return nil
	case "until":
		// run the actor until it is parked at its nth request on the given object
		if as == nil {
			return fmt.Errorf("unknown actor %q", a)
		}
		return r.until(as, ResKeyOf(AsStr(st["res"])), AsStr(st["name"]), AsInt(st["nth"]))
	case "do":
		// run the actor up to and including its nth request on the given object
		if as == nil {
			return fmt.Errorf("unknown actor %q", a)
		}
		if err := r.until(as, ResKeyOf(AsStr(st["res"])), AsStr(st["name"]), AsInt(st["nth"])); err != nil {
			return err
		}
		if as.parked != nil {
			_, err := r.stepOne(as)
			return err
		}
		return nil
	case "run":
		if as == nil {
			return fmt.Errorf("unknown actor %q", a)
		}
		return r.finish(as)
	case "env":
		op := EnvOp{Op: AsStr(st["op"]), ResKey: ResKeyOf(AsStr(st["res"])), NS: AsStr(st["ns"]), Name: AsStr(st["name"]),
			Propagation: AsStr(st["propagation"])}
		if rd, ok := r.srv.res[op.ResKey]; ok && rd.Namespaced && op.NS == "" {
			op.NS = "ns1"
		}
		if o, ok := st["obj"]; ok {
			_, op.Obj = r.srv.BuildObject(AsMap(o))
			op.Name = metaStr(op.Obj, "name")
			op.NS = metaStr(op.Obj, "namespace")
		}
		if l, ok := st["labels"]; ok {
			op.Labels = StrMapOf(l)
		}
		if ow, ok := st["owners"]; ok {
			_, tmp := r.srv.BuildObject(Obj{"res": st["res"], "name": "x", "owners": ow})
			op.Owners, _ = meta(tmp)["ownerReferences"].([]interface{})
		}
		for _, p := range AsList(st["path"]) {
			op.Path = append(op.Path, AsStr(p))
		}
		if v, ok := st["value"]; ok {
			op.Value = normTree(v)
			if s, isStr := v.(string); isStr && s == "<remove>" {
				op.Value = nil
			}
		}
		for _, f := range AsList(st["fins"]) {
			op.Finalizers = append(op.Finalizers, AsStr(f))
		}
		if op.Name == "*" {
			// every object of that resource in the namespace (names that are not known when the scenario is written:
			// ControllerRevisions are named by a hash)
			for _, n := range r.srv.NamesOf(op.ResKey, op.NS) {
				o2 := op
				o2.Name = n
				r.srv.Env(o2)
			}
			return nil
		}
		r.srv.Env(op)
		return nil
	case "deliver":
		return r.deliver()
	case "fault":
		if as == nil {
			return fmt.Errorf("unknown actor %q", a)
		}
		f := Fault{Code: AsInt(st["code"]), Skip: AsInt(st["skip"]), Verb: AsStr(st["verb"]), Name: AsStr(st["name"])}
		if rs := AsStr(st["res"]); rs != "" {
			f.ResKey = ResKeyOf(rs)
		}
		r.srv.InjectFault(as.name, f)
		return nil
	case "hookfault":
		r.hookMu.Lock()
		h := AsStr(st["hook"])
		n := AsInt(st["n"])
		if n == 0 {
			n = 1
		}
		for i := 0; i < n; i++ {
			r.hookFl[h] = append(r.hookFl[h], AsInt(st["code"]))
		}
		r.hookMu.Unlock()
		return nil
	case "reconfig":
		// the controller object was edited: the hosted controller is stopped and a new one
		// with the new configuration is started (same process, same caches)
		if as == nil {
			return fmt.Errorf("unknown actor %q", a)
		}
		if err := r.finish(as); err != nil {
			return err
		}
		nc := Obj{}
		for k, v := range r.sc.Cfg {
			nc[k] = v
		}
		for k, v := range AsMap(st["cfg"]) {
			nc[k] = v
		}
		cp := *r.sc
		cp.Cfg = nc
		r.sc = &cp
		as.ctl.Stop()
		ctl, err := r.Factory(as.world, r.sc, as.name)
		if err != nil {
			return fmt.Errorf("controller construction: %w", err)
		}
		ctl.Start()
		as.ctl = ctl
		r.Trace.Emit(Obj{"ev": "Reconfig", "a": as.name, "cfg": nc})
		return as.world.WaitCaches(ctl.Stores(), r.timeout())
	case "crash":
		if as == nil {
			return fmt.Errorf("unknown actor %q", a)
		}
		r.srv.Kill(as.name)
		r.drain(as)
		r.Trace.Emit(Obj{"ev": "Crash", "a": as.name, "base": as.base})
		r.srv.Unstep(as.name)
		as.ctl.Stop()
		as.world.Stop()
		if r.OnCrash != nil {
			r.OnCrash()
		}
		// the restarted process sees the current store
		r.srv.Deliver()
		return r.startActor(as.base, as.gen+1)
	}
	return fmt.Errorf("unknown step kind %q", kind)
}

func (r *Runner) deliver() error {
	// cache immutability is judged up to here, then re-based
	pre := map[string][]interface{}{}
	for _, a := range r.order {
		as := r.actors[a]
		if as.running {
			pre[as.name] = r.fpDiff(as)
		}
	}
	r.srv.Deliver()
	for _, a := range r.order {
		as := r.actors[a]
		if err := as.world.WaitCaches(as.ctl.Stores(), r.timeout()); err != nil {
			return err
		}
		if as.running {
			as.fpBase = r.fingerprints(as)
		}
	}
	ev := Obj{"ev": "Deliver", "fpDiff": []interface{}{}}
	for _, d := range pre {
		if len(d) > 0 {
			ev["fpDiff"] = d
		}
	}
	r.Trace.Emit(ev)
	return nil
}

func (r *Runner) hookHandler(c *HookCall) HookReply {
	// path: /<actor>/<hook>
	parts := strings.Split(strings.Trim(c.Path, "/"), "/")
	actor, hook := "", ""
	if len(parts) >= 2 {
		actor, hook = parts[0], parts[1]
	}
	if r.srv.IsDead(actor) {
		return HookReply{Status: 0}
	}
	if hook != "customize" {
		if as := r.actors[strings.SplitN(actor, ".", 2)[0]]; as != nil {
			hookedMu.Lock()
			as.hooked = true
			hookedMu.Unlock()
		}
	}
	r.hookMu.Lock()
	fault := -1
	if fl := r.hookFl[hook]; len(fl) > 0 {
		fault = fl[0]
		r.hookFl[hook] = fl[1:]
	}
	r.hookMu.Unlock()
	var reply HookReply
	if fault >= 0 {
		reply = HookReply{Status: fault, Body: []byte(`{"injected":true}`)}
		if fault == 429 {
			reply.Header = map[string]string{"Retry-After": "7"}
		}
	} else {
		prog := AsMap(r.sc.Hook[hook])
		if p, ok := r.sc.Hook[strings.SplitN(actor, ".", 2)[0]+"."+hook]; ok {
			prog = AsMap(p)
		}
		reply = r.srv.RunHookProg(prog, c.Req)
		// a hook that answers "not modified" whenever the caller claims to hold a version of the answer
		if alt := AsMap(prog["ifNoneMatch"]); len(alt) > 0 && c.Header.Get("If-None-Match") != "" {
			reply = HookReply{Status: AsInt(alt["code"]), Header: map[string]string{"ETag": c.Header.Get("If-None-Match")}}
		}
	}
	ev := Obj{"ev": "Hook", "a": actor, "hook": hook, "code": reply.Status, "req": ProjectHookRequest(c.Req),
		"resp": ProjectHookResponse(reply.Body), "inm": c.Header.Get("If-None-Match"), "etag": reply.Header["ETag"]}
	if hook == "customize" {
		ev["req"] = Obj{"finalizing": false, "parent": Project(AsMap(c.Req["parent"])), "children": Obj{}, "related": Obj{}, "kindOfReq": "customize"}
	}
	r.Trace.Emit(ev)
	return reply
}
