package verifsim

import (
	"bytes"
	"encoding/json"
	"io"
	"net/http"
	"strconv"
	"sync"
)

// HookCall is one webhook invocation as seen by the in-process hook server.
type HookCall struct {
	Path   string
	Header http.Header
	Body   []byte
	Req    Obj // decoded body
}

// HookReply is what the hook server answers.
type HookReply struct {
	Status int               // 0 => transport error
	Header map[string]string // extra response headers (ETag, Retry-After)
	Body   []byte
}

// HookHandler computes the reply.  It runs on the caller's goroutine (inside
// http.Client.Do, i.e. after header enrichment and before response adjustment) and may
// block: that is the scheduler gate for hook-transport interleavings.
type HookHandler func(c *HookCall) HookReply

// HookMux is installed once as http.DefaultTransport; it dispatches requests for host
// "hook" to the current handler and refuses everything else (no network exists).
type HookMux struct {
	mu      sync.RWMutex
	handler HookHandler
	dead    bool
	Calls   int
}

var GlobalHooks = &HookMux{}

var installOnce sync.Once

// InstallHooks swaps http.DefaultTransport for the in-process hook server (idempotent).
func InstallHooks() *HookMux {
	installOnce.Do(func() { http.DefaultTransport = GlobalHooks })
	return GlobalHooks
}

func (m *HookMux) Set(h HookHandler) {
	m.mu.Lock()
	m.handler = h
	m.dead = false
	m.mu.Unlock()
}

// SetDead makes every hook call fail (used after a simulated crash so that the
// abandoned goroutine of the old controller cannot reach the hook any more).
func (m *HookMux) SetDead(d bool) {
	m.mu.Lock()
	m.dead = d
	m.mu.Unlock()
}

func (m *HookMux) RoundTrip(req *http.Request) (*http.Response, error) {
	m.mu.Lock()
	h := m.handler
	dead := m.dead
	m.Calls++
	m.mu.Unlock()
	var body []byte
	if req.Body != nil {
		body, _ = io.ReadAll(req.Body)
		req.Body.Close()
	}
	if req.URL.Host != "hook" || h == nil || dead {
		return nil, &netErr{"verifsim: connection refused: " + req.URL.Host}
	}
	c := &HookCall{Path: req.URL.Path, Header: req.Header.Clone(), Body: body}
	_ = json.Unmarshal(body, &c.Req)
	// like a real transport, give up when the request's context ends (http.Client.Timeout) although the hook is still busy
	var r HookReply
	done := make(chan HookReply, 1)
	go func() { done <- h(c) }()
	select {
	case r = <-done:
	case <-req.Context().Done():
		return nil, &netErr{"verifsim: " + req.Context().Err().Error() + " (Client.Timeout exceeded while awaiting headers)"}
	}
	if r.Status == 0 {
		return nil, &netErr{"verifsim: hook transport error"}
	}
	hdr := http.Header{"Content-Type": []string{"application/json"}}
	for k, v := range r.Header {
		hdr.Set(k, v)
	}
	return &http.Response{
		StatusCode: r.Status, Status: strconv.Itoa(r.Status) + " " + http.StatusText(r.Status),
		Proto: "HTTP/1.1", ProtoMajor: 1, ProtoMinor: 1, Header: hdr,
		Body: io.NopCloser(bytes.NewReader(r.Body)), ContentLength: int64(len(r.Body)), Request: req,
	}, nil
}

type netErr struct{ s string }

func (e *netErr) Error() string   { return e.s }
func (e *netErr) Timeout() bool   { return false }
func (e *netErr) Temporary() bool { return false }

// ---------------------------------------------------------------------------------
// projection of sync/finalize hook requests and responses

func projGroups(v interface{}) Obj {
	out := Obj{}
	m, _ := v.(map[string]interface{})
	for gk, inner := range m {
		g := Obj{}
		im, _ := inner.(map[string]interface{})
		for name, o := range im {
			oo, _ := o.(map[string]interface{})
			g[name] = Project(oo)
		}
		out[gk] = g
	}
	return out
}

// ProjectHookRequest maps a composite/decorator sync or finalize request.
func ProjectHookRequest(req Obj) Obj {
	out := Obj{"finalizing": false, "parent": Absent(), "children": Obj{}, "related": Obj{}, "kindOfReq": "composite"}
	if req == nil {
		return out
	}
	if f, ok := req["finalizing"].(bool); ok {
		out["finalizing"] = f
	}
	if p, ok := req["parent"].(map[string]interface{}); ok {
		out["parent"] = Project(p)
		out["children"] = projGroups(req["children"])
	} else if p, ok := req["object"].(map[string]interface{}); ok {
		out["kindOfReq"] = "decorator"
		out["parent"] = Project(p)
		out["children"] = projGroups(req["attachments"])
	}
	out["related"] = projGroups(req["related"])
	return out
}

// ProjectHookResponse maps a well-formed response body; malformed parts are skipped.
func ProjectHookResponse(body []byte) Obj {
	out := Obj{"children": []interface{}{}, "status": Obj{}, "hasStatus": false, "finalized": false,
		"resync": "0", "labels": Obj{}, "annotations": Obj{}, "wellFormed": false}
	var r Obj
	if json.Unmarshal(body, &r) != nil || r == nil {
		return out
	}
	out["wellFormed"] = true
	kids, _ := r["children"].([]interface{})
	if kids == nil {
		kids, _ = r["attachments"].([]interface{})
	}
	pk := []interface{}{}
	for _, k := range kids {
		if ko, ok := k.(map[string]interface{}); ok {
			pk = append(pk, Project(ko))
		}
	}
	out["children"] = pk
	if st, ok := r["status"].(map[string]interface{}); ok {
		flat := Obj{}
		Flatten("", st, flat)
		out["status"] = flat
		out["hasStatus"] = true
	}
	if f, ok := r["finalized"].(bool); ok {
		out["finalized"] = f
	}
	if rs, ok := r["resyncAfterSeconds"]; ok {
		out["resync"] = scalarStr(rs)
	}
	strOrNull := func(v interface{}) Obj {
		o := Obj{}
		m, _ := v.(map[string]interface{})
		for k, x := range m {
			if x == nil {
				o[k] = "null"
			} else if s, ok := x.(string); ok {
				o[k] = "s:" + s
			}
		}
		return o
	}
	out["labels"] = strOrNull(r["labels"])
	out["annotations"] = strOrNull(r["annotations"])
	return out
}
