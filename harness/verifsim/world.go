package verifsim

import (
	"fmt"
	"net/http"
	"sort"
	"time"

	"k8s.io/apimachinery/pkg/runtime"
	"k8s.io/client-go/discovery"
	"k8s.io/client-go/dynamic"
	"k8s.io/client-go/rest"
	"k8s.io/client-go/tools/cache"
	"github.com/go-logr/logr/funcr"
	"k8s.io/client-go/tools/record"

	mcclientset "metacontroller/pkg/client/generated/clientset/internalclientset"
	mcinformers "metacontroller/pkg/client/generated/informer/externalversions"
	mclisters "metacontroller/pkg/client/generated/lister/metacontroller/v1alpha1"
	dynamicclientset "metacontroller/pkg/dynamic/clientset"
	dynamicdiscovery "metacontroller/pkg/dynamic/discovery"
	dynamicinformer "metacontroller/pkg/dynamic/informer"
	"metacontroller/pkg/logging"
)

// DiscoveryRefresh is the refresh interval of the discovery cache of worlds created next (an hour: never in a run).
var DiscoveryRefresh = time.Hour

func init() {
	// every verbosity level is ON (rendered and dropped), so that code guarded by Logger.V(n).Enabled() -- the diff log of
	// updateChildren, the request/response log of the webhook executor -- runs in every replay
	logging.Logger = funcr.New(func(prefix, args string) {}, funcr.Options{Verbosity: 10})
}

// NopRecorder is a record.EventRecorder that drops everything (the stock FakeRecorder
// blocks once its buffer is full).
type NopRecorder struct{}

func (NopRecorder) Event(object runtime.Object, eventtype, reason, message string) {}
func (NopRecorder) Eventf(object runtime.Object, eventtype, reason, messageFmt string, args ...interface{}) {
}
func (NopRecorder) AnnotatedEventf(object runtime.Object, annotations map[string]string, eventtype, reason, messageFmt string, args ...interface{}) {
}

var _ record.EventRecorder = NopRecorder{}

// World is one "metacontroller process": the real client stacks of one actor over the
// simulated server.
type World struct {
	Actor          string
	Srv            *Server
	Config         *rest.Config
	HTTP           *http.Client
	Resources      *dynamicdiscovery.ResourceMap
	DynClient      *dynamicclientset.Clientset
	DynInformers   *dynamicinformer.SharedInformerFactory
	McClient       mcclientset.Interface
	McInformers    mcinformers.SharedInformerFactory
	RevisionLister mclisters.ControllerRevisionLister
	RevInformer    cache.SharedIndexInformer
	stopCh         chan struct{}
	stopped        bool
}

// actorRT tags every request of a world with its actor name (User-Agent).
type actorRT struct {
	actor string
	srv   *Server
}

func (a *actorRT) RoundTrip(req *http.Request) (*http.Response, error) {
	req.Header.Set("User-Agent", a.actor)
	return a.srv.RoundTrip(req)
}

// NewWorld builds the client stacks for an actor.  resync is the informer relist period
// handed to the shared informer factory (0 = never).
func NewWorld(srv *Server, actor string, resync time.Duration) (*World, error) {
	cfg := &rest.Config{Host: "http://sim", UserAgent: actor, QPS: -1}
	hc := &http.Client{Transport: &actorRT{actor: actor, srv: srv}}
	w := &World{Actor: actor, Srv: srv, Config: cfg, HTTP: hc, stopCh: make(chan struct{})}

	dc, err := discovery.NewDiscoveryClientForConfigAndClient(cfg, hc)
	if err != nil {
		return nil, err
	}
	w.Resources = dynamicdiscovery.NewResourceMap(dc)
	w.Resources.Start(DiscoveryRefresh)
	deadline := time.Now().Add(10 * time.Second)
	for !w.Resources.HasSynced() {
		if time.Now().After(deadline) {
			return nil, fmt.Errorf("discovery never synced")
		}
		time.Sleep(200 * time.Microsecond)
	}
	dyn, err := dynamic.NewForConfigAndClient(cfg, hc)
	if err != nil {
		return nil, err
	}
	w.DynClient = dynamicclientset.NewClientset(cfg, w.Resources, dyn)
	w.DynInformers = dynamicinformer.NewSharedInformerFactory(w.DynClient, resync)
	mc, err := mcclientset.NewForConfigAndClient(cfg, hc)
	if err != nil {
		return nil, err
	}
	w.McClient = mc
	w.McInformers = mcinformers.NewSharedInformerFactory(mc, resync)
	rev := w.McInformers.Metacontroller().V1alpha1().ControllerRevisions()
	w.RevisionLister = rev.Lister()
	w.RevInformer = rev.Informer()
	w.McInformers.Start(w.stopCh)
	return w, nil
}

// Stop stops the typed informers and discovery refresh of this world.
func (w *World) Stop() {
	if w.stopped {
		return
	}
	w.stopped = true
	close(w.stopCh)
	w.Resources.Stop()
}

// WaitFor polls cond until it holds or the timeout expires.
func WaitFor(timeout time.Duration, cond func() bool) bool {
	deadline := time.Now().Add(timeout)
	for i := 0; ; i++ {
		if cond() {
			return true
		}
		if time.Now().After(deadline) {
			return false
		}
		if i < 200 {
			time.Sleep(50 * time.Microsecond)
		} else {
			time.Sleep(time.Millisecond)
		}
	}
}

// indexerView returns "ns/name" -> resourceVersion of everything in an indexer.
func indexerView(ix cache.Store) map[string]string {
	out := map[string]string{}
	for _, x := range ix.List() {
		type metaObj interface {
			GetNamespace() string
			GetName() string
			GetResourceVersion() string
		}
		o, ok := x.(metaObj)
		if !ok {
			continue
		}
		n := o.GetName()
		if ns := o.GetNamespace(); ns != "" {
			n = ns + "/" + n
		}
		out[n] = o.GetResourceVersion()
	}
	return out
}

func sameView(a, b map[string]string) bool {
	if len(a) != len(b) {
		return false
	}
	for k, v := range a {
		if b[k] != v {
			return false
		}
	}
	return true
}

// InformerSpec names a dynamic informer to wait for.
type InformerSpec struct {
	ResKey string
	Store  cache.Store
	Synced func() bool
}

// WaitCaches waits until every listed cache shows exactly what the server has
// delivered (barrier after Deliver / at scenario start).
func (w *World) WaitCaches(specs []InformerSpec, timeout time.Duration) error {
	var lastBad string
	ok := WaitFor(timeout, func() bool {
		for _, sp := range specs {
			if sp.Synced != nil && !sp.Synced() {
				lastBad = sp.ResKey + " not synced"
				return false
			}
			want := w.Srv.DeliveredView(sp.ResKey)
			got := indexerView(sp.Store)
			if !sameView(want, got) {
				lastBad = fmt.Sprintf("%s: want %v got %v", sp.ResKey, want, got)
				return false
			}
		}
		return true
	})
	if !ok {
		return fmt.Errorf("caches did not converge: %s", lastBad)
	}
	return nil
}

// Fingerprint returns a canonical hash-like string of the content of a cache
// (object key -> canonical JSON), for the C17 cache-immutability oracle.
func Fingerprint(ix cache.Store) map[string]string {
	out := map[string]string{}
	for _, x := range ix.List() {
		key, err := cache.MetaNamespaceKeyFunc(x)
		if err != nil {
			continue
		}
		out[key] = canon(x)
	}
	return out
}

// FingerprintDiff lists keys whose canonical JSON differs.
func FingerprintDiff(a, b map[string]string) []string {
	var d []string
	for k, v := range a {
		if w, ok := b[k]; !ok || w != v {
			d = append(d, k)
		}
	}
	for k := range b {
		if _, ok := a[k]; !ok {
			d = append(d, k)
		}
	}
	sort.Strings(d)
	return d
}
