package verifsim

// Additive extension of the scenario runner for the trigger properties (C14, C15):
//
//   - steps "ev" / "direct" / "relist" / "drain": one environment change is delivered to the
//     REAL event handlers (through the simulated watch -> reflector -> shared handler ->
//     the handlers Start() registered; or, for the two shapes a watch cannot produce on
//     demand, by calling the handler functions), the recording queue is drained and a
//     Queue event is written to the trace;
//   - a barrier that does not rely on sleeping: after the change a sentinel object of the
//     same resource is touched and the harness waits until its OWN handler subscription
//     ("tap") has been handed the sentinel's new version.  The shared handler fans every
//     notification out to all subscribed handlers before it takes the next one, so every
//     handler has finished with the earlier notifications by then.  Afterwards the
//     harness takes the shared handler's write lock once (RemoveEventHandlers on an
//     empty subscription), which waits for the fan-out of the sentinel itself;
//   - customize hook programmes that answer per parent name / generation, and the rules
//     the hook really returned, digested into the Hook event of the trace.
//
// Nothing here changes the behaviour of the existing steps.

import (
	"encoding/json"
	"fmt"
	"io"
	"strconv"
	"strings"
	"sync"

	"k8s.io/apimachinery/pkg/apis/meta/v1/unstructured"
	"k8s.io/client-go/tools/cache"

	dynamicinformer "metacontroller/pkg/dynamic/informer"
)

const SentinelName = "zz-sentinel"
const SentinelNS = "zz"

// ExtCtl is what the in-package adapters add for the trigger scenarios.
type ExtCtl interface {
	Ctl
	// TrigCfg reports the configuration of the REAL controller object:
	// {kind, pkind, pav, pNs, genSel, ignoreStatus, fin, csel, casel, childKinds}
	TrigCfg() Obj
	// ParseKey parses a queue key with the controller's own parser:
	// {key, ok, ns, name, av, kind}; when it does not parse, ns/name are a best guess
	ParseKey(key string) Obj
	// Direct calls the handler function the controller registered for that role
	// (role: parent|child; typ: tombstone|resync).
	Direct(role, typ string, obj *unstructured.Unstructured) error
	// ParentSel digests .spec.selector of a parent ({"ml":..,"me":..}).
	ParentSel(parent Obj) Obj
}

// ---------------------------------------------------------------------------------
// server helpers

// RelistGap simulates a watch gap for one resource: its watch streams end, the next WATCH
// is answered 410 Gone (so the reflector must re-list), and everything that happened to
// the resource so far becomes visible to that LIST -- without any of it having been
// delivered as a watch event.
func (s *Server) RelistGap(resKey string) {
	s.mu.Lock()
	var ws []*watcher
	for _, w := range s.watchers {
		if !w.closed && w.resKey == resKey {
			w.closed = true
			s.WatchCloses[w.resKey]++
			ws = append(ws, w)
		}
	}
	s.WatchFail410[resKey]++
	s.deliverTo[resKey] = len(s.history)
	s.mu.Unlock()
	for _, w := range ws {
		w.pw.CloseWithError(io.EOF)
		w.kick()
	}
}

// ---------------------------------------------------------------------------------
// tap: a harness-owned handler subscription on one resource

type TapEvent struct {
	Typ      string // add | update | delete | tombstone | resync
	Key      string // ns/name
	Old, Cur *unstructured.Unstructured
}

type Tap struct {
	ResKey string
	ri     *dynamicinformer.ResourceInformer
	fence  *dynamicinformer.ResourceInformer
	mu     sync.Mutex
	armed  bool
	evs    []TapEvent
	seen   map[string]int64 // key -> newest resourceVersion handed to the tap
	gone   map[string]bool
}

func objKey(o *unstructured.Unstructured) string {
	if ns := o.GetNamespace(); ns != "" {
		return ns + "/" + o.GetName()
	}
	return o.GetName()
}

func rvOf(o *unstructured.Unstructured) int64 {
	n, _ := strconv.ParseInt(o.GetResourceVersion(), 10, 64)
	return n
}

func (t *Tap) record(e TapEvent) {
	t.mu.Lock()
	defer t.mu.Unlock()
	o := e.Cur
	if o == nil {
		o = e.Old
	}
	if e.Typ == "delete" || e.Typ == "tombstone" {
		t.gone[e.Key] = true
	} else {
		delete(t.gone, e.Key)
		if rv := rvOf(o); rv > t.seen[e.Key] {
			t.seen[e.Key] = rv
		}
	}
	if !t.armed {
		return // add-time replay of the cache to the tap itself
	}
	t.evs = append(t.evs, e)
}

func newTap(w *World, resKey string) (*Tap, error) {
	rd, ok := w.Srv.ResByName(resKey)
	if !ok {
		return nil, fmt.Errorf("tap: unknown resource %s", resKey)
	}
	ri, err := w.DynInformers.Resource(rd.APIVersion(), rd.Resource)
	if err != nil {
		return nil, err
	}
	fence, err := w.DynInformers.Resource(rd.APIVersion(), rd.Resource)
	if err != nil {
		ri.Close()
		return nil, err
	}
	t := &Tap{ResKey: resKey, ri: ri, fence: fence, seen: map[string]int64{}, gone: map[string]bool{}}
	_, _ = ri.Informer().AddEventHandler(cache.ResourceEventHandlerFuncs{
		AddFunc: func(obj interface{}) {
			if o, ok := obj.(*unstructured.Unstructured); ok {
				t.record(TapEvent{Typ: "add", Key: objKey(o), Cur: o})
			}
		},
		UpdateFunc: func(old, cur interface{}) {
			o, ok1 := old.(*unstructured.Unstructured)
			c, ok2 := cur.(*unstructured.Unstructured)
			if !ok1 || !ok2 {
				return
			}
			typ := "update"
			if o.GetResourceVersion() == c.GetResourceVersion() {
				typ = "resync"
			}
			t.record(TapEvent{Typ: typ, Key: objKey(c), Old: o, Cur: c})
		},
		DeleteFunc: func(obj interface{}) {
			if o, ok := obj.(*unstructured.Unstructured); ok {
				t.record(TapEvent{Typ: "delete", Key: objKey(o), Old: o})
				return
			}
			if ts, ok := obj.(cache.DeletedFinalStateUnknown); ok {
				if o, ok := ts.Obj.(*unstructured.Unstructured); ok {
					t.record(TapEvent{Typ: "tombstone", Key: ts.Key, Old: o})
				}
			}
		},
	})
	t.mu.Lock()
	t.armed = true
	t.mu.Unlock()
	return t, nil
}

func (t *Tap) Close() {
	t.ri.Informer().RemoveEventHandlers()
	t.ri.Close()
	t.fence.Close()
}

func (t *Tap) Store() cache.Store { return t.ri.Informer().GetStore() }

func (t *Tap) take() []TapEvent {
	t.mu.Lock()
	defer t.mu.Unlock()
	e := t.evs
	t.evs = nil
	return e
}

func (t *Tap) seenRV(key string) int64 {
	t.mu.Lock()
	defer t.mu.Unlock()
	return t.seen[key]
}

func (t *Tap) isGone(key string) bool {
	t.mu.Lock()
	defer t.mu.Unlock()
	return t.gone[key]
}

// lockFence waits until the shared handler is not in the middle of a fan-out.
func (t *Tap) lockFence() { t.fence.Informer().RemoveEventHandlers() }

// ---------------------------------------------------------------------------------
// the extended run

type extState struct {
	r    *Runner
	as   *actorState
	ctl  ExtCtl
	taps map[string]*Tap
	tc   Obj
}

func sentinelKey(rd ResourceDef) (ns, key string) {
	if rd.Namespaced {
		return SentinelNS, SentinelNS + "/" + SentinelName
	}
	return "", SentinelName
}

// objects named zz-... belong to the harness (sentinels, objects sacrificed to open a watch gap)
func isSentinelKey(key string) bool { return strings.Contains(key, "zz-") }

// RunExt executes one scenario like Run, with the additional step kinds.  Scenarios must
// seed a sentinel object (name zz-sentinel, namespace zz) for every tapped resource:
// cfg.taps lists them (short resource names); parent and child resources are added.
func (r *Runner) RunExt(sc *Scenario) (err error) {
	r.installErrHandler()
	r.sc = sc
	r.Trace.SetScenario(sc.ID)
	r.srv = NewServer(DefaultResources(), r.Trace)
	r.actors = map[string]*actorState{}
	r.order = nil
	r.hookFl = map[string][]int{}
	hooks := InstallHooks()
	hooks.Set(r.hookHandlerExt)
	if r.OnCrash != nil {
		r.OnCrash()
	}
	for _, o := range sc.Objs {
		resKey, obj := r.srv.BuildObject(AsMap(o))
		if _, code := r.srv.Seed(resKey, obj); code != 201 {
			return fmt.Errorf("seed %s %v: code %d", resKey, obj["metadata"], code)
		}
	}
	r.Trace.Emit(Obj{"ev": "Reset", "cfg": sc.Cfg, "objs": r.srv.Dump(), "fam": sc.Fam, "expect": sc.Expect})
	r.srv.Hold()
	var x *extState
	defer func() {
		if x != nil {
			for _, t := range x.taps {
				t.Close()
			}
		}
		r.teardown()
	}()
	if err := r.startActor("A", 1); err != nil {
		return err
	}
	as := r.actors["A"]
	ctl, ok := as.ctl.(ExtCtl)
	if !ok {
		return fmt.Errorf("controller adapter does not implement ExtCtl")
	}
	x = &extState{r: r, as: as, ctl: ctl, taps: map[string]*Tap{}}
	x.tc = ctl.TrigCfg()
	rk := []interface{}{}
	for _, k := range AsList(sc.Cfg["relKinds"]) { // kinds for which a related informer will exist
		rk = append(rk, AsStr(k))
	}
	x.tc["relKinds"] = rk
	want := map[string]bool{}
	for _, sp := range ctl.Stores() {
		if sp.ResKey != "controllerrevisions.metacontroller.k8s.io" {
			want[sp.ResKey] = true
		}
	}
	for _, t := range AsList(sc.Cfg["taps"]) {
		want[ResKeyOf(AsStr(t))] = true
	}
	for resKey := range want {
		rd, _ := r.srv.ResByName(resKey)
		ns, _ := sentinelKey(rd)
		if r.srv.Get(resKey, ns, SentinelName) == nil {
			return fmt.Errorf("scenario %s seeds no sentinel for %s", sc.ID, resKey)
		}
		t, err := newTap(as.world, resKey)
		if err != nil {
			return err
		}
		x.taps[resKey] = t
	}
	// the notifications of the initial LISTs may still be on their way to the handlers
	if err := x.stepDrain(); err != nil {
		return err
	}
	r.Trace.Emit(Obj{"ev": "TrigCfg", "a": as.name, "tc": x.tc})
	for _, st := range sc.Sched {
		sm := AsMap(st)
		var e error
		switch AsStr(sm["s"]) {
		case "ev":
			e = x.stepEv(sm)
		case "direct":
			e = x.stepDirect(sm)
		case "relist":
			e = x.stepRelist(sm)
		case "drain":
			e = x.stepDrain()
		case "deliver":
			if e = r.step(sm); e == nil {
				e = x.waitTaps()
			}
		default:
			e = r.step(sm)
		}
		if e != nil {
			return fmt.Errorf("scenario %s step %v: %w", sc.ID, st, e)
		}
	}
	for _, a := range r.order {
		if err := r.finish(r.actors[a]); err != nil {
			return err
		}
	}
	r.Trace.Emit(Obj{"ev": "End", "objs": r.srv.Dump()})
	return nil
}

// waitTaps waits until every tapped cache shows what the server has delivered.
func (x *extState) waitTaps() error {
	var specs []InformerSpec
	for k, t := range x.taps {
		specs = append(specs, InformerSpec{ResKey: k, Store: t.Store(), Synced: t.ri.Informer().HasSynced})
	}
	return x.as.world.WaitCaches(specs, x.r.timeout())
}

// barrier: every handler of the resource has finished with everything the server recorded
// before this call.
func (x *extState) barrier(resKey string) error {
	t := x.taps[resKey]
	if t == nil {
		return fmt.Errorf("no tap for %s", resKey)
	}
	rd, _ := x.r.srv.ResByName(resKey)
	ns, key := sentinelKey(rd)
	if code := x.r.srv.Env(EnvOp{Op: "touch", ResKey: resKey, NS: ns, Name: SentinelName}); code != 200 {
		return fmt.Errorf("touch sentinel of %s: code %d", resKey, code)
	}
	cur := x.r.srv.Get(resKey, ns, SentinelName)
	rv, _ := strconv.ParseInt(metaStr(cur, "resourceVersion"), 10, 64)
	x.r.srv.Deliver()
	if !WaitFor(x.r.timeout(), func() bool { return t.seenRV(key) >= rv }) {
		return fmt.Errorf("barrier on %s: the sentinel's version %d never reached the tap (saw %d)", resKey, rv, t.seenRV(key))
	}
	t.lockFence()
	// the listers of the controller and the taps agree with the server again
	if err := x.as.world.WaitCaches(x.ctl.Stores(), x.r.timeout()); err != nil {
		return err
	}
	return x.waitTaps()
}

func projU(o *unstructured.Unstructured) Obj {
	if o == nil {
		return Absent()
	}
	return Project(toObj(o))
}

// parentsDump lists the parents in the controller's cache (without the sentinel).
func (x *extState) parentsDump() []interface{} {
	var items []Obj
	for _, p := range x.ctl.ParentStore().List() {
		o := toObj(p)
		if isSentinelKey(metaStr(o, "name")) {
			continue
		}
		items = append(items, o)
	}
	SortObjs(items)
	out := []interface{}{}
	for _, o := range items {
		pr := Project(o)
		pr["sel"] = x.ctl.ParentSel(o)
		out = append(out, pr)
	}
	return out
}

func (x *extState) withSel(pr Obj, o *unstructured.Unstructured) Obj {
	if o != nil && o.GetKind() == AsStr(x.tc["pkind"]) {
		pr["sel"] = x.ctl.ParentSel(toObj(o))
	} else {
		pr["sel"] = SelectorInfo(nil)
	}
	return pr
}

// emitQueue drains the recording queue and writes the Queue event.
func (x *extState) emitQueue(via, res string, evs []TapEvent) {
	keys := []interface{}{}
	parsed := []interface{}{}
	for _, k := range x.ctl.Queue().TakeAdds() {
		if isSentinelKey(k) {
			continue
		}
		keys = append(keys, k)
		parsed = append(parsed, x.ctl.ParseKey(k))
	}
	el := []interface{}{}
	for _, e := range evs {
		if isSentinelKey(e.Key) {
			continue
		}
		el = append(el, Obj{"type": e.Typ, "old": x.withSel(projU(e.Old), e.Old), "new": x.withSel(projU(e.Cur), e.Cur)})
	}
	x.r.Trace.Emit(Obj{"ev": "Queue", "a": x.as.name, "via": via, "res": res, "evs": el,
		"parents": x.parentsDump(), "keys": keys, "parsed": parsed})
}

// stepEv: one environment change, delivered through the watch.
func (x *extState) stepEv(st Obj) error {
	resKey := ResKeyOf(AsStr(st["res"]))
	t := x.taps[resKey]
	if t == nil {
		return fmt.Errorf("ev: no tap for %s", resKey)
	}
	t.take()
	env := Obj{}
	for k, v := range st {
		env[k] = v
	}
	env["s"] = "env"
	if err := x.r.step(env); err != nil {
		return err
	}
	if err := x.barrier(resKey); err != nil {
		return err
	}
	x.emitQueue("watch", AsStr(st["res"]), t.take())
	return nil
}

// stepDrain: settle every tapped resource and forget what has been queued so far.
func (x *extState) stepDrain() error {
	x.r.srv.Deliver()
	for k := range x.taps {
		if err := x.barrier(k); err != nil {
			return err
		}
	}
	for _, t := range x.taps {
		t.take()
	}
	x.ctl.Queue().TakeAdds()
	return nil
}

// stepDirect: a shape the watch cannot produce on demand, handed to the handler function.
func (x *extState) stepDirect(st Obj) error {
	resKey := ResKeyOf(AsStr(st["res"]))
	t := x.taps[resKey]
	if t == nil {
		return fmt.Errorf("direct: no tap for %s", resKey)
	}
	rd, _ := x.r.srv.ResByName(resKey)
	key := AsStr(st["name"])
	if rd.Namespaced {
		ns := AsStr(st["ns"])
		if ns == "" {
			ns = "ns1"
		}
		key = ns + "/" + key
	}
	item, ok, _ := t.Store().GetByKey(key)
	if !ok {
		// nothing cached under that name: nothing to replay
		x.r.Trace.Emit(Obj{"ev": "Queue", "a": x.as.name, "via": "direct", "res": AsStr(st["res"]), "evs": []interface{}{},
			"parents": x.parentsDump(), "keys": []interface{}{}, "parsed": []interface{}{}})
		return nil
	}
	o := item.(*unstructured.Unstructured)
	typ := AsStr(st["type"])
	if err := x.ctl.Direct(AsStr(st["role"]), typ, o); err != nil {
		return err
	}
	ev := TapEvent{Typ: typ, Key: key, Old: o, Cur: o}
	if typ == "tombstone" {
		ev.Cur = nil
	}
	x.emitQueue("direct", AsStr(st["res"]), []TapEvent{ev})
	return nil
}

// stepRelist: the object is deleted while the watch is down; the relist reports it as a
// real cache.DeletedFinalStateUnknown.
func (x *extState) stepRelist(st Obj) error {
	resKey := ResKeyOf(AsStr(st["res"]))
	t := x.taps[resKey]
	if t == nil {
		return fmt.Errorf("relist: no tap for %s", resKey)
	}
	rd, _ := x.r.srv.ResByName(resKey)
	key := AsStr(st["name"])
	ns := ""
	if rd.Namespaced {
		ns = AsStr(st["ns"])
		if ns == "" {
			ns = "ns1"
		}
		key = ns + "/" + key
	}
	// the current watch must have carried at least one event, else the reflector treats its
	// end as a "very short watch" and does not ask for a new one (which is what gets the 410)
	if err := x.barrier(resKey); err != nil {
		return err
	}
	t.take()
	x.ctl.Queue().TakeAdds()
	code := x.r.srv.Env(EnvOp{Op: "delete", ResKey: resKey, NS: ns, Name: AsStr(st["name"])})
	if code != 200 {
		// nothing to delete: an empty observation
		x.emitQueue("relist", AsStr(st["res"]), nil)
		return nil
	}
	if x.r.srv.Get(resKey, ns, AsStr(st["name"])) != nil {
		return fmt.Errorf("relist: %s still exists after delete (finalizers?)", key)
	}
	x.r.srv.RelistGap(resKey)
	if !WaitFor(x.r.timeout(), func() bool { return t.isGone(key) }) {
		return fmt.Errorf("relist: the deletion of %s never reached the tap", key)
	}
	if err := x.barrier(resKey); err != nil {
		return err
	}
	x.emitQueue("relist", AsStr(st["res"]), t.take())
	return nil
}

// ---------------------------------------------------------------------------------
// hook handler: as Runner.hookHandler, plus customize programmes per parent name /
// generation and the digest of the rules that were really returned

func (r *Runner) customizeProg(prog Obj, req Obj) Obj {
	parent := AsMap(req["parent"])
	name := metaStr(parent, "name")
	gen := ""
	if g, ok := toInt64(AsMap(parent["metadata"])["generation"]); ok {
		gen = strconv.FormatInt(g, 10)
	}
	out := Obj{"prog": "const", "related": prog["related"]}
	if bn, ok := prog["byName"]; ok {
		if rr, ok := AsMap(bn)[name]; ok {
			out["related"] = rr
		} else {
			out["related"] = []interface{}{}
		}
	}
	if bg, ok := prog["byGen"]; ok {
		if rr, ok := AsMap(bg)[gen]; ok {
			out["related"] = rr
		}
	}
	if _, ok := out["related"]; !ok || out["related"] == nil {
		out["related"] = []interface{}{}
	}
	return out
}

// digestRules turns the relatedResources of a customize response body into the rule
// records of spec/Customize.tla.
func (r *Runner) digestRules(body []byte) (rules []interface{}, ok bool) {
	rules = []interface{}{}
	var resp Obj
	if json.Unmarshal(body, &resp) != nil || resp == nil {
		return rules, false
	}
	for _, x := range AsList(resp["relatedResources"]) {
		m, isMap := x.(map[string]interface{})
		if !isMap {
			continue // null entries are ignored by the controller
		}
		av, res := AsStr(m["apiVersion"]), AsStr(m["resource"])
		group := ""
		if i := strings.Index(av, "/"); i >= 0 {
			group = av[:i]
		}
		kind := ""
		if rd, found := r.srv.ResByName(res + "." + group); found && rd.APIVersion() == av {
			kind = rd.Kind
		}
		ls, has := m["labelSelector"]
		hasSel := has && ls != nil
		names := []interface{}{}
		for _, n := range AsList(m["names"]) {
			names = append(names, AsStr(n))
		}
		rules = append(rules, Obj{"av": av, "res": res, "kind": kind, "hasSel": hasSel, "sel": SelectorInfo(AsMap(ls)),
			"ns": AsStr(m["namespace"]), "names": names})
	}
	return rules, true
}

func (r *Runner) hookHandlerExt(c *HookCall) HookReply {
	parts := strings.Split(strings.Trim(c.Path, "/"), "/")
	actor, hook := "", ""
	if len(parts) >= 2 {
		actor, hook = parts[0], parts[1]
	}
	if r.srv.IsDead(actor) {
		return HookReply{Status: 0}
	}
	if hook != "customize" {
		if as := r.actors[strings.SplitN(actor, ".", 2)[0]]; as != nil {
			hookedMu.Lock()
			as.hooked = true
			hookedMu.Unlock()
		}
	}
	r.hookMu.Lock()
	fault := -1
	if fl := r.hookFl[hook]; len(fl) > 0 {
		fault = fl[0]
		r.hookFl[hook] = fl[1:]
	}
	r.hookMu.Unlock()
	var reply HookReply
	if fault >= 0 {
		reply = HookReply{Status: fault, Body: []byte(`{"injected":true}`)}
		if fault == 429 {
			reply.Header = map[string]string{"Retry-After": "7"}
		}
	} else {
		prog := AsMap(r.sc.Hook[hook])
		if p, ok := r.sc.Hook[strings.SplitN(actor, ".", 2)[0]+"."+hook]; ok {
			prog = AsMap(p)
		}
		if hook == "customize" && AsStr(prog["prog"]) == "rules" {
			prog = r.customizeProg(prog, c.Req)
		}
		reply = r.srv.RunHookProg(prog, c.Req)
	}
	ev := Obj{"ev": "Hook", "a": actor, "hook": hook, "code": reply.Status, "req": ProjectHookRequest(c.Req),
		"resp": ProjectHookResponse(reply.Body), "inm": c.Header.Get("If-None-Match")}
	if hook == "customize" {
		ev["req"] = Obj{"finalizing": false, "parent": Project(AsMap(c.Req["parent"])), "children": Obj{}, "related": Obj{}, "kindOfReq": "customize"}
		rules, ok := r.digestRules(reply.Body)
		ev["rules"] = rules
		ev["rulesOK"] = ok && reply.Status == 200
	}
	r.Trace.Emit(ev)
	return reply
}
