// Package verifsim is the verification harness' in-process Kubernetes API server
// simulator.  It is injected into /repo with `go test -overlay` and never committed
// there.  The server is an http.RoundTripper: the real client-go stacks (dynamic
// client, typed clientset, discovery, reflectors) talk REST to it without any socket.
//
// Semantics implemented = environment axioms E1..E8 of /verif/DESIGN.md §4.3 and
// /verif/spec/K8s.tla.  Every mutating request is applied under one mutex (its
// linearization point) and recorded with pre/post state in the trace.
package verifsim

import (
	"bytes"
	"encoding/json"
	"fmt"
	"io"
	"net/http"
	"sort"
	"strconv"
	"strings"
	"sync"
)

// ResourceDef describes one API resource served by the simulator.
type ResourceDef struct {
	Group, Version, Resource, Kind string
	Namespaced                     bool
	StatusSub                      bool // has the status subresource
	HasGen                         bool // maintains metadata.generation
}

func (r ResourceDef) APIVersion() string {
	if r.Group == "" {
		return r.Version
	}
	return r.Group + "/" + r.Version
}
func (r ResourceDef) ResKey() string { return r.Resource + "." + r.Group }

// DefaultResources is the fixed concretisation used by all sync-level scenarios.
func DefaultResources() []ResourceDef {
	return []ResourceDef{
		{"", "v1", "configmaps", "ConfigMap", true, false, false},
		{"verif.example", "v1", "things", "Thing", true, true, true},
		{"verif.example", "v1", "cthings", "CThing", false, true, true},
		{"verif.example", "v1", "parents", "Parent", true, true, true},
		{"verif.example", "v1", "cparents", "CParent", false, true, true},
		{"verif.example", "v1", "nostatus", "NoStatus", true, false, true},
		{"metacontroller.k8s.io", "v1alpha1", "controllerrevisions", "ControllerRevision", true, false, true},
		{"metacontroller.k8s.io", "v1alpha1", "compositecontrollers", "CompositeController", false, true, true},
		{"metacontroller.k8s.io", "v1alpha1", "decoratorcontrollers", "DecoratorController", false, true, true},
	}
}

type Obj = map[string]interface{}

type histEvent struct {
	resKey string
	typ    string // ADDED MODIFIED DELETED
	obj    Obj
	rv     int64
}

type watcher struct {
	resKey string
	ns     string
	pw     *io.PipeWriter
	cursor int // index into history of next event to consider
	closed bool
	wake   chan struct{}
}

// Server is the simulated API server.
type Server struct {
	mu      sync.Mutex
	cond    *sync.Cond
	res     map[string]ResourceDef // by ResKey
	resList []ResourceDef
	store   map[string]Obj                 // storeKey -> object
	managed map[string]map[string][]string // storeKey -> manager -> leaf paths (SSA)
	rv      int64
	uidCtr  int

	hidden    map[string]bool // resKey -> not (yet) served by discovery
	history   []histEvent
	hold      bool           // when true watch events are delivered only up to deliverUpTo
	deliverTo map[string]int // resKey -> history index bound (exclusive) while hold
	watchers  []*watcher
	// statistics visible to tests (C18/C20)
	ListCalls    map[string]int
	WatchOpens   map[string]int
	WatchCloses  map[string]int
	WatchFail410 map[string]int // next N watch requests for resKey are answered 410 Gone

	gate   *Gate
	Trace  *Trace
	faults map[string][]Fault // actor -> queue of faults for its next gated requests
	// Strict404NoNs: POST/PUT/DELETE on a namespaced resource without namespace -> 405
}

type Fault struct {
	Code   int    // HTTP status to answer with; 0 = transport error (timeout)
	Skip   int    // let this many matching gated requests pass first
	Verb   string // optional matchers: only requests with this verb / resource / object name count
	ResKey string
	Name   string
}

func NewServer(res []ResourceDef, tr *Trace) *Server {
	s := &Server{
		res:          map[string]ResourceDef{},
		resList:      res,
		store:        map[string]Obj{},
		managed:      map[string]map[string][]string{},
		rv:           100,
		deliverTo:    map[string]int{},
		ListCalls:    map[string]int{},
		WatchOpens:   map[string]int{},
		WatchCloses:  map[string]int{},
		WatchFail410: map[string]int{},
		faults:       map[string][]Fault{},
		Trace:        tr,
	}
	s.cond = sync.NewCond(&s.mu)
	for _, r := range res {
		s.res[r.ResKey()] = r
	}
	s.gate = newGate()
	return s
}

func storeKey(resKey, ns, name string) string { return resKey + "|" + ns + "|" + name }

func (s *Server) ResByKind(apiVersion, kind string) (ResourceDef, bool) {
	for _, r := range s.resList {
		if r.APIVersion() == apiVersion && r.Kind == kind {
			return r, true
		}
	}
	return ResourceDef{}, false
}
func (s *Server) ResByName(resKey string) (ResourceDef, bool) {
	r, ok := s.res[resKey]
	return r, ok
}

// ---------------------------------------------------------------------------------
// helpers on unstructured JSON objects

func deepCopy(v interface{}) interface{} {
	switch t := v.(type) {
	case map[string]interface{}:
		m := make(map[string]interface{}, len(t))
		for k, x := range t {
			m[k] = deepCopy(x)
		}
		return m
	case []interface{}:
		l := make([]interface{}, len(t))
		for i, x := range t {
			l[i] = deepCopy(x)
		}
		return l
	default:
		return v
	}
}
func CopyObj(o Obj) Obj {
	if o == nil {
		return nil
	}
	return deepCopy(o).(Obj)
}

func meta(o Obj) Obj {
	m, _ := o["metadata"].(map[string]interface{})
	if m == nil {
		m = Obj{}
		o["metadata"] = m
	}
	return m
}
func metaStr(o Obj, k string) string {
	m, _ := o["metadata"].(map[string]interface{})
	if m == nil {
		return ""
	}
	v, _ := m[k].(string)
	return v
}
func finalizers(o Obj) []string {
	m, _ := o["metadata"].(map[string]interface{})
	if m == nil {
		return nil
	}
	l, _ := m["finalizers"].([]interface{})
	var out []string
	for _, x := range l {
		if sx, ok := x.(string); ok {
			out = append(out, sx)
		}
	}
	return out
}
func setFinalizers(o Obj, f []string) {
	m := meta(o)
	if len(f) == 0 {
		delete(m, "finalizers")
		return
	}
	l := make([]interface{}, len(f))
	for i, x := range f {
		l[i] = x
	}
	m["finalizers"] = l
}
func ctrlCount(o Obj) int {
	m, _ := o["metadata"].(map[string]interface{})
	if m == nil {
		return 0
	}
	l, _ := m["ownerReferences"].([]interface{})
	n := 0
	for _, x := range l {
		if r, ok := x.(map[string]interface{}); ok {
			if b, _ := r["controller"].(bool); b {
				n++
			}
		}
	}
	return n
}
func canon(v interface{}) string {
	b, _ := json.Marshal(v) // encoding/json sorts map keys
	return string(b)
}

// specPart returns everything except metadata and status (what drives generation).
func specPart(o Obj) Obj {
	out := Obj{}
	for k, v := range o {
		if k == "metadata" || k == "status" {
			continue
		}
		out[k] = v
	}
	return out
}

// ---------------------------------------------------------------------------------
// status / error bodies

func statusBody(code int, reason, msg string) []byte {
	b, _ := json.Marshal(Obj{
		"kind": "Status", "apiVersion": "v1", "metadata": Obj{},
		"status": "Failure", "message": msg, "reason": reason, "code": code,
	})
	return b
}

func reasonFor(code int) string {
	switch code {
	case 400:
		return "BadRequest"
	case 404:
		return "NotFound"
	case 405:
		return "MethodNotAllowed"
	case 409:
		return "Conflict"
	case 410:
		return "Gone"
	case 422:
		return "Invalid"
	case 429:
		return "TooManyRequests"
	case 500:
		return "InternalError"
	case 503:
		return "ServiceUnavailable"
	case 504:
		return "Timeout"
	}
	return "Unknown"
}

func jsonResp(req *http.Request, code int, body []byte) *http.Response {
	return &http.Response{
		StatusCode: code, Status: strconv.Itoa(code) + " " + http.StatusText(code),
		Proto: "HTTP/1.1", ProtoMajor: 1, ProtoMinor: 1,
		Header:        http.Header{"Content-Type": []string{"application/json"}},
		Body:          io.NopCloser(bytes.NewReader(body)),
		ContentLength: int64(len(body)), Request: req,
	}
}

// ---------------------------------------------------------------------------------
// request parsing

type parsedReq struct {
	discovery bool
	group     string
	version   string
	resource  string
	ns        string
	name      string
	sub       string
	watch     bool
}

func parsePath(p string) (pr parsedReq, ok bool) {
	parts := strings.Split(strings.Trim(p, "/"), "/")
	var rest []string
	switch {
	case len(parts) >= 2 && parts[0] == "api":
		pr.group, pr.version, rest = "", parts[1], parts[2:]
	case len(parts) >= 3 && parts[0] == "apis":
		pr.group, pr.version, rest = parts[1], parts[2], parts[3:]
	default:
		pr.discovery = true
		return pr, true
	}
	if len(rest) == 0 {
		pr.discovery = true
		return pr, true
	}
	if rest[0] == "namespaces" && len(rest) >= 3 {
		pr.ns = rest[1]
		rest = rest[2:]
	}
	pr.resource = rest[0]
	if len(rest) >= 2 {
		pr.name = rest[1]
	}
	if len(rest) >= 3 {
		pr.sub = rest[2]
	}
	return pr, true
}

// RoundTrip implements http.RoundTripper.
func (s *Server) RoundTrip(req *http.Request) (*http.Response, error) {
	pr, _ := parsePath(req.URL.Path)
	if pr.discovery {
		return s.serveDiscovery(req)
	}
	rd, ok := s.res[pr.resource+"."+pr.group]
	if !ok || rd.Version != pr.version {
		return jsonResp(req, 404, statusBody(404, "NotFound", "the server could not find the requested resource")), nil
	}
	q := req.URL.Query()
	actor := req.Header.Get("User-Agent")
	if req.Method == "GET" && pr.name == "" {
		if q.Get("watch") == "true" || q.Get("watch") == "1" {
			return s.serveWatch(req, rd, pr, q.Get("resourceVersion"))
		}
		return s.serveList(req, rd, pr)
	}
	var body []byte
	if req.Body != nil {
		body, _ = io.ReadAll(req.Body)
		req.Body.Close()
	}
	// gated, traced request from the code under test
	return s.serveGated(req, actor, rd, pr, body)
}

// Hide / Reveal: a resource that discovery does not serve (yet): the API group exists, the resource is not listed.
func (s *Server) Hide(resKey string) {
	s.mu.Lock()
	defer s.mu.Unlock()
	if s.hidden == nil {
		s.hidden = map[string]bool{}
	}
	s.hidden[resKey] = true
}

func (s *Server) Reveal(resKey string) {
	s.mu.Lock()
	defer s.mu.Unlock()
	delete(s.hidden, resKey)
}

func (s *Server) serveDiscovery(req *http.Request) (*http.Response, error) {
	p := strings.Trim(req.URL.Path, "/")
	groups := map[string][]ResourceDef{}
	var order []string
	s.mu.Lock()
	hidden := map[string]bool{}
	for k, v := range s.hidden {
		hidden[k] = v
	}
	s.mu.Unlock()
	for _, r := range s.resList {
		if hidden[r.ResKey()] {
			continue
		}
		gv := r.APIVersion()
		if _, ok := groups[gv]; !ok {
			order = append(order, gv)
		}
		groups[gv] = append(groups[gv], r)
	}
	switch {
	case p == "api":
		return jsonResp(req, 200, []byte(`{"kind":"APIVersions","versions":["v1"]}`)), nil
	case p == "apis":
		var gl []interface{}
		for _, gv := range order {
			if !strings.Contains(gv, "/") {
				continue
			}
			g := strings.SplitN(gv, "/", 2)
			ver := Obj{"groupVersion": gv, "version": g[1]}
			gl = append(gl, Obj{"name": g[0], "versions": []interface{}{ver}, "preferredVersion": ver})
		}
		b, _ := json.Marshal(Obj{"kind": "APIGroupList", "apiVersion": "v1", "groups": gl})
		return jsonResp(req, 200, b), nil
	}
	var gv string
	if strings.HasPrefix(p, "api/") {
		gv = strings.TrimPrefix(p, "api/")
	} else if strings.HasPrefix(p, "apis/") {
		gv = strings.TrimPrefix(p, "apis/")
	}
	rs, ok := groups[gv]
	if !ok {
		return jsonResp(req, 404, statusBody(404, "NotFound", "no such group version")), nil
	}
	var list []interface{}
	verbs := []interface{}{"create", "delete", "get", "list", "patch", "update", "watch"}
	for _, r := range rs {
		list = append(list, Obj{"name": r.Resource, "singularName": "", "namespaced": r.Namespaced, "kind": r.Kind, "verbs": verbs})
		if r.StatusSub {
			list = append(list, Obj{"name": r.Resource + "/status", "singularName": "", "namespaced": r.Namespaced, "kind": r.Kind, "verbs": []interface{}{"get", "patch", "update"}})
		}
	}
	b, _ := json.Marshal(Obj{"kind": "APIResourceList", "apiVersion": "v1", "groupVersion": gv, "resources": list})
	return jsonResp(req, 200, b), nil
}

// ---------------------------------------------------------------------------------
// LIST / WATCH (ungated; used by reflectors only)

func (s *Server) serveList(req *http.Request, rd ResourceDef, pr parsedReq) (*http.Response, error) {
	s.mu.Lock()
	defer s.mu.Unlock()
	s.ListCalls[rd.ResKey()]++
	// A LIST reflects the store as of the delivery bound when deliveries are held,
	// otherwise the caches could see "the future".  We reconstruct that view.
	view, rv := s.viewLocked(rd.ResKey())
	keys := make([]string, 0, len(view))
	for k := range view {
		keys = append(keys, k)
	}
	sort.Strings(keys)
	items := []interface{}{}
	for _, k := range keys {
		o := view[k]
		if pr.ns != "" && metaStr(o, "namespace") != pr.ns {
			continue
		}
		items = append(items, o)
	}
	b, _ := json.Marshal(Obj{
		"apiVersion": rd.APIVersion(), "kind": rd.Kind + "List",
		"metadata": Obj{"resourceVersion": strconv.FormatInt(rv, 10)},
		"items":    items,
	})
	return jsonResp(req, 200, b), nil
}

// viewLocked returns the objects of a resource as visible to watchers/listers: the
// live store when not holding, otherwise the state after history[:deliverTo].
func (s *Server) viewLocked(resKey string) (map[string]Obj, int64) {
	view := map[string]Obj{}
	if !s.hold {
		for k, o := range s.store {
			if strings.HasPrefix(k, resKey+"|") {
				view[k] = o
			}
		}
		return view, s.rv
	}
	bound := s.deliverTo[resKey]
	var rv int64 = 100
	for i := 0; i < bound && i < len(s.history); i++ {
		ev := s.history[i]
		if ev.rv > rv {
			rv = ev.rv
		}
		if ev.resKey != resKey {
			continue
		}
		k := storeKey(resKey, metaStr(ev.obj, "namespace"), metaStr(ev.obj, "name"))
		if ev.typ == "DELETED" {
			delete(view, k)
		} else {
			view[k] = ev.obj
		}
	}
	return view, rv
}

// DeliveredView returns name -> resourceVersion of what caches ought to show.
func (s *Server) DeliveredView(resKey string) map[string]string {
	s.mu.Lock()
	defer s.mu.Unlock()
	view, _ := s.viewLocked(resKey)
	out := map[string]string{}
	for _, o := range view {
		ns := metaStr(o, "namespace")
		n := metaStr(o, "name")
		if ns != "" {
			n = ns + "/" + n
		}
		out[n] = metaStr(o, "resourceVersion")
	}
	return out
}

func (s *Server) serveWatch(req *http.Request, rd ResourceDef, pr parsedReq, fromRV string) (*http.Response, error) {
	s.mu.Lock()
	if n := s.WatchFail410[rd.ResKey()]; n > 0 {
		s.WatchFail410[rd.ResKey()] = n - 1
		s.mu.Unlock()
		return jsonResp(req, 410, statusBody(410, "Expired", "too old resource version")), nil
	}
	s.WatchOpens[rd.ResKey()]++
	from, _ := strconv.ParseInt(fromRV, 10, 64)
	prd, pw := io.Pipe()
	w := &watcher{resKey: rd.ResKey(), ns: pr.ns, pw: pw, wake: make(chan struct{}, 1)}
	// position the cursor after all events with rv <= from
	w.cursor = len(s.history)
	for i, ev := range s.history {
		if ev.rv > from {
			w.cursor = i
			break
		}
	}
	s.watchers = append(s.watchers, w)
	s.mu.Unlock()
	go s.pump(w)
	w.kick()
	body := &watchBody{PipeReader: prd, onClose: func() {
		s.mu.Lock()
		if !w.closed {
			w.closed = true
			s.WatchCloses[w.resKey]++
		}
		s.mu.Unlock()
		w.kick()
		pw.Close()
	}}
	return &http.Response{
		StatusCode: 200, Status: "200 OK", Proto: "HTTP/1.1", ProtoMajor: 1, ProtoMinor: 1,
		Header: http.Header{"Content-Type": []string{"application/json"}, "Transfer-Encoding": []string{"chunked"}},
		Body:   body, ContentLength: -1, Request: req,
	}, nil
}

type watchBody struct {
	*io.PipeReader
	once    sync.Once
	onClose func()
}

func (b *watchBody) Close() error {
	b.once.Do(b.onClose)
	return b.PipeReader.Close()
}

func (w *watcher) kick() {
	select {
	case w.wake <- struct{}{}:
	default:
	}
}

func (s *Server) pump(w *watcher) {
	for range w.wake {
		for {
			s.mu.Lock()
			if w.closed {
				s.mu.Unlock()
				return
			}
			bound := len(s.history)
			if s.hold {
				bound = s.deliverTo[w.resKey]
			}
			var out []histEvent
			for w.cursor < bound {
				ev := s.history[w.cursor]
				w.cursor++
				if ev.resKey != w.resKey {
					continue
				}
				if w.ns != "" && metaStr(ev.obj, "namespace") != w.ns {
					continue
				}
				out = append(out, ev)
			}
			s.mu.Unlock()
			if len(out) == 0 {
				break
			}
			for _, ev := range out {
				b, _ := json.Marshal(Obj{"type": ev.typ, "object": ev.obj})
				b = append(b, '\n')
				if _, err := w.pw.Write(b); err != nil {
					s.mu.Lock()
					if !w.closed {
						w.closed = true
						s.WatchCloses[w.resKey]++
					}
					s.mu.Unlock()
					return
				}
			}
		}
	}
}

func (s *Server) kickAllLocked() {
	for _, w := range s.watchers {
		if !w.closed {
			w.kick()
		}
	}
}

// ActiveWatches returns the number of open WATCH streams per resource key.
func (s *Server) ActiveWatches() map[string]int {
	s.mu.Lock()
	defer s.mu.Unlock()
	out := map[string]int{}
	for _, w := range s.watchers {
		if !w.closed {
			out[w.resKey]++
		}
	}
	return out
}

// DropWatches closes every open watch stream of the resource (the reflector will
// re-list or re-watch; combine with WatchFail410 to force a relist).
func (s *Server) DropWatches(resKey string) {
	s.mu.Lock()
	var ws []*watcher
	for _, w := range s.watchers {
		if !w.closed && w.resKey == resKey {
			w.closed = true
			s.WatchCloses[w.resKey]++
			ws = append(ws, w)
		}
	}
	s.mu.Unlock()
	for _, w := range ws {
		w.pw.CloseWithError(io.EOF)
		w.kick()
	}
}

// Hold switches to held delivery: watchers see nothing new until Deliver is called.
func (s *Server) Hold() {
	s.mu.Lock()
	defer s.mu.Unlock()
	if !s.hold {
		s.hold = true
		for k := range s.res {
			s.deliverTo[k] = len(s.history)
		}
	}
}

// Deliver releases all pending watch events of the given resource keys (all if none).
func (s *Server) Deliver(resKeys ...string) {
	s.mu.Lock()
	defer s.mu.Unlock()
	if len(resKeys) == 0 {
		for k := range s.res {
			s.deliverTo[k] = len(s.history)
		}
	} else {
		for _, k := range resKeys {
			s.deliverTo[k] = len(s.history)
		}
	}
	s.kickAllLocked()
}

// Free switches back to immediate delivery.
func (s *Server) Free() {
	s.mu.Lock()
	defer s.mu.Unlock()
	s.hold = false
	s.kickAllLocked()
}

func (s *Server) recordLocked(resKey, typ string, o Obj) {
	s.history = append(s.history, histEvent{resKey: resKey, typ: typ, obj: CopyObj(o), rv: s.rv})
	if !s.hold {
		s.kickAllLocked()
	}
}

// ---------------------------------------------------------------------------------
// mutating core (called with s.mu held).  Each returns (code, responseObject, message).

// normMeta drops empty metadata collections: ObjectMeta is typed, so the API server round-trips it through
// omitempty fields and an empty ownerReferences / finalizers / labels / annotations never reaches storage.
func normMeta(o Obj) {
	m, _ := o["metadata"].(map[string]interface{})
	if m == nil {
		return
	}
	for _, k := range []string{"ownerReferences", "finalizers"} {
		if l, ok := m[k].([]interface{}); ok && len(l) == 0 {
			delete(m, k)
		} else if v, present := m[k]; present && v == nil {
			delete(m, k)
		}
	}
	for _, k := range []string{"labels", "annotations"} {
		if mm, ok := m[k].(map[string]interface{}); ok && len(mm) == 0 {
			delete(m, k)
		} else if v, present := m[k]; present && v == nil {
			delete(m, k)
		}
	}
}

func (s *Server) nextRV() string {
	s.rv++
	return strconv.FormatInt(s.rv, 10)
}

func (s *Server) createLocked(rd ResourceDef, ns string, body Obj) (int, Obj, string) {
	if rd.Namespaced && ns == "" {
		return 405, nil, "create of a namespaced resource needs a namespace"
	}
	if !rd.Namespaced {
		ns = ""
	}
	m := meta(body)
	name, _ := m["name"].(string)
	if name == "" {
		return 422, nil, "metadata.name: Required value"
	}
	if bns, _ := m["namespace"].(string); bns != "" && bns != ns {
		return 400, nil, "the namespace of the provided object does not match the namespace sent on the request"
	}
	if av, _ := body["apiVersion"].(string); av != "" && av != rd.APIVersion() {
		return 400, nil, "apiVersion mismatch"
	}
	if k, _ := body["kind"].(string); k != "" && k != rd.Kind {
		return 400, nil, "kind mismatch"
	}
	key := storeKey(rd.ResKey(), ns, name)
	if _, ok := s.store[key]; ok {
		return 409, nil, "AlreadyExists"
	}
	if ctrlCount(body) > 1 {
		return 422, nil, "metadata.ownerReferences: Only one reference can have Controller set to true"
	}
	o := CopyObj(body)
	normMeta(o)
	om := meta(o)
	o["apiVersion"] = rd.APIVersion()
	o["kind"] = rd.Kind
	if rd.Namespaced {
		om["namespace"] = ns
	} else {
		delete(om, "namespace")
	}
	s.uidCtr++
	if pre, _ := om["uid"].(string); pre == "" || !strings.HasPrefix(pre, "preset-") {
		om["uid"] = "u" + strconv.Itoa(s.uidCtr)
	} else {
		om["uid"] = strings.TrimPrefix(pre, "preset-")
	}
	om["resourceVersion"] = s.nextRV()
	om["creationTimestamp"] = "2026-01-01T00:00:00Z"
	delete(om, "deletionTimestamp")
	delete(om, "managedFields")
	if rd.HasGen {
		om["generation"] = int64(1)
	} else {
		delete(om, "generation")
	}
	if rd.StatusSub {
		delete(o, "status")
	}
	s.store[key] = o
	s.recordLocked(rd.ResKey(), "ADDED", o)
	return 201, CopyObj(o), ""
}

func sameStrings(a, b []string) bool {
	if len(a) != len(b) {
		return false
	}
	for i := range a {
		if a[i] != b[i] {
			return false
		}
	}
	return true
}

func (s *Server) updateLocked(rd ResourceDef, ns, name, sub string, body Obj) (int, Obj, string) {
	if rd.Namespaced && ns == "" {
		return 405, nil, "update of a namespaced resource needs a namespace"
	}
	if !rd.Namespaced {
		ns = ""
	}
	if sub != "" && !(sub == "status" && rd.StatusSub) {
		return 404, nil, "no such subresource"
	}
	key := storeKey(rd.ResKey(), ns, name)
	cur, ok := s.store[key]
	if !ok {
		return 404, nil, "not found"
	}
	bm := meta(body)
	if bn, _ := bm["name"].(string); bn != name {
		return 400, nil, "the name of the object does not match the name on the URL"
	}
	if bu, _ := bm["uid"].(string); bu != "" && bu != metaStr(cur, "uid") {
		return 409, nil, "Precondition failed: UID in precondition does not match UID in object meta"
	}
	if brv, _ := bm["resourceVersion"].(string); brv != "" && brv != metaStr(cur, "resourceVersion") {
		return 409, nil, "the object has been modified; please apply your changes to the latest version and try again"
	}
	cm := meta(cur)
	var o Obj
	if sub == "status" {
		o = CopyObj(cur)
		if st, ok := body["status"]; ok && st != nil {
			o["status"] = deepCopy(st)
		} else {
			delete(o, "status")
		}
	} else {
		if ctrlCount(body) > 1 {
			return 422, nil, "metadata.ownerReferences: Only one reference can have Controller set to true"
		}
		o = CopyObj(body)
		normMeta(o)
		om := meta(o)
		o["apiVersion"] = rd.APIVersion()
		o["kind"] = rd.Kind
		for _, f := range []string{"uid", "creationTimestamp", "deletionTimestamp", "deletionGracePeriodSeconds", "generation", "namespace", "selfLink"} {
			if v, ok := cm[f]; ok {
				om[f] = deepCopy(v)
			} else {
				delete(om, f)
			}
		}
		delete(om, "managedFields")
		if rd.StatusSub {
			if st, ok := cur["status"]; ok {
				o["status"] = deepCopy(st)
			} else {
				delete(o, "status")
			}
		}
		if _, deleting := cm["deletionTimestamp"]; deleting {
			// finalizers may only be removed while deleting
			old := map[string]bool{}
			for _, f := range finalizers(cur) {
				old[f] = true
			}
			for _, f := range finalizers(o) {
				if !old[f] {
					return 422, nil, "metadata.finalizers: Forbidden: no new finalizers can be added if the object is being deleted"
				}
			}
		}
		if rd.HasGen && canon(specPart(o)) != canon(specPart(cur)) {
			g, _ := toInt64(cm["generation"])
			om["generation"] = g + 1
		}
	}
	om := meta(o)
	om["resourceVersion"] = cm["resourceVersion"]
	if canon(o) == canon(cur) {
		// no-op update: the real API server does not bump the resourceVersion
		return 200, CopyObj(cur), ""
	}
	om["resourceVersion"] = s.nextRV()
	if _, deleting := om["deletionTimestamp"]; deleting && len(finalizers(o)) == 0 {
		delete(s.store, key)
		delete(s.managed, key)
		s.recordLocked(rd.ResKey(), "DELETED", o)
		return 200, CopyObj(o), ""
	}
	s.store[key] = o
	s.recordLocked(rd.ResKey(), "MODIFIED", o)
	return 200, CopyObj(o), ""
}

func toInt64(v interface{}) (int64, bool) {
	switch t := v.(type) {
	case int64:
		return t, true
	case int:
		return int64(t), true
	case float64:
		return int64(t), true
	case json.Number:
		i, err := t.Int64()
		return i, err == nil
	}
	return 0, false
}

type DeleteOpts struct {
	PrecondUID  string
	PrecondRV   string
	Propagation string // "", Background, Foreground, Orphan
}

func (s *Server) deleteLocked(rd ResourceDef, ns, name string, opts DeleteOpts) (int, Obj, string) {
	if rd.Namespaced && ns == "" {
		return 405, nil, "delete of a namespaced resource needs a namespace"
	}
	if !rd.Namespaced {
		ns = ""
	}
	key := storeKey(rd.ResKey(), ns, name)
	cur, ok := s.store[key]
	if !ok {
		return 404, nil, "not found"
	}
	if opts.PrecondUID != "" && opts.PrecondUID != metaStr(cur, "uid") {
		return 409, nil, "Precondition failed: UID in precondition: " + opts.PrecondUID + ", UID in object meta: " + metaStr(cur, "uid")
	}
	if opts.PrecondRV != "" && opts.PrecondRV != metaStr(cur, "resourceVersion") {
		return 409, nil, "Precondition failed: ResourceVersion in precondition does not match"
	}
	o := CopyObj(cur)
	om := meta(o)
	fins := finalizers(o)
	add := ""
	switch opts.Propagation {
	case "Foreground":
		add = "foregroundDeletion"
	case "Orphan":
		add = "orphan"
	}
	_, already := om["deletionTimestamp"]
	if add != "" && !already {
		has := false
		for _, f := range fins {
			if f == add {
				has = true
			}
		}
		if !has {
			fins = append(fins, add)
			setFinalizers(o, fins)
		}
	}
	if len(fins) > 0 {
		if already {
			return 200, CopyObj(cur), ""
		}
		om["deletionTimestamp"] = "2026-01-02T00:00:00Z"
		om["resourceVersion"] = s.nextRV()
		s.store[key] = o
		s.recordLocked(rd.ResKey(), "MODIFIED", o)
		return 200, CopyObj(o), ""
	}
	om["resourceVersion"] = s.nextRV()
	delete(s.store, key)
	delete(s.managed, key)
	s.recordLocked(rd.ResKey(), "DELETED", o)
	return 200, CopyObj(o), ""
}

// ---------------------------------------------------------------------------------
// JSON patch (RFC 6902 subset: add/remove/replace on object members and array indexes)

func unescapePtr(t string) string {
	return strings.ReplaceAll(strings.ReplaceAll(t, "~1", "/"), "~0", "~")
}

func jsonPatchApply(doc Obj, ops []interface{}) (Obj, error) {
	out := CopyObj(doc)
	for _, raw := range ops {
		op, _ := raw.(map[string]interface{})
		kind, _ := op["op"].(string)
		path, _ := op["path"].(string)
		if !strings.HasPrefix(path, "/") {
			return nil, fmt.Errorf("bad path %q", path)
		}
		toks := strings.Split(path[1:], "/")
		for i := range toks {
			toks[i] = unescapePtr(toks[i])
		}
		var parent interface{} = out
		for _, t := range toks[:len(toks)-1] {
			switch p := parent.(type) {
			case map[string]interface{}:
				nx, ok := p[t]
				if !ok {
					return nil, fmt.Errorf("%s operation does not apply: doc is missing path: %q", kind, path)
				}
				parent = nx
			case []interface{}:
				idx, err := strconv.Atoi(t)
				if err != nil || idx < 0 || idx >= len(p) {
					return nil, fmt.Errorf("bad index in %q", path)
				}
				parent = p[idx]
			default:
				return nil, fmt.Errorf("%s operation does not apply: doc is missing path: %q", kind, path)
			}
		}
		last := toks[len(toks)-1]
		pm, isMap := parent.(map[string]interface{})
		if !isMap {
			return nil, fmt.Errorf("unsupported patch target in %q", path)
		}
		switch kind {
		case "remove":
			if _, ok := pm[last]; !ok {
				return nil, fmt.Errorf("remove operation does not apply: doc is missing path: %q: missing value", path)
			}
			delete(pm, last)
		case "add":
			pm[last] = deepCopy(op["value"])
		case "replace":
			if _, ok := pm[last]; !ok {
				return nil, fmt.Errorf("replace operation does not apply: doc is missing path: %q", path)
			}
			pm[last] = deepCopy(op["value"])
		default:
			return nil, fmt.Errorf("unsupported op %q", kind)
		}
	}
	return out, nil
}

func (s *Server) jsonPatchLocked(rd ResourceDef, ns, name string, ops []interface{}) (int, Obj, string) {
	if !rd.Namespaced {
		ns = ""
	}
	key := storeKey(rd.ResKey(), ns, name)
	cur, ok := s.store[key]
	if !ok {
		return 404, nil, "not found"
	}
	patched, err := jsonPatchApply(cur, ops)
	if err != nil {
		return 422, nil, err.Error()
	}
	// a patch is an unconditional update of the patched document
	pm := meta(patched)
	pm["resourceVersion"] = metaStr(cur, "resourceVersion")
	return s.updateLocked(rd, ns, name, "", patched)
}

// ---------------------------------------------------------------------------------
// server-side apply (simplified structural merge: maps recursive, lists atomic)

func leafPaths(prefix string, v interface{}, out *[]string) {
	if m, ok := v.(map[string]interface{}); ok && len(m) > 0 {
		keys := make([]string, 0, len(m))
		for k := range m {
			keys = append(keys, k)
		}
		sort.Strings(keys)
		for _, k := range keys {
			leafPaths(prefix+"\x00"+k, m[k], out)
		}
		return
	}
	*out = append(*out, prefix)
}

func setPath(o Obj, path []string, v interface{}) {
	cur := o
	for _, p := range path[:len(path)-1] {
		nx, ok := cur[p].(map[string]interface{})
		if !ok {
			nx = Obj{}
			cur[p] = nx
		}
		cur = nx
	}
	cur[path[len(path)-1]] = deepCopy(v)
}
func getPath(o Obj, path []string) (interface{}, bool) {
	var cur interface{} = o
	for _, p := range path {
		m, ok := cur.(map[string]interface{})
		if !ok {
			return nil, false
		}
		cur, ok = m[p]
		if !ok {
			return nil, false
		}
	}
	return cur, true
}
func delPath(o Obj, path []string) {
	if len(path) == 0 {
		return
	}
	if len(path) == 1 {
		delete(o, path[0])
		return
	}
	nx, ok := o[path[0]].(map[string]interface{})
	if !ok {
		return
	}
	delPath(nx, path[1:])
	if len(nx) == 0 {
		delete(o, path[0])
	}
}

func (s *Server) applyLocked(rd ResourceDef, ns, name, manager string, force bool, body Obj) (int, Obj, string) {
	if rd.Namespaced && ns == "" {
		return 405, nil, "apply of a namespaced resource needs a namespace"
	}
	if !rd.Namespaced {
		ns = ""
	}
	if manager == "" {
		return 400, nil, "PatchOptions.meta.k8s.io: fieldManager: Required value: is required for apply patch"
	}
	if av, _ := body["apiVersion"].(string); av != rd.APIVersion() {
		return 400, nil, "apiVersion of applied object does not match"
	}
	if k, _ := body["kind"].(string); k != rd.Kind {
		return 400, nil, "kind of applied object does not match"
	}
	bm := meta(body)
	if bn, _ := bm["name"].(string); bn != "" && bn != name {
		return 400, nil, "name of applied object does not match"
	}
	if _, ok := bm["managedFields"]; ok {
		return 400, nil, "metadata.managedFields must be nil"
	}
	key := storeKey(rd.ResKey(), ns, name)
	cur, exists := s.store[key]
	applied := CopyObj(body)
	am := meta(applied)
	for _, f := range []string{"uid", "resourceVersion", "creationTimestamp", "generation", "deletionTimestamp", "selfLink"} {
		delete(am, f)
	}
	am["name"] = name
	if rd.Namespaced {
		am["namespace"] = ns
	}
	if rd.StatusSub {
		delete(applied, "status")
	}
	// metadata.ownerReferences is a list-map keyed by uid (+listType=map): merged, not replaced
	var appliedOwners []interface{}
	if l, ok := am["ownerReferences"].([]interface{}); ok {
		appliedOwners = l
		if exists {
			delete(am, "ownerReferences")
		}
	}
	var paths []string
	leafPaths("", applied, &paths)
	if !exists {
		code, o, msg := s.createLocked(rd, ns, applied)
		if code == 201 {
			s.managed[key] = map[string][]string{manager: paths}
		}
		return code, o, msg
	}
	if brv, _ := bm["resourceVersion"].(string); brv != "" && brv != metaStr(cur, "resourceVersion") {
		return 409, nil, "the object has been modified"
	}
	mf := s.managed[key]
	if mf == nil {
		mf = map[string][]string{}
	}
	newSet := map[string]bool{}
	for _, p := range paths {
		newSet[p] = true
	}
	if !force {
		for other, ps := range mf {
			if other == manager {
				continue
			}
			for _, p := range ps {
				if newSet[p] {
					ap, _ := getPath(applied, strings.Split(p, "\x00")[1:])
					cp, _ := getPath(cur, strings.Split(p, "\x00")[1:])
					if canon(ap) != canon(cp) {
						return 409, nil, "Apply failed with 1 conflict: conflict with \"" + other + "\""
					}
				}
			}
		}
	}
	o := CopyObj(cur)
	// remove what this manager applied before and no longer applies (if nobody else owns it)
	for _, p := range mf[manager] {
		if newSet[p] {
			continue
		}
		owned := false
		for other, ps := range mf {
			if other == manager {
				continue
			}
			for _, q := range ps {
				if q == p {
					owned = true
				}
			}
		}
		if !owned {
			delPath(o, strings.Split(p, "\x00")[1:])
		}
	}
	for _, p := range paths {
		v, _ := getPath(applied, strings.Split(p, "\x00")[1:])
		setPath(o, strings.Split(p, "\x00")[1:], v)
	}
	if force {
		for other, ps := range mf {
			if other == manager {
				continue
			}
			var keep []string
			for _, p := range ps {
				if !newSet[p] {
					keep = append(keep, p)
				}
			}
			mf[other] = keep
		}
	}
	om := meta(o)
	if len(appliedOwners) > 0 {
		curOwners, _ := om["ownerReferences"].([]interface{})
		merged := append([]interface{}{}, curOwners...)
		for _, a := range appliedOwners {
			ar, _ := a.(map[string]interface{})
			found := false
			for i, c := range merged {
				if cr, _ := c.(map[string]interface{}); cr != nil && cr["uid"] == ar["uid"] {
					merged[i] = deepCopy(ar)
					found = true
				}
			}
			if !found {
				merged = append(merged, deepCopy(ar))
			}
		}
		om["ownerReferences"] = merged
	}
	om["resourceVersion"] = metaStr(cur, "resourceVersion")
	code, res, msg := s.updateLocked(rd, ns, name, "", o)
	if code == 200 {
		if _, still := s.store[key]; still {
			mf[manager] = paths
			s.managed[key] = mf
		}
	}
	return code, res, msg
}
