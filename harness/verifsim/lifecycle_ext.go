package verifsim

// Additive helpers for the C20 (life cycle of hosted controllers) harness:
//
//   - LifeHooks: an in-process webhook server that accepts host "hook" and "hook.<ns>[:port]"
//     (service-style URLs), records every call and answers it;
//   - FactoryStats: subscription (refCount) and handler counts of the real
//     SharedInformerFactory, read by reflection under the factory's own mutex;
//   - RunLifecycle: the scenario driver shared by the composite and the decorator harness
//     (the in-package parts only build the controller objects and call the real
//     Metacontroller.Reconcile; see LifeAdapter).
//
// Nothing here judges the property: the driver records observations, TLC decides
// (spec/TraceLifecycle.tla).

import (
	"bufio"
	"bytes"
	"encoding/json"
	"fmt"
	"io"
	"net/http"
	"os"
	"reflect"
	"regexp"
	"sort"
	"strconv"
	"strings"
	"sync"
	"time"
	"unsafe"

	metav1 "k8s.io/apimachinery/pkg/apis/meta/v1"
	"k8s.io/klog/v2"

	"metacontroller/pkg/apis/metacontroller/v1alpha1"
)

// ---------------------------------------------------------------------------------
// hook server

// LifeCall is one webhook call seen by the in-process hook server.
type LifeCall struct {
	Seq    int
	Name   string // controller name encoded in the URL
	Tag    int    // configuration tag encoded in the URL
	Hook   string // sync | finalize | customize
	Parent string // metadata.name of the parent/object sent
	Gen    int64  // metadata.generation of the parent/object sent
}

// LifeHooks is installed as http.DefaultTransport.
type LifeHooks struct {
	mu       sync.Mutex
	calls    []LifeCall
	inflight int
	refused  int
	answer   func(c LifeCall, req Obj) (int, []byte)
}

var lifeHooks = &LifeHooks{}

// InstallLifeHooks swaps http.DefaultTransport for the C20 hook server (after the
// generic one has consumed its sync.Once, so nothing re-installs it later).
func InstallLifeHooks() *LifeHooks {
	InstallHooks()
	http.DefaultTransport = lifeHooks
	return lifeHooks
}

func (m *LifeHooks) SetAnswer(f func(c LifeCall, req Obj) (int, []byte)) {
	m.mu.Lock()
	m.answer = f
	m.mu.Unlock()
}

// Reset forgets all recorded calls.
func (m *LifeHooks) Reset() {
	m.mu.Lock()
	m.calls = nil
	m.refused = 0
	m.mu.Unlock()
}

// Snapshot returns (number of calls so far, calls in flight).
func (m *LifeHooks) Snapshot() (int, int) {
	m.mu.Lock()
	defer m.mu.Unlock()
	return len(m.calls), m.inflight
}

// CallsFrom returns the calls with index >= n.
func (m *LifeHooks) CallsFrom(n int) []LifeCall {
	m.mu.Lock()
	defer m.mu.Unlock()
	if n > len(m.calls) {
		n = len(m.calls)
	}
	return append([]LifeCall(nil), m.calls[n:]...)
}

var lifeSvcHost = regexp.MustCompile(`^hook\.([a-z0-9]+)-t(\d+)(:\d+)?$`)

// parseLifeURL recognises  http://hook/<name>/t<tag>/<hook>  and
// <proto>://hook.<name>-t<tag>[:port]/<hook>.
func parseLifeURL(host, path string) (name string, tag int, hook string, ok bool) {
	parts := strings.Split(strings.Trim(path, "/"), "/")
	if host == "hook" {
		if len(parts) != 3 || !strings.HasPrefix(parts[1], "t") {
			return "", 0, "", false
		}
		t, err := strconv.Atoi(parts[1][1:])
		if err != nil {
			return "", 0, "", false
		}
		return parts[0], t, parts[2], true
	}
	if m := lifeSvcHost.FindStringSubmatch(host); m != nil && len(parts) == 1 {
		t, _ := strconv.Atoi(m[2])
		return m[1], t, parts[0], true
	}
	return "", 0, "", false
}

func (m *LifeHooks) RoundTrip(req *http.Request) (*http.Response, error) {
	var body []byte
	if req.Body != nil {
		body, _ = io.ReadAll(req.Body)
		req.Body.Close()
	}
	name, tag, hook, ok := parseLifeURL(req.URL.Host, req.URL.Path)
	m.mu.Lock()
	ans := m.answer
	if !ok || ans == nil {
		m.refused++
		m.mu.Unlock()
		return nil, &netErr{"verifsim: connection refused: " + req.URL.Host}
	}
	var r Obj
	_ = json.Unmarshal(body, &r)
	c := LifeCall{Name: name, Tag: tag, Hook: hook}
	p := AsMap(r["parent"])
	if len(p) == 0 {
		p = AsMap(r["object"])
	}
	c.Parent = metaStr(p, "name")
	if g, ok := toInt64(meta(p)["generation"]); ok {
		c.Gen = g
	}
	c.Seq = len(m.calls)
	m.calls = append(m.calls, c)
	m.inflight++
	m.mu.Unlock()
	code, out := ans(c, r)
	m.mu.Lock()
	m.inflight--
	m.mu.Unlock()
	return &http.Response{
		StatusCode: code, Status: strconv.Itoa(code) + " " + http.StatusText(code),
		Proto: "HTTP/1.1", ProtoMajor: 1, ProtoMinor: 1, Header: http.Header{"Content-Type": []string{"application/json"}},
		Body: io.NopCloser(bytes.NewReader(out)), ContentLength: int64(len(out)), Request: req,
	}, nil
}

// ---------------------------------------------------------------------------------
// white-box view of the shared informer factory

// FactoryStat is the state of one shared informer inside the factory.
type FactoryStat struct {
	Refs     int // refCount: open subscriptions
	Subs     int // subscriptions that currently have event handlers registered
	Handlers int // event handlers in total
}

// FactoryStats reads refCount and the per-subscription handler lists of a
// *dynamicinformer.SharedInformerFactory by reflection (under the factory mutex).
// ok=false when the layout is not the expected one (then only the server-side WATCH
// counts are available; the trace says so).
func FactoryStats(factory interface{}) (out map[string]FactoryStat, ok bool) {
	defer func() {
		if recover() != nil {
			out, ok = nil, false
		}
	}()
	v := reflect.ValueOf(factory)
	if v.Kind() != reflect.Ptr || v.IsNil() {
		return nil, false
	}
	v = v.Elem()
	mf := v.FieldByName("mutex")
	rc := v.FieldByName("refCount")
	si := v.FieldByName("sharedInformers")
	if !mf.IsValid() || !rc.IsValid() || !si.IsValid() || rc.Kind() != reflect.Map || si.Kind() != reflect.Map {
		return nil, false
	}
	if mf.Type() != reflect.TypeOf(sync.Mutex{}) || !mf.CanAddr() {
		return nil, false
	}
	mu := (*sync.Mutex)(unsafe.Pointer(mf.UnsafeAddr()))
	mu.Lock()
	defer mu.Unlock()
	out = map[string]FactoryStat{}
	it := rc.MapRange()
	for it.Next() {
		st := out[it.Key().String()]
		st.Refs = int(it.Value().Int())
		out[it.Key().String()] = st
	}
	it = si.MapRange()
	for it.Next() {
		key := it.Key().String()
		sri := it.Value()
		if sri.Kind() != reflect.Ptr || sri.IsNil() {
			return nil, false
		}
		eh := sri.Elem().FieldByName("eventHandlers")
		if !eh.IsValid() || eh.Kind() != reflect.Ptr || eh.IsNil() {
			return nil, false
		}
		hm := eh.Elem().FieldByName("handlers")
		hmu := eh.Elem().FieldByName("mutex")
		if !hm.IsValid() || hm.Kind() != reflect.Map || !hmu.IsValid() || hmu.Type() != reflect.TypeOf(sync.RWMutex{}) {
			return nil, false
		}
		rw := (*sync.RWMutex)(unsafe.Pointer(hmu.UnsafeAddr()))
		rw.RLock()
		st := out[key]
		st.Subs = hm.Len()
		hi := hm.MapRange()
		for hi.Next() {
			st.Handlers += hi.Value().Len()
		}
		rw.RUnlock()
		out[key] = st
	}
	return out, true
}

// ReqsFrom returns the in-memory trace events with index >= n (only for traces created
// with NewTrace("")).
func (t *Trace) ReqsFrom(n int) []Obj {
	t.mu.Lock()
	defer t.mu.Unlock()
	if n > len(t.events) {
		n = len(t.events)
	}
	return append([]Obj(nil), t.events[n:]...)
}

// Len returns the number of in-memory events.
func (t *Trace) Len() int {
	t.mu.Lock()
	defer t.mu.Unlock()
	return len(t.events)
}

// ---------------------------------------------------------------------------------
// driver

// LifeInst describes one entry of the reconciler's map of hosted controllers.
type LifeInst struct {
	Sid      string   // id of the scenario spec the instance was built from ("?" if unknown)
	Ref      interface{} // the instance itself (pointer): identity; the driver keeps it referenced so that addresses are never reused
	QLen     int      // length of its work queue
	Tag      int      // configuration tag of its hooks
	Parent   string   // resource key of its parent resource ("" for none)
	Uses     []string // resource keys it subscribes to (with multiplicity), related ones included
	Selector bool
}

// LifeAdapter is implemented in-package (composite / decorator): it owns the real
// Metacontroller reconciler, the fake client with the controller objects and CRDs.
type LifeAdapter interface {
	// Apply performs the API-side part of an event on the controller object:
	// t = create | update | noop | delete.
	Apply(t, name, sid string, traits Obj) error
	// Reconcile calls the real Metacontroller.Reconcile for the name.
	Reconcile(name string) error
	// Running returns the reconciler's map of hosted controllers.
	Running() map[string]LifeInst
	// StopAll stops whatever is still running (scenario teardown; not judged).
	StopAll()
}

// LifeResources is the fixed order of abstract resources in trace lines:
// 1 pa, 2 pb, 3 cm, 4 th, 5 ns.
var LifeResources = []string{"parents.verif.example", "cparents.verif.example", "configmaps.", "things.verif.example", "nostatus.verif.example"}

// LifeNames maps name index -> controller name.
var LifeNames = []string{"c1", "c2"}

const lifeNS = "ns1"

type lifeDriver struct {
	kind   string
	srv    *Server
	w      *World
	ad     LifeAdapter
	hooks  *LifeHooks
	rtrace *Trace // in-memory request log of the simulator
	out    *bufio.Writer
	seq    int
	sc     string

	ids     map[interface{}]int // instance (pointer, kept alive) -> small id
	nextID  int
	parents map[string][]string // resource key -> parent object names
	pokeGen map[string]int64    // resKey|name -> generation after the last poke
	wleak   []int               // last observed WATCH surplus per resource (wait hint only)
}

var lifeToken = regexp.MustCompile(`by=([a-z0-9]+)/t(\d+)@`)

func tokensOf(o Obj) map[string]bool {
	out := map[string]bool{}
	if o == nil {
		return out
	}
	b, _ := json.Marshal(o)
	for _, m := range lifeToken.FindAllStringSubmatch(string(b), -1) {
		out[m[0]] = true
	}
	return out
}

func (d *lifeDriver) emitWith(extra, ev Obj) {
	for k, v := range extra {
		ev[k] = v
	}
	d.emit(ev)
}

func (d *lifeDriver) emit(ev Obj) {
	d.seq++
	ev["i"] = d.seq
	ev["sc"] = d.sc
	b, err := json.Marshal(ev)
	if err != nil {
		panic(fmt.Sprintf("MACHINERY: trace marshal: %v", err))
	}
	d.out.Write(b)
	d.out.WriteByte('\n')
	d.out.Flush()
}

// lifeAnswer is the webhook programme: it answers from what the request says about the
// controller, so it needs no knowledge of the scenario.
func lifeAnswer(c LifeCall, req Obj) (int, []byte) {
	token := fmt.Sprintf("by=%s/t%d@%d", c.Name, c.Tag, c.Gen)
	ctl := AsMap(req["controller"])
	spec := AsMap(ctl["spec"])
	if c.Hook == "customize" {
		b, _ := json.Marshal(Obj{"relatedResources": []interface{}{
			Obj{"apiVersion": "v1", "resource": "configmaps", "namespace": lifeNS, "names": []interface{}{"rel"}}}})
		return 200, b
	}
	parent := AsMap(req["parent"])
	decorator := false
	if len(parent) == 0 {
		parent = AsMap(req["object"])
		decorator = true
	}
	pname := metaStr(parent, "name")
	rules := AsList(spec["childResources"])
	if decorator {
		rules = AsList(spec["attachments"])
	}
	kids := []interface{}{}
	seen := map[string]bool{}
	for _, r := range rules {
		res := AsStr(AsMap(r)["resource"])
		if seen[res] {
			continue
		}
		seen[res] = true
		name := pname + "-" + c.Name + "-" + res
		switch res {
		case "configmaps":
			kids = append(kids, Obj{"apiVersion": "v1", "kind": "ConfigMap",
				"metadata": Obj{"name": name, "namespace": lifeNS, "annotations": Obj{"verif/by": fmt.Sprintf("by=%s/t%d@0", c.Name, c.Tag)}},
				"data":     Obj{"k": "v"}})
		case "things":
			kids = append(kids, Obj{"apiVersion": "verif.example/v1", "kind": "Thing",
				"metadata": Obj{"name": name, "namespace": lifeNS, "annotations": Obj{"verif/by": fmt.Sprintf("by=%s/t%d@0", c.Name, c.Tag)}},
				"spec":     Obj{"f1": "v"}})
		}
	}
	resp := Obj{}
	if decorator {
		resp["annotations"] = Obj{"verif-by-" + c.Name: token}
		resp["attachments"] = kids
	} else {
		resp["status"] = Obj{"by": token}
		resp["children"] = kids
	}
	if c.Hook == "finalize" {
		resp["finalized"] = true
	}
	b, _ := json.Marshal(resp)
	return 200, b
}

func (d *lifeDriver) seed() error {
	d.parents = map[string][]string{}
	d.pokeGen = map[string]int64{}
	mk := func(resKey, av, kind, ns, name string) (Obj, error) {
		o := Obj{"apiVersion": av, "kind": kind, "metadata": Obj{"name": name, "labels": Obj{"app": "x"}}, "spec": Obj{"poke": int64(0)}}
		if ns != "" {
			meta(o)["namespace"] = ns
		}
		res, code := d.srv.Seed(resKey, o)
		if code != 201 {
			return nil, fmt.Errorf("seed %s/%s: %d", resKey, name, code)
		}
		d.parents[resKey] = append(d.parents[resKey], name)
		return res, nil
	}
	pa1, err := mk(LifeResources[0], "verif.example/v1", "Parent", lifeNS, "pa-1")
	if err != nil {
		return err
	}
	if _, err = mk(LifeResources[0], "verif.example/v1", "Parent", lifeNS, "pa-2"); err != nil {
		return err
	}
	if _, err = mk(LifeResources[1], "verif.example/v1", "CParent", "", "pb-1"); err != nil {
		return err
	}
	if _, err = mk(LifeResources[4], "verif.example/v1", "NoStatus", lifeNS, "ns-1"); err != nil {
		return err
	}
	// a child that already exists and is owned by pa-1 (left behind by an earlier run of
	// controller c1), a related object, and an unrelated configmap
	uid := metaStr(pa1, "uid")
	yes := true
	child := Obj{"apiVersion": "v1", "kind": "ConfigMap", "metadata": Obj{"name": "pa-1-c1-configmaps", "namespace": lifeNS,
		"labels": Obj{"controller-uid": uid},
		"ownerReferences": []interface{}{Obj{"apiVersion": "verif.example/v1", "kind": "Parent", "name": "pa-1", "uid": uid,
			"controller": yes, "blockOwnerDeletion": yes}}}, "data": Obj{"k": "v"}}
	if d.kind == "decorator" {
		meta(child)["annotations"] = Obj{"metacontroller.k8s.io/decorator-controller": "c1"}
		delete(meta(child), "labels")
	}
	for _, o := range []Obj{child,
		{"apiVersion": "v1", "kind": "ConfigMap", "metadata": Obj{"name": "rel", "namespace": lifeNS}, "data": Obj{"k": "r"}},
		{"apiVersion": "v1", "kind": "ConfigMap", "metadata": Obj{"name": "stray", "namespace": lifeNS}, "data": Obj{"k": "s"}},
		{"apiVersion": "verif.example/v1", "kind": "Thing", "metadata": Obj{"name": "th-1", "namespace": lifeNS}, "spec": Obj{"f1": "a"}},
	} {
		rk := LifeResources[2]
		if o["kind"] == "Thing" {
			rk = LifeResources[3]
		}
		if _, code := d.srv.Seed(rk, o); code != 201 {
			return fmt.Errorf("seed %v: %d", metaStr(o, "name"), code)
		}
	}
	return nil
}

// poke changes spec.poke of every parent object (new generation): every hosted
// controller that is alive has to call its sync hook for it.  The related object of the
// customize hooks is touched as well (its handlers fire).
func (d *lifeDriver) poke(k int) {
	d.srv.Env(EnvOp{Op: "touch", ResKey: LifeResources[2], NS: lifeNS, Name: "rel"})
	for _, rk := range []string{LifeResources[0], LifeResources[1], LifeResources[4]} {
		rd, _ := d.srv.ResByName(rk)
		for _, name := range d.parents[rk] {
			ns := ""
			if rd.Namespaced {
				ns = lifeNS
			}
			d.srv.Env(EnvOp{Op: "setfield", ResKey: rk, NS: ns, Name: name, Path: []string{"spec", "poke"}, Value: int64(k)})
			if o := d.srv.Get(rk, ns, name); o != nil {
				g, _ := toInt64(meta(o)["generation"])
				d.pokeGen[rk+"|"+name] = g
			}
		}
	}
}

type lifeObs struct {
	running  map[string]LifeInst
	resp     map[string]bool
	settled  bool
	watches  []int
	refs     []int
	subs     []int
	handlers []int
	lists    []int
	opens    []int
	closes   []int
	refl     bool
}

func (d *lifeDriver) counters() (act, lists, opens, closes []int) {
	ws := d.srv.WatchStats()
	for _, rk := range LifeResources {
		st := ws[rk]
		act = append(act, st.Active)
		lists = append(lists, st.Lists)
		opens = append(opens, st.Opens)
		closes = append(closes, st.Closes)
	}
	return
}

func (d *lifeDriver) factory() (refs, subs, handlers []int, ok bool) {
	fs, ok := FactoryStats(d.w.DynInformers)
	for _, rk := range LifeResources {
		rd, _ := d.srv.ResByName(rk)
		st := fs[rd.Resource+"."+rd.APIVersion()]
		refs = append(refs, st.Refs)
		subs = append(subs, st.Subs)
		handlers = append(handlers, st.Handlers)
	}
	return refs, subs, handlers, ok
}

// settle is the barrier after an event: (1) every hosted controller in the map has
// called its sync hook for the current generation of each of its parents (or the
// response timeout expired: recorded as unresponsive), (2) queues are empty, no hook call
// is in flight, and hook log, request log and LIST/WATCH statistics did not move during a
// quiet window, (3) a WATCH stream is open exactly for the resources the factory holds a
// subscription to (a stream closes a moment after the last Close()); without the
// white-box view: the WATCH surplus over what the running instances use is the one seen
// after the previous event (3 s).  These are wait conditions only: on timeout the
// observation is recorded as it is (settled = false) and TLC judges it.
func (d *lifeDriver) settle(callsFrom int) lifeObs {
	respTimeout := 20 * time.Second
	var obs lifeObs
	responsive := func(name string, in LifeInst, calls []LifeCall) bool {
		for _, pn := range d.parents[in.Parent] {
			want := d.pokeGen[in.Parent+"|"+pn]
			found := false
			for _, c := range calls {
				if c.Name == name && c.Tag == in.Tag && c.Hook == "sync" && c.Parent == pn && c.Gen >= want {
					found = true
					break
				}
			}
			if !found {
				return false
			}
		}
		return true
	}
	run := d.ad.Running()
	obs.resp = map[string]bool{}
	WaitFor(respTimeout, func() bool {
		calls := d.hooks.CallsFrom(callsFrom)
		all := true
		for n, in := range run {
			obs.resp[n] = responsive(n, in, calls)
			all = all && obs.resp[n]
		}
		return all
	})
	// quiet window
	expected := func() []int {
		use := map[string]int{}
		for _, in := range run {
			for _, rk := range in.Uses {
				use[rk]++
			}
		}
		out := make([]int, len(LifeResources))
		for i, rk := range LifeResources {
			if use[rk] > 0 {
				out[i] = 1
			}
		}
		return out
	}()
	type snap struct {
		calls, infl, reqs int
		stat              string
	}
	take := func() snap {
		c, f := d.hooks.Snapshot()
		a, l, o, cl := d.counters()
		return snap{c, f, d.rtrace.Len(), fmt.Sprint(a, l, o, cl)}
	}
	quietFor := 30 * time.Millisecond
	deadline := time.Now().Add(20 * time.Second)
	watchDeadline := time.Now().Add(3 * time.Second)
	last := take()
	since := time.Now()
	for {
		time.Sleep(time.Millisecond)
		cur := take()
		idle := cur.infl == 0
		for _, in := range d.ad.Running() {
			if in.QLen != 0 {
				idle = false
			}
		}
		if cur != last || !idle {
			last, since = cur, time.Now()
		}
		if time.Since(since) >= quietFor {
			act, _, _, _ := d.counters()
			consistent := true
			if refs, _, _, ok := d.factory(); ok {
				// a WATCH is open iff the factory holds a subscription (what C18 establishes);
				// a stream closes a moment after the last subscription is released
				watchDeadline = deadline
				for i := range act {
					if (act[i] > 0) != (refs[i] > 0) {
						consistent = false
					}
				}
			} else {
				for i := range act {
					if act[i]-expected[i] != d.wleak[i] {
						consistent = false
					}
				}
			}
			if consistent || time.Now().After(watchDeadline) {
				obs.settled = true
				break
			}
		}
		if time.Now().After(deadline) {
			break
		}
	}
	obs.running = d.ad.Running()
	obs.watches, obs.lists, obs.opens, obs.closes = d.counters()
	obs.refs, obs.subs, obs.handlers, obs.refl = d.factory()
	for i := range obs.watches {
		d.wleak[i] = obs.watches[i] - expected[i]
	}
	return obs
}

func intsToIface(a []int) []interface{} {
	out := make([]interface{}, len(a))
	for i, x := range a {
		out[i] = x
	}
	return out
}

// attribution of hook calls and API writes to (name index, tag)
func (d *lifeDriver) callSet(calls []LifeCall) []interface{} {
	seen := map[string]bool{}
	out := []interface{}{}
	for _, c := range calls {
		k := fmt.Sprintf("%s/%d", c.Name, c.Tag)
		if seen[k] {
			continue
		}
		seen[k] = true
		out = append(out, Obj{"n": nameIndex(c.Name), "tag": c.Tag})
	}
	sortPairs(out)
	return out
}

func nameIndex(name string) int {
	for i, n := range LifeNames {
		if n == name {
			return i + 1
		}
	}
	return 0
}

func sortPairs(a []interface{}) {
	sort.Slice(a, func(i, j int) bool {
		x, y := a[i].(Obj), a[j].(Obj)
		if x["n"].(int) != y["n"].(int) {
			return x["n"].(int) < y["n"].(int)
		}
		return x["tag"].(int) < y["tag"].(int)
	})
}

func (d *lifeDriver) writeSet(evs []Obj) ([]interface{}, int) {
	seen := map[string]bool{}
	out := []interface{}{}
	writes := 0
	for _, e := range evs {
		if e["ev"] != "Req" || e["verb"] == "get" {
			continue
		}
		if c, _ := e["code"].(int); c < 200 || c >= 300 {
			continue
		}
		writes++
		pre := tokensOf(AsMap(e["pre"]))
		for tok := range tokensOf(AsMap(e["body"])) {
			if pre[tok] {
				continue
			}
			m := lifeToken.FindStringSubmatch(tok)
			k := m[1] + "/" + m[2]
			if seen[k] {
				continue
			}
			seen[k] = true
			t, _ := strconv.Atoi(m[2])
			out = append(out, Obj{"n": nameIndex(m[1]), "tag": t})
		}
	}
	sortPairs(out)
	return out, writes
}

func (d *lifeDriver) runningJSON(obs lifeObs) []interface{} {
	out := []interface{}{}
	for _, n := range LifeNames {
		in, ok := obs.running[n]
		if !ok {
			out = append(out, Obj{"has": false, "s": "-", "id": 0, "resp": false, "tag": 0})
			continue
		}
		id, seen := d.ids[in.Ref]
		if !seen {
			d.nextID++
			id = d.nextID
			d.ids[in.Ref] = id
		}
		out = append(out, Obj{"has": true, "s": in.Sid, "id": id, "resp": obs.resp[n], "tag": in.Tag})
	}
	return out
}

func (d *lifeDriver) one(sc Obj) (err error) {
	d.sc = AsStr(sc["id"])
	d.kind = AsStr(sc["kind"])
	d.rtrace, _ = NewTrace("")
	d.srv = NewServer(DefaultResources(), d.rtrace)
	d.ids = map[interface{}]int{}
	d.nextID = 0
	d.wleak = make([]int, len(LifeResources))
	if err = d.seed(); err != nil {
		return err
	}
	d.w, err = NewWorld(d.srv, "A", 0)
	if err != nil {
		return err
	}
	d.hooks.Reset()
	d.hooks.SetAnswer(lifeAnswer)
	defer func() {
		d.ad.StopAll()
		d.w.Stop()
		d.hooks.SetAnswer(nil)
	}()
	d.ad = lifeFactory(d.kind, d.w, d.srv)
	if d.ad == nil {
		return fmt.Errorf("no adapter for kind %q", d.kind)
	}
	specs := AsMap(sc["specs"])
	d.emit(Obj{"ev": "Reset", "kind": d.kind, "specs": specsForTrace(specs), "nn": AsInt(sc["nn"])})
	steps := AsList(sc["steps"])
	for k, st := range steps {
		op := AsMap(AsMap(st)["op"])
		t, n, sid := AsStr(op["t"]), AsInt(op["n"]), AsStr(op["s"])
		if n < 1 || n > len(LifeNames) {
			return fmt.Errorf("bad name index %d", n)
		}
		name := LifeNames[n-1]
		var traits Obj
		if t == "create" || t == "update" {
			traits = AsMap(specs[sid])
			if traits == nil {
				return fmt.Errorf("unknown spec id %q", sid)
			}
		}
		if err := d.ad.Apply(t, name, sid, traits); err != nil {
			return fmt.Errorf("apply %s %s: %v", t, name, err)
		}
		// "inflight": a sync of the instance this event is about is held inside its hook call while the reconciler
		// handles the event; the answer is let go once the reconciler has returned or has been waiting for a moment
		var gate chan struct{}
		if AsBool(AsMap(st)["inflight"]) {
			if _, runs := d.ad.Running()[name]; runs {
				gate = make(chan struct{})
				arrived := make(chan struct{}, 1)
				g := gate
				d.hooks.SetAnswer(func(c LifeCall, req Obj) (int, []byte) {
					if c.Name == name && (c.Hook == "sync" || c.Hook == "customize") {
						select {
						case arrived <- struct{}{}:
						default:
						}
						<-g
					}
					if c.Name == name && c.Hook == "customize" && t == "delete" {
						// the customize answer held back names a related resource the instance has NOT used so far: the sync in
						// flight subscribes to it when it goes on -- which must still be released by the stop that is waiting
						b, _ := json.Marshal(Obj{"relatedResources": []interface{}{
							Obj{"apiVersion": "v1", "resource": "configmaps", "namespace": lifeNS, "names": []interface{}{"rel"}},
							Obj{"apiVersion": "verif.example/v1", "resource": "things", "namespace": lifeNS, "names": []interface{}{"no-such-thing"}}}})
						return 200, b
					}
					return lifeAnswer(c, req)
				})
				d.poke(1000 + k)
				select {
				case <-arrived:
				case <-time.After(2 * time.Second):
					// the instance does not sync (unresponsive configuration): nothing is in flight
					close(gate)
					gate = nil
					d.hooks.SetAnswer(lifeAnswer)
				}
			}
		}
		c0, _ := d.hooks.Snapshot()
		r0 := d.rtrace.Len()
		var recErr error
		panicked, pmsg := false, ""
		recDone := make(chan struct{})
		go func() {
			defer close(recDone)
			defer func() {
				if r := recover(); r != nil {
					panicked = true
					pmsg = fmt.Sprint(r)
				}
			}()
			recErr = d.ad.Reconcile(name)
		}()
		if gate != nil {
			select {
			case <-recDone:
			case <-time.After(40 * time.Millisecond):
			}
			close(gate)
			d.hooks.SetAnswer(lifeAnswer)
		}
		<-recDone
		c1, _ := d.hooks.Snapshot()
		r1 := d.rtrace.Len()
		during := d.hooks.CallsFrom(c0)[:c1-c0]
		wDuring, _ := d.writeSet(d.rtrace.ReqsFrom(r0)[:r1-r0])
		d.poke(k + 1)
		obs := d.settle(c1)
		after := d.hooks.CallsFrom(c1)
		wAfter, nwrites := d.writeSet(d.rtrace.ReqsFrom(r1))
		if len(pmsg) > 200 {
			pmsg = pmsg[:200]
		}
		emsg := "-"
		if recErr != nil {
			emsg = recErr.Error()
			if len(emsg) > 200 {
				emsg = emsg[:200]
			}
		}
		if pmsg == "" {
			pmsg = "-"
		}
		line := Obj{}
		if w, ok := AsMap(st)["want"]; ok {
			line["want"] = w
		}
		d.emitWith(line, Obj{"ev": "Life", "k": k + 1, "op": Obj{"t": t, "n": n, "s": sid},
			"err": recErr != nil, "errMsg": emsg, "panic": panicked, "panicMsg": pmsg,
			"running": d.runningJSON(obs), "settled": obs.settled, "refl": obs.refl,
			"watches": intsToIface(obs.watches), "lists": intsToIface(obs.lists), "opens": intsToIface(obs.opens), "closes": intsToIface(obs.closes),
			"refs": intsToIface(obs.refs), "subs": intsToIface(obs.subs), "handlers": intsToIface(obs.handlers),
			"callsDuring": d.callSet(during), "callsAfter": d.callSet(after), "writesDuring": wDuring, "writesAfter": wAfter,
			"ncalls": len(after) + len(during), "nwrites": nwrites})
	}
	return nil
}

// specsForTrace turns the id -> traits map into a list ordered by id (TLC reads lists).
func specsForTrace(specs Obj) []interface{} {
	ids := SortedKeys(specs)
	out := make([]interface{}, 0, len(ids))
	for _, id := range ids {
		out = append(out, Obj{"id": id, "t": specs[id]})
	}
	return out
}

// LifeWorkers is the number of workers of every hosted controller (default 2;
// VERIF_C20_WORKERS overrides it).
func LifeWorkers() int {
	if n, err := strconv.Atoi(os.Getenv("VERIF_C20_WORKERS")); err == nil && n > 0 {
		return n
	}
	return 2
}

var lifeFactories = map[string]func(w *World, srv *Server) LifeAdapter{}

// RegisterLifeAdapter is called by the in-package harness files.
func RegisterLifeAdapter(kind string, f func(w *World, srv *Server) LifeAdapter) { lifeFactories[kind] = f }

func lifeFactory(kind string, w *World, srv *Server) LifeAdapter {
	if f := lifeFactories[kind]; f != nil {
		return f(w, srv)
	}
	return nil
}

// RunLifecycle replays the scenarios of scnPath whose kind has a registered adapter and
// writes the observation trace to tracePath.
func RunLifecycle(scnPath, tracePath string) (int, error) {
	f, err := os.Open(scnPath)
	if err != nil {
		return 0, err
	}
	defer f.Close()
	out, err := os.Create(tracePath)
	if err != nil {
		return 0, err
	}
	defer out.Close()
	klog.LogToStderr(false)
	klog.SetOutput(io.Discard)
	d := &lifeDriver{hooks: InstallLifeHooks(), out: bufio.NewWriterSize(out, 1<<16)}
	defer d.out.Flush()
	rd := bufio.NewScanner(f)
	rd.Buffer(make([]byte, 1<<20), 1<<26)
	n := 0
	for rd.Scan() {
		line := strings.TrimSpace(rd.Text())
		if line == "" {
			continue
		}
		var sc Obj
		if err := json.Unmarshal([]byte(line), &sc); err != nil {
			return n, fmt.Errorf("scenario line: %v", err)
		}
		if lifeFactories[AsStr(sc["kind"])] == nil {
			continue
		}
		if err := d.one(sc); err != nil {
			return n, fmt.Errorf("scenario %s: %v", AsStr(sc["id"]), err)
		}
		n++
	}
	return n, rd.Err()
}

// ---------------------------------------------------------------------------------
// concretisation of the abstract spec traits printed by TLC (spec/Lifecycle.tla)

// LifeResource maps an abstract resource name to (apiVersion, resource, resource key).
func LifeResource(abs string) (apiVersion, resource, resKey string) {
	switch abs {
	case "pa":
		return "verif.example/v1", "parents", LifeResources[0]
	case "pb":
		return "verif.example/v1", "cparents", LifeResources[1]
	case "cm":
		return "v1", "configmaps", LifeResources[2]
	case "th":
		return "verif.example/v1", "things", LifeResources[3]
	case "ns":
		return "verif.example/v1", "nostatus", LifeResources[4]
	}
	return "verif.example/v1", "ghosts", "" // unknown to discovery, no CRD
}

// LifeResKey maps (apiVersion, resource) of a controller spec to the simulator's key.
func LifeResKey(apiVersion, resource string) string {
	g := ""
	if i := strings.Index(apiVersion, "/"); i >= 0 {
		g = apiVersion[:i]
	}
	return resource + "." + g
}

// LifeHook builds the Hook of a controller from webhook traits.
func LifeHook(w Obj, name string, tag int, hook string) *v1alpha1.Hook {
	wh := &v1alpha1.Webhook{}
	if AsBool(w["url"]) {
		u := fmt.Sprintf("http://hook/%s/t%d/%s", name, tag, hook)
		wh.URL = &u
	}
	if AsBool(w["path"]) {
		p := "/" + hook
		wh.Path = &p
	}
	if svc := AsStr(w["svc"]); svc != "unset" && svc != "" {
		ref := &v1alpha1.ServiceReference{Name: "hook", Namespace: fmt.Sprintf("%s-t%d", name, tag)}
		if svc == "noName" {
			ref.Name = ""
		}
		if svc == "noNs" {
			ref.Namespace = ""
		}
		if AsBool(w["port"]) {
			p := int32(8080)
			ref.Port = &p
		}
		if AsBool(w["proto"]) {
			p := "https"
			ref.Protocol = &p
		}
		wh.Service = ref
	}
	switch AsStr(w["timeout"]) {
	case "pos":
		wh.Timeout = &metav1.Duration{Duration: 5 * time.Second}
	case "zero":
		wh.Timeout = &metav1.Duration{Duration: 0}
	case "neg":
		wh.Timeout = &metav1.Duration{Duration: -time.Second}
	}
	i32 := func(x int32) *int32 { return &x }
	yes, no := true, false
	switch AsStr(w["etag"]) {
	case "off":
		wh.Etag = &v1alpha1.WebhookEtagConfig{Enabled: &no}
	case "none":
		wh.Etag = &v1alpha1.WebhookEtagConfig{Enabled: &yes}
	case "timeout":
		wh.Etag = &v1alpha1.WebhookEtagConfig{Enabled: &yes, CacheTimeoutSeconds: i32(60)}
	case "cleanup":
		wh.Etag = &v1alpha1.WebhookEtagConfig{Enabled: &yes, CacheCleanupSeconds: i32(30)}
	case "both":
		wh.Etag = &v1alpha1.WebhookEtagConfig{Enabled: &yes, CacheTimeoutSeconds: i32(60), CacheCleanupSeconds: i32(30)}
	}
	switch AsStr(w["mode"]) {
	case "loose":
		m := v1alpha1.ResponseUnmarshallModeLoose
		wh.ResponseUnmarshallMode = &m
	case "strict":
		m := v1alpha1.ResponseUnmarshallModeStrict
		wh.ResponseUnmarshallMode = &m
	}
	return &v1alpha1.Hook{Webhook: wh}
}

// LifePlainHook is a usable hook with only the URL set; LifeBadHook has a webhook with
// neither url nor service/path.
func LifePlainHook(name string, tag int, hook string) *v1alpha1.Hook {
	return LifeHook(Obj{"url": true}, name, tag, hook)
}
func LifeBadHook() *v1alpha1.Hook { return &v1alpha1.Hook{Webhook: &v1alpha1.Webhook{}} }

// LifeSelector: "ok" selects the seeded parents (label app=x), "bad" cannot be converted.
func LifeSelector(sel string) *metav1.LabelSelector {
	switch sel {
	case "ok":
		return &metav1.LabelSelector{MatchLabels: map[string]string{"app": "x"}}
	case "bad":
		return &metav1.LabelSelector{MatchExpressions: []metav1.LabelSelectorRequirement{{Key: "app", Operator: "Bogus", Values: []string{"x"}}}}
	}
	return nil
}

// LifeTagOf recovers the configuration tag from a sync hook.
func LifeTagOf(h *v1alpha1.Hook) int {
	if h == nil || h.Webhook == nil {
		return 0
	}
	if h.Webhook.URL != nil {
		if _, t, _, ok := parseLifeURL("hook", strings.TrimPrefix(*h.Webhook.URL, "http://hook")); ok {
			return t
		}
	}
	if h.Webhook.Service != nil {
		if i := strings.LastIndex(h.Webhook.Service.Namespace, "-t"); i >= 0 {
			t, _ := strconv.Atoi(h.Webhook.Service.Namespace[i+2:])
			return t
		}
	}
	return 0
}

// LifeSpecKey is the canonical JSON of a controller spec (identity of a configuration).
func LifeSpecKey(spec interface{}) string {
	b, _ := json.Marshal(spec)
	return string(b)
}
