package verifsim

import (
	"encoding/json"
	"sort"
)

// toObj converts a cached object (unstructured or typed) into a plain JSON tree.
func toObj(x interface{}) Obj {
	b, err := json.Marshal(x)
	if err != nil {
		return nil
	}
	var o Obj
	if json.Unmarshal(b, &o) != nil {
		return nil
	}
	return o
}

// ToObj is the exported form of toObj.
func ToObj(x interface{}) Obj { return toObj(x) }

// SortObjs orders objects by kind, namespace, name.
func SortObjs(items []Obj) {
	sort.Slice(items, func(i, j int) bool {
		ki, _ := items[i]["kind"].(string)
		kj, _ := items[j]["kind"].(string)
		if ki != kj {
			return ki < kj
		}
		ni := metaStr(items[i], "namespace") + "/" + metaStr(items[i], "name")
		nj := metaStr(items[j], "namespace") + "/" + metaStr(items[j], "name")
		return ni < nj
	})
}
