package composite

import (
	"os"
	"testing"

	"github.com/go-logr/logr"
	metav1 "k8s.io/apimachinery/pkg/apis/meta/v1"
	"k8s.io/client-go/tools/cache"

	"metacontroller/pkg/apis/metacontroller/v1alpha1"
	"metacontroller/pkg/controller/common"
	vs "metacontroller/pkg/internal/verifsim"
)

// compositeCtl adapts a real parentController to the scenario runner.
type compositeCtl struct {
	pc *parentController
	q  *vs.RecQueue
	w  *vs.World
}

func (c *compositeCtl) Start()              { c.pc.Start() }
func (c *compositeCtl) Stop()               { c.pc.Stop() }
func (c *compositeCtl) ProcessOne()         { c.pc.processNextWorkItem() }
func (c *compositeCtl) Queue() *vs.RecQueue { return c.q }
func (c *compositeCtl) ParentStore() cache.Store {
	return c.pc.parentInformer.Informer().GetStore()
}
func (c *compositeCtl) Stores() []vs.InformerSpec {
	pr := c.pc.parentResource
	out := []vs.InformerSpec{{ResKey: pr.Name + "." + pr.Group, Store: c.pc.parentInformer.Informer().GetStore(), Synced: c.pc.parentInformer.Informer().HasSynced}}
	for gvr, ci := range c.pc.childInformers {
		out = append(out, vs.InformerSpec{ResKey: gvr.Resource + "." + gvr.Group, Store: ci.Informer().GetStore(), Synced: ci.Informer().HasSynced})
	}
	out = append(out, vs.InformerSpec{ResKey: "controllerrevisions.metacontroller.k8s.io", Store: c.w.RevInformer.GetStore(), Synced: c.w.RevInformer.HasSynced})
	return out
}

func (c *compositeCtl) SyncInfo(parent vs.Obj) vs.Obj {
	out := vs.Obj{"sel": vs.SelectorInfo(nil), "selOK": false, "marker": "", "fin": c.pc.finalizer.Name}
	if parent == nil {
		return out
	}
	if c.pc.isUsingGeneratedLabelSelector() {
		out["sel"] = vs.SelectorInfo(vs.Obj{"matchLabels": vs.Obj{"controller-uid": vs.AsStr(vs.AsMap(parent["metadata"])["uid"])}})
		out["selOK"] = true
		return out
	}
	sel := vs.AsMap(vs.AsMap(parent["spec"])["selector"])
	info := vs.SelectorInfo(sel)
	out["sel"] = info
	out["selOK"] = len(vs.AsMap(info["ml"])) > 0 || len(vs.AsList(info["me"])) > 0
	return out
}

func strp(s string) *string { return &s }
func boolp(b bool) *bool    { return &b }

func webhook(actor, hook string, cfg vs.Obj) *v1alpha1.Hook {
	url := "http://hook/" + actor + "/" + hook
	wh := &v1alpha1.Webhook{URL: &url}
	if vs.AsBool(cfg["etag"]) {
		wh.Etag = &v1alpha1.WebhookEtagConfig{Enabled: boolp(true)}
	}
	if vs.AsBool(cfg["strict"]) {
		m := v1alpha1.ResponseUnmarshallModeStrict
		wh.ResponseUnmarshallMode = &m
	}
	return &v1alpha1.Hook{Webhook: wh}
}

func labelSelector(v interface{}) *metav1.LabelSelector {
	m := vs.AsMap(v)
	sel := &metav1.LabelSelector{}
	if ml := vs.StrMapOf(m["matchLabels"]); len(ml) > 0 {
		sel.MatchLabels = ml
	}
	for _, e := range vs.AsList(m["matchExpressions"]) {
		em := vs.AsMap(e)
		req := metav1.LabelSelectorRequirement{Key: vs.AsStr(em["key"]), Operator: metav1.LabelSelectorOperator(vs.AsStr(em["operator"]))}
		for _, x := range vs.AsList(em["values"]) {
			req.Values = append(req.Values, vs.AsStr(x))
		}
		sel.MatchExpressions = append(sel.MatchExpressions, req)
	}
	return sel
}

func buildCC(sc *vs.Scenario, actor string) *v1alpha1.CompositeController {
	cfg := sc.Cfg
	name := vs.AsStr(cfg["name"])
	if name == "" {
		name = "cc"
	}
	parentRes := vs.AsStr(cfg["parentRes"])
	if parentRes == "" {
		parentRes = "parents"
	}
	cc := &v1alpha1.CompositeController{
		TypeMeta:   metav1.TypeMeta{APIVersion: "metacontroller.k8s.io/v1alpha1", Kind: "CompositeController"},
		ObjectMeta: metav1.ObjectMeta{Name: name, UID: "cc-uid"},
	}
	cc.Spec.ParentResource.APIVersion = "verif.example/v1"
	cc.Spec.ParentResource.Resource = parentRes
	if ps, ok := cfg["parentSel"]; ok {
		cc.Spec.ParentResource.LabelSelector = labelSelector(ps)
	}
	if fp := vs.AsList(cfg["fieldPaths"]); len(fp) > 0 {
		rh := &v1alpha1.CompositeControllerRevisionHistory{}
		for _, p := range fp {
			rh.FieldPaths = append(rh.FieldPaths, vs.AsStr(p))
		}
		cc.Spec.ParentResource.RevisionHistory = rh
	}
	if vs.AsBool(cfg["ignoreStatus"]) {
		cc.Spec.ParentResource.IgnoreStatusChanges = boolp(true)
	}
	if vs.AsBool(cfg["genSel"]) {
		cc.Spec.GenerateSelector = boolp(true)
	}
	for _, c := range vs.AsList(cfg["children"]) {
		cm := vs.AsMap(c)
		res := vs.AsStr(cm["res"])
		av := "verif.example/v1"
		if res == "configmaps" {
			av = "v1"
		}
		rule := v1alpha1.CompositeControllerChildResourceRule{ResourceRule: v1alpha1.ResourceRule{APIVersion: av, Resource: res}}
		method := vs.AsStr(cm["method"])
		if method != "" && method != "-" {
			us := &v1alpha1.CompositeControllerChildUpdateStrategy{Method: v1alpha1.ChildUpdateMethod(method)}
			for _, ck := range vs.AsList(cm["checks"]) {
				k := vs.AsMap(ck)
				chk := v1alpha1.StatusConditionCheck{Type: vs.AsStr(k["type"])}
				if s := vs.AsStr(k["status"]); s != "" {
					chk.Status = strp(s)
				}
				if s := vs.AsStr(k["reason"]); s != "" {
					chk.Reason = strp(s)
				}
				us.StatusChecks.Conditions = append(us.StatusChecks.Conditions, chk)
			}
			rule.UpdateStrategy = us
		}
		cc.Spec.ChildResources = append(cc.Spec.ChildResources, rule)
	}
	hooks := &v1alpha1.CompositeControllerHooks{}
	if _, off := cfg["noSyncHook"]; !off {
		hooks.Sync = webhook(actor, "sync", cfg)
	}
	if vs.AsBool(cfg["finalize"]) {
		hooks.Finalize = webhook(actor, "finalize", cfg)
	}
	if vs.AsBool(cfg["customize"]) {
		hooks.Customize = webhook(actor, "customize", cfg)
	}
	cc.Spec.Hooks = hooks
	return cc
}

func compositeFactory(w *vs.World, sc *vs.Scenario, actor string) (vs.Ctl, error) {
	cc := buildCC(sc, actor)
	ssa := &common.ApplyOptions{Strategy: common.ApplyStrategyDynamicApply}
	if vs.AsStr(sc.Cfg["apply"]) == "ssa" {
		ssa = &common.ApplyOptions{Strategy: common.ApplyStrategyServerSideApply, FieldManager: "metacontroller"}
	}
	pc, err := newParentController(w.Resources, w.DynClient, w.DynInformers, vs.NopRecorder{}, w.McClient, w.RevisionLister, cc, 0, ssa, logr.Discard())
	if err != nil {
		return nil, err
	}
	q := vs.NewRecQueue()
	pc.queue.ShutDown()
	pc.queue = q
	return &compositeCtl{pc: pc, q: q, w: w}, nil
}

// TestVerifReplay replays the scenarios of $VERIF_SCN on the real composite controller
// and writes the recorded trace to $VERIF_TRACE.
func TestVerifReplay(t *testing.T) {
	scn, out := os.Getenv("VERIF_SCN"), os.Getenv("VERIF_TRACE")
	if scn == "" || out == "" {
		t.Skip("VERIF_SCN / VERIF_TRACE not set")
	}
	scs, err := vs.ReadScenarios(scn)
	if err != nil {
		t.Fatalf("MACHINERY: %v", err)
	}
	tr, err := vs.NewTrace(out)
	if err != nil {
		t.Fatalf("MACHINERY: %v", err)
	}
	defer tr.Close()
	r := &vs.Runner{Trace: tr, Factory: compositeFactory, OnCrash: common.VerifResetMemo}
	for _, sc := range scs {
		if vs.AsStr(sc.Cfg["kind"]) == "decorator" {
			continue
		}
		if err := r.Run(sc); err != nil {
			tr.Close()
			t.Fatalf("MACHINERY: scenario %s: %v", sc.ID, err)
		}
	}
	t.Logf("replayed %d scenarios, drift steps %d", len(scs), r.Drift)
}
