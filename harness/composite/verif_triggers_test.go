package composite

// C14 / C15: trigger scenarios on the real composite controller.  The controller is built
// by the same factory as for every other family (real constructor, numWorkers = 0,
// Start() installs the REAL event handlers on the REAL shared informers, the work queue is
// a recording stand-in); events are delivered by the extended runner of verifsim.

import (
	"encoding/json"
	"fmt"
	"os"
	"testing"

	"k8s.io/apimachinery/pkg/apis/meta/v1/unstructured"
	"k8s.io/client-go/tools/cache"

	"metacontroller/pkg/controller/common"
	vs "metacontroller/pkg/internal/verifsim"
)

func selectorObj(v interface{}) vs.Obj {
	if v == nil {
		return vs.SelectorInfo(nil)
	}
	b, err := json.Marshal(v)
	if err != nil {
		return vs.SelectorInfo(nil)
	}
	var m vs.Obj
	if json.Unmarshal(b, &m) != nil {
		return vs.SelectorInfo(nil)
	}
	return vs.SelectorInfo(m)
}

// TrigCfg reports what the REAL controller object is configured with.
func (c *compositeCtl) TrigCfg() vs.Obj {
	pr := c.pc.parentResource
	kinds := []interface{}{}
	for gvr := range c.pc.childInformers {
		if r := c.w.Resources.Get(gvr.GroupVersion().String(), gvr.Resource); r != nil {
			kinds = append(kinds, r.Kind)
		}
	}
	csel := vs.SelectorInfo(nil)
	if ls := c.pc.cc.Spec.ParentResource.LabelSelector; ls != nil {
		csel = selectorObj(ls)
	}
	ign := c.pc.cc.Spec.ParentResource.IgnoreStatusChanges
	return vs.Obj{"kind": "composite", "pkind": pr.Kind, "pav": pr.APIVersion, "pNs": pr.Namespaced,
		"genSel": c.pc.isUsingGeneratedLabelSelector(), "ignoreStatus": ign != nil && *ign,
		"fin": c.pc.finalizer.Name, "csel": csel, "casel": vs.SelectorInfo(nil), "childKinds": kinds,
		"customize": c.pc.customize.IsEnabled()}
}

// ParseKey parses a queued key the way sync() does.
func (c *compositeCtl) ParseKey(key string) vs.Obj {
	ns, name, err := cache.SplitMetaNamespaceKey(key)
	pr := c.pc.parentResource
	return vs.Obj{"key": key, "ok": err == nil, "ns": ns, "name": name, "av": pr.APIVersion, "kind": pr.Kind}
}

func (c *compositeCtl) ParentSel(parent vs.Obj) vs.Obj {
	return vs.SelectorInfo(vs.AsMap(vs.AsMap(parent["spec"])["selector"]))
}

// Direct hands a shape the watch cannot produce on demand to the handler function that
// Start() registered for that role.
func (c *compositeCtl) Direct(role, typ string, obj *unstructured.Unstructured) error {
	key, err := cache.MetaNamespaceKeyFunc(obj)
	if err != nil {
		return err
	}
	switch role + "/" + typ {
	case "parent/tombstone":
		c.pc.enqueueParentObject(cache.DeletedFinalStateUnknown{Key: key, Obj: obj}) // DeleteFunc of the parent handlers
	case "parent/resync":
		c.pc.updateParentObject(obj, obj)
	case "child/tombstone":
		c.pc.onChildDelete(cache.DeletedFinalStateUnknown{Key: key, Obj: obj})
	case "child/resync":
		c.pc.onChildUpdate(obj, obj)
	default:
		return fmt.Errorf("direct: unsupported %s/%s", role, typ)
	}
	return nil
}

var _ vs.ExtCtl = (*compositeCtl)(nil)

// TestVerifTriggers replays the trigger scenarios of $VERIF_SCN (C14, C15).
func TestVerifTriggers(t *testing.T) {
	scn, out := os.Getenv("VERIF_SCN"), os.Getenv("VERIF_TRACE")
	if scn == "" || out == "" {
		t.Skip("VERIF_SCN / VERIF_TRACE not set")
	}
	scs, err := vs.ReadScenarios(scn)
	if err != nil {
		t.Fatalf("MACHINERY: %v", err)
	}
	tr, err := vs.NewTrace(out)
	if err != nil {
		t.Fatalf("MACHINERY: %v", err)
	}
	defer tr.Close()
	r := &vs.Runner{Trace: tr, Factory: compositeFactory, OnCrash: common.VerifResetMemo}
	n := 0
	for _, sc := range scs {
		if vs.AsStr(sc.Cfg["kind"]) == "decorator" {
			continue
		}
		if err := r.RunExt(sc); err != nil {
			tr.Close()
			t.Fatalf("MACHINERY: scenario %s: %v", sc.ID, err)
		}
		n++
	}
	t.Logf("replayed %d trigger scenarios", n)
}
