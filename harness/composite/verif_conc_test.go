package composite

import (
	"encoding/json"
	"fmt"
	"os"
	"sort"
	"strconv"
	"sync/atomic"
	"testing"
	"time"

	"github.com/go-logr/logr"

	"metacontroller/pkg/controller/common"
	vs "metacontroller/pkg/internal/verifsim"
)

// TestVerifConcurrent runs the concurrency shapes spec/Threads.tla names (several workers
// on distinct parents sharing child, related and revision informers; rolling syncs with two
// live revisions, i.e. parallel per-revision hook calls; customize hook on) freely -- no
// scheduler gate -- so that the Go race detector can observe unsynchronised accesses, and
// records the final store for the serial-equivalence oracle.
func TestVerifConcurrent(t *testing.T) {
	scn, out := os.Getenv("VERIF_SCN"), os.Getenv("VERIF_TRACE")
	if scn == "" || out == "" {
		t.Skip("VERIF_SCN / VERIF_TRACE not set")
	}
	scs, err := vs.ReadScenarios(scn)
	if err != nil {
		t.Fatalf("MACHINERY: %v", err)
	}
	f, err := os.Create(out)
	if err != nil {
		t.Fatalf("MACHINERY: %v", err)
	}
	defer f.Close()
	enc := json.NewEncoder(f)
	for _, sc := range scs {
		for _, workers := range []int{vs.AsInt(sc.Cfg["workers"]), 1} {
			final, syncs, err := runConcurrent(sc, workers)
			if err != nil {
				t.Fatalf("MACHINERY: scenario %s: %v", sc.ID, err)
			}
			enc.Encode(vs.Obj{"ev": "ConcRun", "sc": sc.ID, "workers": workers, "final": final, "hookCalls": syncs})
		}
	}
}

func concHooks(srv *vs.Server, sc *vs.Scenario, calls *int64Counter) vs.HookHandler {
	return func(c *vs.HookCall) vs.HookReply {
		n := calls.n.Add(1)
		parts := splitPath(c.Path)
		hook := ""
		if len(parts) >= 2 {
			hook = parts[1]
		}
		prog := vs.AsMap(sc.Hook[hook])
		// failBurst k: of every 16k consecutive hook calls the first k fail (the parallel per-revision calls of one sync
		// then fail together now and then: error paths run concurrently too)
		if k := int64(vs.AsInt(prog["failBurst"])); k > 0 && hook != "customize" && n%(16*k) < k {
			return vs.HookReply{Status: 500, Body: []byte(`{"injected":true}`)}
		}
		// failWhen {field, value, times}: the first `times` calls about a parent whose spec.<field> has that value fail --
		// with a non-revisioned field ALL per-revision calls of the same sync fail together
		if fw := vs.AsMap(prog["failWhen"]); len(fw) > 0 && hook != "customize" {
			ps := vs.AsMap(vs.AsMap(c.Req["parent"])["spec"])
			if vs.AsStr(ps[vs.AsStr(fw["field"])]) == vs.AsStr(fw["value"]) && calls.fails.Add(1) <= int64(vs.AsInt(fw["times"])) {
				return vs.HookReply{Status: 500, Body: []byte(`{"injected":true}`)}
			}
		}
		return srv.RunHookProg(prog, c.Req)
	}
}

type int64Counter struct {
	ch    chan struct{}
	n     atomic.Int64
	fails atomic.Int64
}

func (c *int64Counter) inc() { c.n.Add(1) }
func (c *int64Counter) run() {}

func splitPath(p string) []string {
	var out []string
	cur := ""
	for _, r := range p {
		if r == '/' {
			if cur != "" {
				out = append(out, cur)
			}
			cur = ""
		} else {
			cur += string(r)
		}
	}
	if cur != "" {
		out = append(out, cur)
	}
	return out
}

func runConcurrent(sc *vs.Scenario, workers int) ([]interface{}, int64, error) {
	tr, _ := vs.NewTrace("")
	srv := vs.NewServer(vs.DefaultResources(), tr)
	calls := &int64Counter{ch: make(chan struct{}, 1024)}
	go calls.run()
	vs.InstallHooks().Set(concHooks(srv, sc, calls))
	defer vs.GlobalHooks.Set(nil)
	common.VerifResetMemo()
	for _, o := range sc.Objs {
		resKey, obj := srv.BuildObject(vs.AsMap(o))
		if _, code := srv.Seed(resKey, obj); code != 201 {
			return nil, 0, fmt.Errorf("seed failed: %d", code)
		}
	}
	w, err := vs.NewWorld(srv, "A", 0)
	if err != nil {
		return nil, 0, err
	}
	defer w.Stop()
	cc := buildCC(sc, "A")
	ssa := &common.ApplyOptions{Strategy: common.ApplyStrategyDynamicApply}
	if vs.AsStr(sc.Cfg["apply"]) == "ssa" {
		ssa = &common.ApplyOptions{Strategy: common.ApplyStrategyServerSideApply, FieldManager: "metacontroller"}
	}
	pc, err := newParentController(w.Resources, w.DynClient, w.DynInformers, vs.NopRecorder{}, w.McClient, w.RevisionLister, cc, workers, ssa, logr.Discard())
	if err != nil {
		return nil, 0, err
	}
	pc.Start()
	quiesce := func() error {
		// quiescent = queue empty and the store has not changed for a while
		deadline := time.Now().Add(60 * time.Second)
		last, since := srv.RV(), time.Now()
		for time.Now().Before(deadline) {
			time.Sleep(5 * time.Millisecond)
			if rv := srv.RV(); rv != last || pc.queue.Len() > 0 {
				last, since = rv, time.Now()
				continue
			}
			if time.Since(since) > 400*time.Millisecond {
				return nil
			}
		}
		return fmt.Errorf("no quiescence within a minute (dead driver)")
	}
	if err := quiesce(); err != nil {
		return nil, 0, err
	}
	// the waves of environment changes of the scenario; each followed by quiescence
	for _, st := range sc.Sched {
		sm := vs.AsMap(st)
		if vs.AsStr(sm["s"]) != "env" {
			continue
		}
		op := vs.EnvOp{Op: vs.AsStr(sm["op"]), ResKey: vs.ResKeyOf(vs.AsStr(sm["res"])), NS: "ns1", Name: vs.AsStr(sm["name"])}
		for _, p := range vs.AsList(sm["path"]) {
			op.Path = append(op.Path, vs.AsStr(p))
		}
		op.Value = sm["value"]
		if l, ok := sm["labels"]; ok {
			op.Labels = vs.StrMapOf(l)
		}
		srv.Env(op)
		if vs.AsBool(sm["wait"]) {
			if err := quiesce(); err != nil {
				return nil, 0, err
			}
		}
	}
	if err := quiesce(); err != nil {
		return nil, 0, err
	}
	pc.Stop()
	// final store, normalised (resourceVersions, generated uids and generations depend on the order of writes)
	var final []interface{}
	for _, x := range srv.Dump() {
		o := x.(vs.Obj)
		delete(o, "rv")
		delete(o, "gen")
		delete(o, "uid")
		if st, ok := o["status"].(vs.Obj); ok {
			delete(st, "observedGeneration")
		}
		owners, _ := o["owners"].([]interface{})
		for _, ow := range owners {
			delete(ow.(vs.Obj), "uid")
		}
		o["ctrl"] = strconv.FormatBool(o["ctrl"] != "")
		if o["kind"] == "ControllerRevision" {
			o["name"] = "rev"
			claims, _ := o["claims"].([]interface{})
			for _, c := range claims {
				names, _ := c.(vs.Obj)["names"].([]interface{})
				sort.Slice(names, func(i, j int) bool { return names[i].(string) < names[j].(string) })
			}
		}
		final = append(final, o)
	}
	return final, calls.n.Load(), nil
}
