package composite

// C20 harness (composite half): drives the REAL Metacontroller.Reconcile with
// controller-runtime's fake client holding the CompositeController objects and the parent
// CRDs; everything else (discovery, dynamic clients, shared informer factory, hosted
// controllers with real workers, webhook executors) is the real code over the simulated
// API server.  The shared driver is verifsim.RunLifecycle; this file only builds objects
// and exposes the reconciler's map.

import (
	"context"
	"fmt"
	"os"
	"testing"

	"github.com/go-logr/logr"
	apiextensionsv1 "k8s.io/apiextensions-apiserver/pkg/apis/apiextensions/v1"
	metav1 "k8s.io/apimachinery/pkg/apis/meta/v1"
	"k8s.io/apimachinery/pkg/runtime"
	"k8s.io/apimachinery/pkg/types"
	"sigs.k8s.io/controller-runtime/pkg/client"
	"sigs.k8s.io/controller-runtime/pkg/client/fake"
	"sigs.k8s.io/controller-runtime/pkg/reconcile"

	"metacontroller/pkg/apis/metacontroller/v1alpha1"
	"metacontroller/pkg/controller/common"
	vs "metacontroller/pkg/internal/verifsim"
)

type lifeComposite struct {
	mc   *Metacontroller
	cl   client.Client
	sids map[string]string // canonical spec JSON -> scenario spec id
	tick int
}

func lifeCRD(plural, kind string, status, namespaced bool) *apiextensionsv1.CustomResourceDefinition {
	v := apiextensionsv1.CustomResourceDefinitionVersion{Name: "v1", Served: true, Storage: true}
	if status {
		v.Subresources = &apiextensionsv1.CustomResourceSubresources{Status: &apiextensionsv1.CustomResourceSubresourceStatus{}}
	}
	scope := apiextensionsv1.ClusterScoped
	if namespaced {
		scope = apiextensionsv1.NamespaceScoped
	}
	return &apiextensionsv1.CustomResourceDefinition{
		ObjectMeta: metav1.ObjectMeta{Name: plural + ".verif.example"},
		Spec: apiextensionsv1.CustomResourceDefinitionSpec{Group: "verif.example", Scope: scope,
			Names:    apiextensionsv1.CustomResourceDefinitionNames{Plural: plural, Kind: kind},
			Versions: []apiextensionsv1.CustomResourceDefinitionVersion{v}},
	}
}

func newLifeComposite(w *vs.World, srv *vs.Server) vs.LifeAdapter {
	scheme := runtime.NewScheme()
	if err := v1alpha1.AddToScheme(scheme); err != nil {
		panic("MACHINERY: " + err.Error())
	}
	if err := apiextensionsv1.AddToScheme(scheme); err != nil {
		panic("MACHINERY: " + err.Error())
	}
	cl := fake.NewClientBuilder().WithScheme(scheme).WithObjects(
		lifeCRD("parents", "Parent", true, true),
		lifeCRD("cparents", "CParent", true, false),
		lifeCRD("nostatus", "NoStatus", false, true),
	).Build()
	mc := &Metacontroller{
		k8sClient:         cl,
		resources:         w.Resources,
		dynClient:         w.DynClient,
		dynInformers:      w.DynInformers,
		eventRecorder:     vs.NopRecorder{},
		mcClient:          w.McClient,
		revisionLister:    w.RevisionLister,
		revisionInformer:  w.RevInformer,
		parentControllers: make(map[string]*parentController),
		numWorkers:        vs.LifeWorkers(),
		ssaOptions:        &common.ApplyOptions{Strategy: common.ApplyStrategyDynamicApply},
		logger:            logr.Discard(),
	}
	return &lifeComposite{mc: mc, cl: cl, sids: map[string]string{}}
}

func lifeCompositeSpec(name string, t vs.Obj) v1alpha1.CompositeControllerSpec {
	tag := vs.AsInt(t["tag"])
	var spec v1alpha1.CompositeControllerSpec
	av, res, _ := vs.LifeResource(vs.AsStr(t["par"]))
	spec.ParentResource.APIVersion, spec.ParentResource.Resource = av, res
	spec.ParentResource.LabelSelector = vs.LifeSelector(vs.AsStr(t["sel"]))
	yes := true
	spec.GenerateSelector = &yes
	for _, k := range vs.AsList(t["kids"]) {
		cav, cres, _ := vs.LifeResource(vs.AsStr(k))
		rule := v1alpha1.CompositeControllerChildResourceRule{ResourceRule: v1alpha1.ResourceRule{APIVersion: cav, Resource: cres}}
		if vs.AsBool(t["strat"]) {
			rule.UpdateStrategy = &v1alpha1.CompositeControllerChildUpdateStrategy{Method: v1alpha1.ChildUpdateInPlace}
		}
		spec.ChildResources = append(spec.ChildResources, rule)
	}
	if vs.AsStr(t["hooks"]) != "nil" {
		h := &v1alpha1.CompositeControllerHooks{Sync: vs.LifeHook(vs.AsMap(t["sync"]), name, tag, "sync")}
		switch vs.AsStr(t["cust"]) {
		case "ok":
			h.Customize = vs.LifePlainHook(name, tag, "customize")
		case "bad":
			h.Customize = vs.LifeBadHook()
		}
		switch vs.AsStr(t["fin"]) {
		case "ok":
			h.Finalize = vs.LifePlainHook(name, tag, "finalize")
		case "bad":
			h.Finalize = vs.LifeBadHook()
		}
		spec.Hooks = h
	}
	return spec
}

func (a *lifeComposite) Apply(t, name, sid string, traits vs.Obj) error {
	ctx := context.Background()
	key := types.NamespacedName{Name: name}
	switch t {
	case "create":
		cc := &v1alpha1.CompositeController{ObjectMeta: metav1.ObjectMeta{Name: name, UID: types.UID("uid-" + name)}}
		cc.Spec = lifeCompositeSpec(name, traits)
		a.sids[vs.LifeSpecKey(cc.Spec)] = sid
		return a.cl.Create(ctx, cc)
	case "update":
		cc := &v1alpha1.CompositeController{}
		if err := a.cl.Get(ctx, key, cc); err != nil {
			return err
		}
		cc.Spec = lifeCompositeSpec(name, traits)
		a.sids[vs.LifeSpecKey(cc.Spec)] = sid
		return a.cl.Update(ctx, cc)
	case "noop":
		cc := &v1alpha1.CompositeController{}
		if err := a.cl.Get(ctx, key, cc); err != nil {
			return err
		}
		a.tick++
		if cc.Annotations == nil {
			cc.Annotations = map[string]string{}
		}
		cc.Annotations["verif/touch"] = fmt.Sprint(a.tick)
		cc.Labels = map[string]string{"touched": fmt.Sprint(a.tick)}
		return a.cl.Update(ctx, cc)
	case "delete":
		cc := &v1alpha1.CompositeController{}
		if err := a.cl.Get(ctx, key, cc); err != nil {
			return err
		}
		return a.cl.Delete(ctx, cc)
	}
	return fmt.Errorf("unknown event %q", t)
}

func (a *lifeComposite) Reconcile(name string) error {
	_, err := a.mc.Reconcile(context.Background(), reconcile.Request{NamespacedName: types.NamespacedName{Name: name}})
	return err
}

func (a *lifeComposite) Running() map[string]vs.LifeInst {
	out := map[string]vs.LifeInst{}
	for name, pc := range a.mc.parentControllers {
		sp := pc.cc.Spec
		in := vs.LifeInst{Ref: pc, QLen: pc.queue.Len(), Sid: "?"}
		if sid, ok := a.sids[vs.LifeSpecKey(sp)]; ok {
			in.Sid = sid
		}
		if sp.Hooks != nil {
			in.Tag = vs.LifeTagOf(sp.Hooks.Sync)
		}
		in.Parent = vs.LifeResKey(sp.ParentResource.APIVersion, sp.ParentResource.Resource)
		in.Uses = append(in.Uses, in.Parent)
		for _, c := range sp.ChildResources {
			in.Uses = append(in.Uses, vs.LifeResKey(c.APIVersion, c.Resource))
		}
		if sp.Hooks != nil && sp.Hooks.Customize != nil {
			in.Uses = append(in.Uses, vs.LifeResources[2])
		}
		out[name] = in
	}
	return out
}

func (a *lifeComposite) StopAll() {
	for name, pc := range a.mc.parentControllers {
		func() {
			defer func() { _ = recover() }()
			pc.Stop()
		}()
		delete(a.mc.parentControllers, name)
	}
}

func init() { vs.RegisterLifeAdapter("composite", newLifeComposite) }

// TestVerifLifecycle replays the C20 scenarios of $VERIF_SCN on the real composite
// reconciler and writes the observations to $VERIF_TRACE.
func TestVerifLifecycle(t *testing.T) {
	scn, out := os.Getenv("VERIF_SCN"), os.Getenv("VERIF_TRACE")
	if scn == "" || out == "" {
		t.Skip("VERIF_SCN / VERIF_TRACE not set")
	}
	n, err := vs.RunLifecycle(scn, out)
	if err != nil {
		t.Fatalf("MACHINERY: %v", err)
	}
	t.Logf("replayed %d lifecycle scenarios", n)
}
