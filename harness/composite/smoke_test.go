package composite

import (
	"encoding/json"
	"fmt"
	"testing"
	"time"

	"github.com/go-logr/logr"
	metav1 "k8s.io/apimachinery/pkg/apis/meta/v1"

	"metacontroller/pkg/apis/metacontroller/v1alpha1"
	"metacontroller/pkg/controller/common"
	vs "metacontroller/pkg/internal/verifsim"
)

func TestVerifSmoke(t *testing.T) {
	tr, _ := vs.NewTrace("")
	srv := vs.NewServer(vs.DefaultResources(), tr)
	hooks := vs.InstallHooks()
	hooks.Set(func(c *vs.HookCall) vs.HookReply {
		body := `{"status":{"n":1},"children":[{"apiVersion":"verif.example/v1","kind":"Thing","metadata":{"name":"a","labels":{"app":"x"}},"spec":{"f1":"v1"}}]}`
		return vs.HookReply{Status: 200, Body: []byte(body)}
	})
	srv.Seed("parents.verif.example", vs.Obj{"apiVersion": "verif.example/v1", "kind": "Parent",
		"metadata": vs.Obj{"name": "p", "namespace": "ns1", "uid": "preset-p1"},
		"spec":     vs.Obj{"selector": vs.Obj{"matchLabels": vs.Obj{"app": "x"}}}})
	w, err := vs.NewWorld(srv, "A", 0)
	if err != nil {
		t.Fatal(err)
	}
	defer w.Stop()
	url := "http://hook/sync"
	method := v1alpha1.ChildUpdateInPlace
	cc := &v1alpha1.CompositeController{
		ObjectMeta: metav1.ObjectMeta{Name: "cc"},
		Spec: v1alpha1.CompositeControllerSpec{
			ParentResource: v1alpha1.CompositeControllerParentResourceRule{ResourceRule: v1alpha1.ResourceRule{APIVersion: "verif.example/v1", Resource: "parents"}},
			ChildResources: []v1alpha1.CompositeControllerChildResourceRule{{ResourceRule: v1alpha1.ResourceRule{APIVersion: "verif.example/v1", Resource: "things"},
				UpdateStrategy: &v1alpha1.CompositeControllerChildUpdateStrategy{Method: method}}},
			Hooks: &v1alpha1.CompositeControllerHooks{Sync: &v1alpha1.Hook{Webhook: &v1alpha1.Webhook{URL: &url}}},
		},
	}
	pc, err := newParentController(w.Resources, w.DynClient, w.DynInformers, vs.NopRecorder{}, w.McClient, w.RevisionLister, cc, 0,
		&common.ApplyOptions{Strategy: common.ApplyStrategyDynamicApply}, logr.Discard())
	if err != nil {
		t.Fatal(err)
	}
	pc.Start()
	specs := []vs.InformerSpec{{ResKey: "parents.verif.example", Store: pc.parentInformer.Informer().GetStore(), Synced: pc.parentInformer.Informer().HasSynced}}
	for _, ci := range pc.childInformers {
		specs = append(specs, vs.InformerSpec{ResKey: "things.verif.example", Store: ci.Informer().GetStore(), Synced: ci.Informer().HasSynced})
	}
	t0 := time.Now()
	for i := 0; i < 3; i++ {
		if err := w.WaitCaches(specs, 5*time.Second); err != nil {
			t.Fatal(err)
		}
		err := pc.sync("ns1/p")
		fmt.Println("sync", i, "err", err)
	}
	fmt.Println("elapsed", time.Since(t0))
	for _, ev := range tr.Events() {
		b, _ := json.Marshal(ev)
		s := string(b)
		if len(s) > 400 {
			s = s[:400]
		}
		fmt.Println(s)
	}
	pc.Stop()
}
