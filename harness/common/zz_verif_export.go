package common

// Overlay-only export (never committed to /repo): lets the harness model a process
// restart, which empties the process-wide server-side-apply memo.
func VerifResetMemo() {
	cacheLock.Lock()
	lastUpdatedCache = make(map[string]*lastUpdate)
	cacheLock.Unlock()
}

// VerifMemoSize reports the number of memo entries.
func VerifMemoSize() int {
	cacheLock.RLock()
	defer cacheLock.RUnlock()
	return len(lastUpdatedCache)
}
