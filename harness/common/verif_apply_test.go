package common

// Overlay-only harness for property C05 (never committed to /repo).
//
// Reads merge cases (ndjson, one per line, $VERIF_SCN) that TLC printed from
// spec/MC_Merge*.cfg (or that lib/fam_merge.py generated at random), runs the REAL
// apply.Merge and the REAL ApplyUpdate on each, and writes one ndjson line per case to
// $VERIF_TRACE.  Nothing is judged here except what TLA+ cannot observe: panics
// (recover), mutation of the inputs (reflect.DeepEqual against pre-copies) and the
// "no write" decision of the second application (the package's own DeepEqual, which is
// what ManageChildren uses to decide whether to write).  Every law of the property is
// evaluated by TLC (spec/TraceMerge.tla) on the results recorded here.
//
// JSON values travel as TAGGED trees (TLC cannot compare strings with integers and its
// Json module rejects null):
//   {"t":"z"} null          {"t":"n"} absent (no value)
//   {"t":"s","s":"x"} string   {"t":"i","s":"1"} number   {"t":"b","s":"true"} bool
//   {"t":"m","f":{key: value, ...}} object                {"t":"l","v":[items]} array
// A nil []interface{} inside a result (apply.mergeArray returns one when desired is not an
// array; it is null on the wire but not DeepEqual to an empty array) is recorded as
// {"t":"l","v":[],"z":true}.

import (
	"bufio"
	"encoding/json"
	"fmt"
	"os"
	"reflect"
	"strconv"
	"testing"

	"k8s.io/apimachinery/pkg/apis/meta/v1/unstructured"
	"k8s.io/apimachinery/pkg/runtime"
	k8sjson "k8s.io/apimachinery/pkg/util/json"

	dynamicapply "metacontroller/pkg/dynamic/apply"
)

type vTag struct {
	T string           `json:"t"`
	S *string          `json:"s,omitempty"`
	F map[string]*vTag `json:"f,omitempty"`
	V []*vTag          `json:"v,omitempty"`
}

type vCase struct {
	ID  string `json:"id"`
	Fam string `json:"fam"`
	O   *vTag  `json:"o"`
	L   *vTag  `json:"l"`
	D   *vTag  `json:"d"`
}

func vStr(s string) *string { return &s }

// vFromTag builds the Go value the way the decoders of the real system would
// (k8s json: integers are int64, other numbers float64).
func vFromTag(t *vTag) interface{} {
	switch t.T {
	case "z", "n":
		return nil
	case "s":
		return *t.S
	case "b":
		return *t.S == "true"
	case "i":
		if n, err := strconv.ParseInt(*t.S, 10, 64); err == nil {
			return n
		}
		f, err := strconv.ParseFloat(*t.S, 64)
		if err != nil {
			panic("bad number in case: " + *t.S)
		}
		return f
	case "m":
		m := make(map[string]interface{}, len(t.F))
		for k, x := range t.F {
			m[k] = vFromTag(x)
		}
		return m
	case "l":
		l := make([]interface{}, 0, len(t.V))
		for _, x := range t.V {
			l = append(l, vFromTag(x))
		}
		return l
	}
	panic("bad tag " + t.T)
}

func vToTag(v interface{}) map[string]interface{} {
	switch x := v.(type) {
	case nil:
		return map[string]interface{}{"t": "z"}
	case string:
		return map[string]interface{}{"t": "s", "s": x}
	case bool:
		return map[string]interface{}{"t": "b", "s": strconv.FormatBool(x)}
	case int64:
		return map[string]interface{}{"t": "i", "s": strconv.FormatInt(x, 10)}
	case int:
		return map[string]interface{}{"t": "i", "s": strconv.Itoa(x)}
	case float64:
		return map[string]interface{}{"t": "i", "s": strconv.FormatFloat(x, 'g', -1, 64)}
	case map[string]interface{}:
		if x == nil {
			return map[string]interface{}{"t": "z"}
		}
		f := make(map[string]interface{}, len(x))
		for k, e := range x {
			f[k] = vToTag(e)
		}
		return map[string]interface{}{"t": "m", "f": f}
	case []interface{}:
		if x == nil {
			return map[string]interface{}{"t": "l", "v": []interface{}{}, "z": true}
		}
		vals := make([]interface{}, 0, len(x))
		for _, e := range x {
			vals = append(vals, vToTag(e))
		}
		return map[string]interface{}{"t": "l", "v": vals}
	}
	return map[string]interface{}{"t": "s", "s": fmt.Sprintf("<%T>", v)}
}

var vAbsent = map[string]interface{}{"t": "n"}

func vAsMap(t *vTag) map[string]interface{} {
	if t == nil || t.T != "m" {
		return nil
	}
	return vFromTag(t).(map[string]interface{})
}

// one guarded call: never lets a panic of the code under test kill the batch
func vGuard(f func()) (panicked string) {
	defer func() {
		if r := recover(); r != nil {
			panicked = fmt.Sprint(r)
			if panicked == "" {
				panicked = "panic"
			}
		}
	}()
	f()
	return ""
}

func vCopy(m map[string]interface{}) map[string]interface{} {
	if m == nil {
		return nil
	}
	return runtime.DeepCopyJSON(m)
}

func vErrStr(err error) string {
	if err == nil {
		return ""
	}
	s := err.Error()
	if len(s) > 160 {
		s = s[:160]
	}
	if s == "" {
		s = "error"
	}
	return s
}

// ---- Merge level --------------------------------------------------------------------

func vRunMerge(c *vCase) map[string]interface{} {
	o, l, d := vAsMap(c.O), vAsMap(c.L), vAsMap(c.D)
	o0, l0, d0 := vCopy(o), vCopy(l), vCopy(d)
	out := map[string]interface{}{"r": vAbsent, "err": "", "panic": "", "pure": true,
		"err2": "", "same2": true, "r2": vAbsent}
	var r1 map[string]interface{}
	var err error
	out["panic"] = vGuard(func() { r1, err = dynamicapply.Merge(o, l, d) })
	out["err"] = vErrStr(err)
	pure := reflect.DeepEqual(o, o0) && reflect.DeepEqual(l, l0) && reflect.DeepEqual(d, d0)
	if out["panic"] == "" && err == nil {
		out["r"] = vToTag(r1)
		// second application: the last-applied record is now the desired state
		r1c := vCopy(r1)
		var r2 map[string]interface{}
		var err2 error
		p2 := vGuard(func() { r2, err2 = dynamicapply.Merge(r1, d, d) })
		if p2 != "" {
			out["panic"] = "second application: " + p2
		}
		out["err2"] = vErrStr(err2)
		if p2 == "" && err2 == nil {
			same := DeepEqual(r2, r1c)
			out["same2"] = same
			if !same {
				out["r2"] = vToTag(r2)
			}
		}
		pure = pure && reflect.DeepEqual(r1, r1c) && reflect.DeepEqual(d, d0)
	}
	out["pure"] = pure
	return out
}

// ---- ApplyUpdate level ----------------------------------------------------------------

// vOrig builds the observed child: the observed tree plus the last-applied record where
// the real system keeps it (metadata.annotations).  ok=false when the tree has no room
// for an annotation (metadata or annotations present but not objects).
func vOrig(o, l map[string]interface{}, hasLast bool) (*unstructured.Unstructured, bool) {
	obj := vCopy(o)
	if obj == nil {
		obj = map[string]interface{}{}
	}
	if hasLast {
		md, present := obj["metadata"]
		if !present {
			md = map[string]interface{}{}
			obj["metadata"] = md
		}
		mdm, ok := md.(map[string]interface{})
		if !ok {
			return &unstructured.Unstructured{Object: obj}, false
		}
		an, present := mdm["annotations"]
		if !present {
			an = map[string]interface{}{}
			mdm["annotations"] = an
		}
		anm, ok := an.(map[string]interface{})
		if !ok {
			return &unstructured.Unstructured{Object: obj}, false
		}
		raw, err := k8sjson.Marshal(l)
		if err != nil {
			return &unstructured.Unstructured{Object: obj}, false
		}
		anm[dynamicapply.LastAppliedAnnotation] = string(raw)
	}
	return &unstructured.Unstructured{Object: obj}, true
}

func vLastAppliedOf(u *unstructured.Unstructured) map[string]interface{} {
	md, ok := u.Object["metadata"].(map[string]interface{})
	if !ok {
		return vAbsent
	}
	an, ok := md["annotations"].(map[string]interface{})
	if !ok {
		return vAbsent
	}
	s, ok := an[dynamicapply.LastAppliedAnnotation].(string)
	if !ok {
		return vAbsent
	}
	var m map[string]interface{}
	if err := k8sjson.Unmarshal([]byte(s), &m); err != nil {
		return map[string]interface{}{"t": "s", "s": "unparsable: " + s}
	}
	return vToTag(m)
}

func vRunApply(c *vCase) map[string]interface{} {
	out := map[string]interface{}{"ran": false, "r": vAbsent, "err": "", "panic": "", "pureO": true, "pureD": true,
		"la": vAbsent, "err2": "", "same2": true, "r2": vAbsent, "dAfter": vAbsent}
	o, l, d := vAsMap(c.O), vAsMap(c.L), vAsMap(c.D)
	hasLast := c.L != nil && c.L.T == "m"
	orig, ok := vOrig(o, l, hasLast)
	if !ok {
		return out
	}
	out["ran"] = true
	update := &unstructured.Unstructured{Object: vCopy(d)}
	if update.Object == nil {
		update.Object = map[string]interface{}{}
	}
	orig0, update0 := vCopy(orig.Object), vCopy(update.Object)
	var r1 *unstructured.Unstructured
	var err error
	out["panic"] = vGuard(func() { r1, err = ApplyUpdate(orig, update) })
	out["err"] = vErrStr(err)
	out["pureO"] = reflect.DeepEqual(orig.Object, orig0)
	out["pureD"] = reflect.DeepEqual(update.Object, update0)
	if out["pureD"] == false {
		out["dAfter"] = vToTag(update.Object)
	}
	if out["panic"] == "" && err == nil && r1 != nil {
		out["r"] = vToTag(r1.Object)
		out["la"] = vLastAppliedOf(r1)
		r1c := vCopy(r1.Object)
		// re-apply the same desired state (a fresh copy, as a new hook response would be)
		update2 := &unstructured.Unstructured{Object: vCopy(update0)}
		var r2 *unstructured.Unstructured
		var err2 error
		p2 := vGuard(func() { r2, err2 = ApplyUpdate(r1, update2) })
		if p2 != "" {
			out["panic"] = "second application: " + p2
		}
		out["err2"] = vErrStr(err2)
		if p2 == "" && err2 == nil && r2 != nil {
			// exactly the test ManageChildren uses to decide whether to write
			same := DeepEqual(r2.UnstructuredContent(), r1c)
			out["same2"] = same
			if !same {
				out["r2"] = vToTag(r2.Object)
			}
		}
		if !reflect.DeepEqual(r1.Object, r1c) {
			out["pureO"] = false
		}
	}
	return out
}

func TestVerifMerge(t *testing.T) {
	scn, trc := os.Getenv("VERIF_SCN"), os.Getenv("VERIF_TRACE")
	if scn == "" || trc == "" {
		t.Skip("VERIF_SCN / VERIF_TRACE not set")
	}
	in, err := os.Open(scn)
	if err != nil {
		t.Fatal(err)
	}
	defer in.Close()
	outf, err := os.Create(trc)
	if err != nil {
		t.Fatal(err)
	}
	defer outf.Close()
	w := bufio.NewWriterSize(outf, 1<<20)
	defer w.Flush()
	sc := bufio.NewScanner(in)
	sc.Buffer(make([]byte, 1<<20), 1<<26)
	enc := json.NewEncoder(w)
	i := 0
	for sc.Scan() {
		line := sc.Bytes()
		if len(line) == 0 {
			continue
		}
		var c vCase
		if err := json.Unmarshal(line, &c); err != nil {
			t.Fatalf("bad case line %d: %v", i+1, err)
		}
		if c.O == nil || c.L == nil || c.D == nil || c.O.T != "m" || c.D.T != "m" || (c.L.T != "m" && c.L.T != "n") {
			t.Fatalf("case %s: o and d must be objects, l an object or absent", c.ID)
		}
		i++
		var raw map[string]json.RawMessage
		_ = json.Unmarshal(line, &raw)
		rec := map[string]interface{}{"ev": "Case", "sc": c.ID, "i": i, "fam": c.Fam,
			"o": raw["o"], "l": raw["l"], "d": raw["d"],
			"m": vRunMerge(&c), "a": vRunApply(&c)}
		if err := enc.Encode(rec); err != nil {
			t.Fatal(err)
		}
	}
	if err := sc.Err(); err != nil {
		t.Fatal(err)
	}
}
