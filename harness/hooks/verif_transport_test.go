package hooks

// Replay harness for property C19 (hook transport).  Overlaid into /repo/pkg/hooks by
// `go test -overlay`; /repo is never written to.
//
// Input  (VERIF_SCN):   scenarios = maximal behaviours of spec/HookTransport.tla printed by TLC
//                       (schedule of Enrich / Serve / Adjust steps per call, the hook's answer
//                       programme per call, scenario parameters).
// Output (VERIF_TRACE): what the REAL executor did, one ndjson line per step, validated
//                       afterwards by TLC against spec/TraceHook.tla.
//
// The executor is the real one (hooks.NewHook -> NewWebhookExecutor -> metrics wrapper ->
// http.Client); http.DefaultTransport is the in-process hook server of package verifsim, whose
// handler runs on the caller's goroutine inside http.Client.Do.  A call that is parked in the
// handler has enriched its headers and has not yet adjusted the response, so
//     E c = start call c on its own goroutine and wait until it is parked in the handler
//     S c = the hook decides its answer (from the programme and the If-None-Match it REALLY got)
//     A c = release the handler and wait until Call() has returned
// realise exactly the interleaving TLC listed; only handshakes, no sleeps, order the steps.
// (Real time is used for two things only: waiting out cacheTimeoutSeconds for an "expired"
// cache state, and letting the http client's own timeout fire for the "timeout" answer.)

import (
	"bufio"
	"encoding/json"
	"errors"
	"fmt"
	"net/http"
	"os"
	"strconv"
	"strings"
	"sync"
	"sync/atomic"
	"testing"
	"time"

	metav1 "k8s.io/apimachinery/pkg/apis/meta/v1"
	"k8s.io/apimachinery/pkg/apis/meta/v1/unstructured"

	"metacontroller/pkg/apis/metacontroller/v1alpha1"
	"metacontroller/pkg/controller/common"
	compositev1 "metacontroller/pkg/controller/composite/api/v1"
	vs "metacontroller/pkg/internal/verifsim"
)

type vtBody struct {
	Id  int    `json:"id"`
	Cls string `json:"cls"`
}
type vtRA struct {
	Form string `json:"form"`
	V    int    `json:"v"`
}
type vtAns struct {
	Kind string `json:"kind"`
	St   int    `json:"st"`
	Etag int    `json:"etag"`
	Ra   vtRA   `json:"ra"`
	Body vtBody `json:"body"`
}
type vtCall struct {
	C    int    `json:"c"`
	Key  string `json:"key"`
	Prog vtAns  `json:"prog"`
}
type vtStep struct {
	S string `json:"s"`
	C int    `json:"c"`
}
type vtPar struct {
	EtagOn bool   `json:"etagOn"`
	Mode   string `json:"mode"`
	Ttl    int    `json:"ttl"`
}
type vtScenario struct {
	Id    string   `json:"id"`
	Par   vtPar    `json:"par"`
	Calls []vtCall `json:"calls"`
	Sched []vtStep `json:"sched"`
	Slow  bool     `json:"slow"`
}

type vtOut struct {
	K     string `json:"k"`
	Body  vtBody `json:"body"`
	After int    `json:"after"`
	Errc  string `json:"errc"`
	Msg   string `json:"msg"`
}

// ---------------------------------------------------------------------------------------
// concretisation of the abstract vocabulary of HookTransport.tla

const vtTimeoutMs = 25

var vtClockBase = time.Date(2031, time.March, 4, 12, 0, 0, 0, time.UTC)

func vtNow() time.Time { return vtClockBase.Add(750 * time.Millisecond) } // NowMs = 750

func vtEtagStr(n int) string { return fmt.Sprintf("\"e%d\"", n) }
func vtEtagNum(s string) int {
	if s == "" {
		return 0
	}
	t := strings.Trim(s, "\"")
	if strings.HasPrefix(t, "e") {
		if n, err := strconv.Atoi(t[1:]); err == nil && n > 0 {
			return n
		}
	}
	return 99
}

func vtBodyBytes(b vtBody) []byte {
	st := fmt.Sprintf(`{"id":%d,"cls":%q}`, b.Id, b.Cls)
	switch b.Cls {
	case "valid":
		return []byte(`{"status":` + st + `,"children":[],"resyncAfterSeconds":0,"finalized":false}`)
	case "unknown":
		return []byte(`{"status":` + st + `,"children":[],"bogus":{"x":1}}`)
	case "dup":
		return []byte(`{"status":` + st + `,"children":[],"status":` + st + `}`)
	case "badjson":
		return []byte(`{"status":` + st + `,"children":[`)
	case "wrongtype":
		return []byte(`{"status":` + st + `,"children":"oops"}`)
	}
	return []byte{}
}

func vtRetryAfter(ra vtRA) (string, bool) {
	switch ra.Form {
	case "int":
		return strconv.Itoa(ra.V), true
	case "date":
		return vtClockBase.Add(time.Duration(ra.V) * time.Second).Format(http.TimeFormat), true
	case "junk":
		return []string{"soon", "1.5", "Mon, 99 Foo 2031 12:00:00 GMT"}[ra.V%3], true
	}
	return "", false
}

func vtParent(scn, key string, call int) *unstructured.Unstructured {
	kind, ns, name := "Thing", "ns1", "p-"+scn
	switch key {
	case "kNs":
		ns = "ns2"
	case "kName":
		name = name + "-x"
	case "kKind":
		kind = "Other"
	}
	return &unstructured.Unstructured{Object: map[string]interface{}{
		"apiVersion": "verif.example/v1", "kind": kind,
		"metadata": map[string]interface{}{"name": name, "namespace": ns,
			"annotations": map[string]interface{}{"verif/call": vtTag(scn, call)}},
	}}
}

func vtTag(scn string, call int) string { return scn + "#" + strconv.Itoa(call) }

// resolve the hook's programme against the If-None-Match value it really received
func vtResolve(p vtAns, inm int) vtAns {
	r := p
	r.Kind = "fix"
	switch p.Kind {
	case "wb":
		if inm == p.Etag {
			r.St, r.Body = 304, vtBody{0, "empty"}
		}
	case "cond":
		if inm != 0 {
			r.St, r.Etag, r.Body = 304, inm, vtBody{0, "empty"}
		}
	}
	return r
}

func vtReply(a vtAns) vs.HookReply {
	if a.St == 1 {
		// "client timeout": the hook DOES answer, well-formed and 200, but only after the configured timeout has long run
		// out (the caller sleeps first): a client that still listens -- say, one built with another timeout -- accepts it
		return vs.HookReply{Status: 200, Body: []byte(`{"status":{"late":"1"},"children":[]}`)}
	}
	if a.St < 100 {
		return vs.HookReply{Status: 0}
	}
	h := map[string]string{}
	if a.Etag != 0 {
		h["ETag"] = vtEtagStr(a.Etag)
	}
	if v, ok := vtRetryAfter(a.Ra); ok {
		h["Retry-After"] = v
	}
	return vs.HookReply{Status: a.St, Header: h, Body: vtBodyBytes(a.Body)}
}

func vtErrClass(msg string) string {
	switch {
	case strings.HasPrefix(msg, "strict validation failed"):
		return "strict"
	case strings.HasPrefix(msg, "can't unmarshal"):
		return "decode"
	case strings.HasPrefix(msg, "unsupported status code"):
		return "status"
	case strings.HasPrefix(msg, "http error"):
		return "http"
	case strings.HasPrefix(msg, "cannot find cached response"):
		return "nocache"
	}
	return "other"
}

// ---------------------------------------------------------------------------------------
// the gate: one parked call

type vtCallState struct {
	arrived chan string       // If-None-Match header, sent when the call is parked in the handler
	release chan vs.HookReply // the scheduler's answer
	done    chan vtOut        // outcome of Call()
	trips   int32
	mu      sync.Mutex
	last    vs.HookReply
	slowMs  int
}

var vtCalls sync.Map // tag -> *vtCallState

func vtHandler(c *vs.HookCall) vs.HookReply {
	tag := ""
	if p := vs.AsMap(c.Req["parent"]); p != nil {
		tag = vs.AsStr(vs.AsMap(vs.AsMap(p["metadata"])["annotations"])["verif/call"])
	}
	v, ok := vtCalls.Load(tag)
	if !ok {
		return vs.HookReply{Status: 599, Body: []byte("verif: unknown call " + tag)}
	}
	st := v.(*vtCallState)
	if atomic.AddInt32(&st.trips, 1) > 1 { // a second round trip of the same call: same answer
		st.mu.Lock()
		defer st.mu.Unlock()
		return st.last
	}
	st.arrived <- c.Header.Get("If-None-Match")
	r := <-st.release
	st.mu.Lock()
	st.last = r
	st.mu.Unlock()
	if st.slowMs > 0 { // "timeout": outlast http.Client.Timeout, then answer all the same
		time.Sleep(time.Duration(st.slowMs) * time.Millisecond)
	}
	return r
}

func vtInjectClock(h Hook) bool {
	impl, ok := h.(*hookExecutorImpl)
	if !ok {
		return false
	}
	ex, ok := impl.webhookExecutor.(*webhookExecutor)
	if !ok {
		return false
	}
	ex.now = vtNow
	return true
}

// Executors are built one at a time: metrics.getOrCreateMetrics is a check-then-register on a
// process-wide registry, so two concurrent NewWebhookExecutor calls for the same controller /
// hook type / URL can fail with "duplicate metrics collector registration attempted".  That is
// not part of C19; the scenarios that overlap their real-time waits only serialise this step.
var vtBuildMu sync.Mutex

func vtBuildHook(sc *vtScenario, n int) (Hook, error) {
	vtBuildMu.Lock()
	defer vtBuildMu.Unlock()
	t, f, zero := true, false, int32(0)
	url := "http://hook/sync"
	wh := &v1alpha1.Webhook{URL: &url}
	for _, c := range sc.Calls {
		if c.Prog.Kind == "fix" && c.Prog.St == 1 {
			wh.Timeout = &metav1.Duration{Duration: vtTimeoutMs * time.Millisecond}
		}
	}
	if sc.Par.Mode == "strict" {
		m := v1alpha1.ResponseUnmarshallModeStrict
		wh.ResponseUnmarshallMode = &m
	} else if n%2 == 0 { // loose is also the default
		m := v1alpha1.ResponseUnmarshallModeLoose
		wh.ResponseUnmarshallMode = &m
	}
	if sc.Par.EtagOn {
		ttl := int32(sc.Par.Ttl)
		// both fields are set: NewWebhookExecutor reads cacheCleanupSeconds behind the nil check of
		// cacheTimeoutSeconds (a nil dereference that belongs to property C20, not to this one)
		wh.Etag = &v1alpha1.WebhookEtagConfig{Enabled: &t, CacheTimeoutSeconds: &ttl, CacheCleanupSeconds: &zero}
	} else if n%2 == 0 {
		wh.Etag = &v1alpha1.WebhookEtagConfig{Enabled: &f}
	}
	return NewHook(&v1alpha1.Hook{Webhook: wh}, "verif", common.CompositeController, common.SyncHook)
}

type vtRunner struct {
	sc      *vtScenario
	n       int
	events  []map[string]interface{}
	attempt int
	// a scenario with a short cacheTimeoutSeconds whose steps were delayed so much (loaded machine)
	// that an entry may have timed out where the schedule does not say so; it is run again
	tainted bool
}

// runStable repeats a scenario whose timing was disturbed; the last attempt is kept in any case
// (its Adjust events then carry fresh=false and the model comparison may show drift, never a violation).
func (r *vtRunner) runStable() error {
	for r.attempt = 1; ; r.attempt++ {
		r.events, r.tainted = nil, false
		err := r.run()
		if err != nil || !r.tainted || r.attempt >= 6 {
			return err
		}
	}
}

func (r *vtRunner) log(ev string, kv map[string]interface{}) {
	kv["ev"], kv["sc"] = ev, r.sc.Id
	r.events = append(r.events, kv)
}

const vtStepTimeout = 20 * time.Second

func (r *vtRunner) run() (err error) {
	sc := r.sc
	hook, err := vtBuildHook(sc, r.n)
	if err != nil {
		return fmt.Errorf("NewHook: %v", err)
	}
	if !hook.IsEnabled() {
		return fmt.Errorf("hook not enabled")
	}
	if !vtInjectClock(hook) {
		return fmt.Errorf("cannot inject the clock into the executor")
	}
	keys := make([]interface{}, len(sc.Calls))
	progs := map[int]vtCall{}
	for _, c := range sc.Calls {
		keys[c.C-1] = c.Key
		progs[c.C] = c
	}
	r.log("Reset", map[string]interface{}{"par": sc.Par, "keys": keys, "n": len(sc.Calls), "attempt": r.attempt})
	states := map[int]*vtCallState{}
	inms := map[int]int{}
	answers := map[int]vtAns{}
	early := map[int]*vtOut{}
	lastExpire := time.Now()
	// with ttl = 1 s every step must come within 0.4 s of the last deliberate wait
	timely := func() bool {
		return sc.Par.Ttl >= 60 || time.Since(lastExpire) < time.Duration(sc.Par.Ttl)*400*time.Millisecond
	}
	defer func() {
		for c := range states {
			vtCalls.Delete(vtTag(sc.Id, c))
		}
	}()
	for _, st := range sc.Sched {
		switch st.S {
		case "K":
		case "X":
			time.Sleep(time.Duration(sc.Par.Ttl)*time.Second + 80*time.Millisecond)
			lastExpire = time.Now()
			r.log("Expire", map[string]interface{}{})
		case "E":
			call := progs[st.C]
			cs := &vtCallState{arrived: make(chan string, 1), release: make(chan vs.HookReply, 1), done: make(chan vtOut, 1)}
			if call.Prog.Kind == "fix" && call.Prog.St == 1 {
				cs.slowMs = 3 * vtTimeoutMs
			}
			states[st.C] = cs
			vtCalls.Store(vtTag(sc.Id, st.C), cs)
			req := &compositev1.CompositeHookRequest{Parent: vtParent(sc.Id, call.Key, st.C)}
			go func() {
				var out vtOut
				defer func() {
					if p := recover(); p != nil {
						out = vtOut{K: "panic", Body: vtBody{0, "none"}, Msg: fmt.Sprint(p)}
					}
					cs.done <- out
				}()
				var resp compositev1.CompositeHookResponse
				e := hook.Call(req, &resp)
				out = vtOutcome(e, &resp)
			}()
			select {
			case h := <-cs.arrived:
				inms[st.C] = vtEtagNum(h)
			case o := <-cs.done: // returned without reaching the hook
				early[st.C] = &o
				inms[st.C] = 0
			case <-time.After(vtStepTimeout):
				return fmt.Errorf("%s: call %d never reached the hook", sc.Id, st.C)
			}
			if !timely() {
				r.tainted = true
			}
			r.log("Enrich", map[string]interface{}{"c": st.C, "key": call.Key, "inm": inms[st.C]})
		case "S":
			a := vtResolve(progs[st.C].Prog, inms[st.C])
			answers[st.C] = a
			r.log("Serve", map[string]interface{}{"c": st.C, "ans": a})
		case "A":
			cs := states[st.C]
			var o vtOut
			if e := early[st.C]; e != nil {
				o = *e
			} else {
				cs.release <- vtReply(answers[st.C])
				select {
				case o = <-cs.done:
				case <-time.After(vtStepTimeout):
					return fmt.Errorf("%s: call %d never returned", sc.Id, st.C)
				}
			}
			fresh := timely()
			if !fresh {
				r.tainted = true
			}
			r.log("Adjust", map[string]interface{}{"c": st.C, "out": o, "fresh": fresh, "trips": int(atomic.LoadInt32(&cs.trips)),
				"reached": early[st.C] == nil})
		default:
			return fmt.Errorf("unknown step %q", st.S)
		}
	}
	return nil
}

func vtOutcome(e error, resp *compositev1.CompositeHookResponse) vtOut {
	if e == nil {
		b := vtBody{0, "none"}
		if resp.Status != nil {
			if f, ok := resp.Status["id"].(float64); ok {
				b.Id = int(f)
			} else if i, ok := resp.Status["id"].(int64); ok {
				b.Id = int(i)
			}
			if s, ok := resp.Status["cls"].(string); ok {
				b.Cls = s
			}
		}
		return vtOut{K: "ok", Body: b}
	}
	var tm *TooManyRequestError
	if errors.As(e, &tm) {
		return vtOut{K: "retry", Body: vtBody{0, "none"}, After: tm.AfterSecond}
	}
	msg := e.Error()
	if len(msg) > 160 {
		msg = msg[:160]
	}
	return vtOut{K: "err", Body: vtBody{0, "none"}, Errc: vtErrClass(e.Error()), Msg: msg}
}

func TestVerifHookReplay(t *testing.T) {
	scnPath, trcPath := os.Getenv("VERIF_SCN"), os.Getenv("VERIF_TRACE")
	if scnPath == "" || trcPath == "" {
		t.Skip("VERIF_SCN / VERIF_TRACE not set")
	}
	vs.InstallHooks().Set(vtHandler) // before any executor is built: the metrics wrapper captures http.DefaultTransport
	fh, err := os.Open(scnPath)
	if err != nil {
		t.Fatal(err)
	}
	defer fh.Close()
	var scs []*vtScenario
	rd := bufio.NewReaderSize(fh, 1<<20)
	for {
		line, err := rd.ReadBytes('\n')
		if len(strings.TrimSpace(string(line))) > 0 {
			sc := &vtScenario{}
			if e := json.Unmarshal(line, sc); e != nil {
				t.Fatalf("bad scenario: %v", e)
			}
			scs = append(scs, sc)
		}
		if err != nil {
			break
		}
	}
	runners := make([]*vtRunner, len(scs))
	errs := make([]error, len(scs))
	// scenarios that wait for real time (cache expiry, client timeout) overlap their waits
	var wg sync.WaitGroup
	sem := make(chan struct{}, 256)
	for i, sc := range scs {
		runners[i] = &vtRunner{sc: sc, n: i}
		if !sc.Slow {
			continue
		}
		wg.Add(1)
		sem <- struct{}{}
		go func(i int) {
			defer wg.Done()
			defer func() { <-sem }()
			errs[i] = runners[i].runStable()
		}(i)
	}
	for i, sc := range scs {
		if !sc.Slow {
			errs[i] = runners[i].runStable()
		}
	}
	wg.Wait()
	out, err := os.Create(trcPath)
	if err != nil {
		t.Fatal(err)
	}
	w := bufio.NewWriterSize(out, 1<<20)
	seq := 0
	calls := 0
	for i, r := range runners {
		if errs[i] != nil {
			t.Fatalf("scenario %s: %v", r.sc.Id, errs[i])
		}
		for _, ev := range r.events {
			seq++
			ev["i"] = seq
			if ev["ev"] == "Adjust" {
				calls++
			}
			b, e := json.Marshal(ev)
			if e != nil {
				t.Fatal(e)
			}
			w.Write(b)
			w.WriteByte('\n')
		}
	}
	if err := w.Flush(); err != nil {
		t.Fatal(err)
	}
	out.Close()
	fmt.Printf("VERIF-HOOK scenarios=%d calls=%d events=%d\n", len(scs), calls, seq)
}
