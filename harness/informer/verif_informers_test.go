package informer_test

// C18 harness (injected with `go test -overlay`; never part of /repo).
//
// TestVerifReplay executes TLC-generated operation sequences (spec/Informers.tla, Beh_*
// configs) on the REAL SharedInformerFactory over the simulated API server, one barrier
// after each operation, and writes what could be observed from outside as one ndjson
// line per operation.  spec/TraceInformers.tla judges those lines.
//
// TestVerifRace issues the same operations from concurrent goroutines (one per
// subscriber slot, one for the object events), without barriers; built with -race the
// race detector is the observation device; the final state is observed and judged.
//
// The harness takes no decision about the property.  It only needs to know what to WAIT
// for after an operation (taken from the expectation TLC printed with each step) and it
// logs whatever is the case when the wait ends or times out ("settled": false).

import (
	"bufio"
	"encoding/json"
	"fmt"
	"math/rand"
	"os"
	"runtime"
	"runtime/debug"
	"strconv"
	"strings"
	"sync"
	"testing"
	"time"

	"k8s.io/apimachinery/pkg/apis/meta/v1/unstructured"
	"k8s.io/apimachinery/pkg/labels"
	"k8s.io/client-go/tools/cache"

	dynamicinformer "metacontroller/pkg/dynamic/informer"
	vs "metacontroller/pkg/internal/verifsim"
)

// dimensions of every trace line (spec/TraceInformers.cfg): scenarios may use fewer
const (
	tNS = 3
	tNR = 2
	tNO = 2

	fenceName     = "zz-fence"
	factoryResync = time.Hour             // relist period of the factory: never fires in a run
	ownResync     = 10 * time.Millisecond // "own short resync period" of a handler
	// C18_Silent is an absence: after removing handlers that had a private resync timer the
	// driver keeps observing for a few periods before it cuts the line (an observation
	// window, not a synchronisation: the barrier still follows)
	silentWindow = 35 * time.Millisecond
	// "addev": how long the new handler's first replay callback waits for the concurrent event to be handed over
	addEvWindow = 25 * time.Millisecond
	// an operation of the API that has not returned after this long is reported as hung
	hangLimit = 4 * time.Second
)

type resInfo struct {
	apiVersion, resource, kind, key, ns string
}

var resTab = [tNR + 1]resInfo{
	{},
	{"verif.example/v1", "things", "Thing", "things.verif.example", "ns1"},
	{"verif.example/v1", "cthings", "CThing", "cthings.verif.example", ""},
}

type opRec struct {
	T   string `json:"t"`
	S   int    `json:"s"`
	R   int    `json:"r"`
	O   int    `json:"o"`
	Own bool   `json:"own"`
	H   int    `json:"h"`
	RV  int64  `json:"rv"`
}

type stepRec struct {
	Op    opRec           `json:"op"`
	W     []int           `json:"w"`
	Ent   []int           `json:"ent"`
	Must  json.RawMessage `json:"must"`
	Rep   json.RawMessage `json:"rep"`
	First bool            `json:"first"`
	Last  bool            `json:"last"`
}

type scenario struct {
	ID    string    `json:"id"`
	Seed  int64     `json:"seed"`
	Late  bool      `json:"late"` // the last resource is not served by discovery until a subscribe to it has failed
	Steps []stepRec `json:"steps"`
}

type evRec struct {
	K   string `json:"k"`
	O   int    `json:"o"`
	RV  int64  `json:"rv"`
	ORV int64  `json:"orv"`
}

// hrec is one event handler handed to the code under test.
type hrec struct {
	id, slot, res int
	own           bool
	mu            sync.Mutex
	evs           []evRec
	fence         int64 // newest fence version seen as a REAL update (old != new)
	removed       bool
	late          int
	lateFirst     string
	// onFirst runs once, inside the first callback this handler ever receives (the add-time replay):
	// the hook by which an object event is made to arrive WHILE the handler is being added
	onFirst func()
}

func objOf(x interface{}) *unstructured.Unstructured {
	if t, ok := x.(cache.DeletedFinalStateUnknown); ok {
		x = t.Obj
	}
	u, _ := x.(*unstructured.Unstructured)
	return u
}

func rvOf(u *unstructured.Unstructured) int64 {
	if u == nil {
		return -1
	}
	n, err := strconv.ParseInt(u.GetResourceVersion(), 10, 64)
	if err != nil {
		return -1
	}
	return n
}

func objID(name string) int {
	if len(name) >= 2 && name[0] == 'o' {
		if n, err := strconv.Atoi(name[1:]); err == nil && n >= 1 && n <= tNO {
			return n
		}
	}
	return 0
}

func (h *hrec) on(kind string, oldX, newX interface{}) {
	nu := objOf(newX)
	name := ""
	if nu != nil {
		name = nu.GetName()
	}
	rv := rvOf(nu)
	var orv int64
	if kind == "upd" {
		orv = rvOf(objOf(oldX))
	}
	h.mu.Lock()
	first := h.onFirst
	h.onFirst = nil
	h.mu.Unlock()
	if first != nil {
		first()
	}
	h.mu.Lock()
	defer h.mu.Unlock()
	if h.removed {
		h.late++
		if h.lateFirst == "" {
			h.lateFirst = fmt.Sprintf("%s %s@%d", kind, name, rv)
		}
		return
	}
	if name == fenceName {
		// a real update of the fence, or its OnAdd from the initial LIST of a fresh informer, is a
		// position in the informer's ordered notification stream; a resync replay (old == new)
		// comes from a timer goroutine and says nothing about that position
		if ((kind == "upd" && orv != rv) || kind == "add") && rv > h.fence {
			h.fence = rv
		}
		return
	}
	h.evs = append(h.evs, evRec{K: kind, O: objID(name), RV: rv, ORV: orv})
}

func (h *hrec) funcs() cache.ResourceEventHandlerFuncs {
	return cache.ResourceEventHandlerFuncs{
		AddFunc:    func(o interface{}) { h.on("add", nil, o) },
		UpdateFunc: func(o, n interface{}) { h.on("upd", o, n) },
		DeleteFunc: func(o interface{}) { h.on("del", nil, o) },
	}
}

type slotRec struct {
	sub  *dynamicinformer.ResourceInformer
	open bool
	res  int
	hs   []*hrec
}

type drv struct {
	sc       *scenario
	srv      *vs.Server
	w        *vs.World
	slots    [tNS + 1]*slotRec
	handlers []*hrec // index id-1
	hmu      sync.Mutex
	timeout  time.Duration
	out      *lineWriter
	line     int
}

type lineWriter struct {
	mu sync.Mutex
	f  *os.File
	w  *bufio.Writer
}

func (lw *lineWriter) emit(v map[string]interface{}) {
	b, err := json.Marshal(v)
	if err != nil {
		panic(err)
	}
	lw.mu.Lock()
	defer lw.mu.Unlock()
	lw.w.Write(b)
	lw.w.WriteByte('\n')
	lw.w.Flush()
}

type machineryError struct{ msg string }

func (e machineryError) Error() string { return e.msg }

func fail(format string, a ...interface{}) { panic(machineryError{fmt.Sprintf(format, a...)}) }

// lateRes: the resource a scenario keeps hidden from discovery at first (0 = none)
func lateRes(sc *scenario) int {
	if sc.Late {
		for _, st := range sc.Steps {
			if st.Op.T == "subx" {
				return st.Op.R
			}
		}
	}
	return 0
}

func newDrv(sc *scenario, out *lineWriter, timeout time.Duration) *drv {
	d := &drv{sc: sc, out: out, timeout: timeout}
	d.srv = vs.NewServer(vs.DefaultResources(), nil)
	for r := 1; r <= tNR; r++ {
		ri := resTab[r]
		md := vs.Obj{"name": fenceName}
		if ri.ns != "" {
			md["namespace"] = ri.ns
		}
		if _, code := d.srv.Seed(ri.key, vs.Obj{"apiVersion": ri.apiVersion, "kind": ri.kind, "metadata": md}); code != 201 {
			fail("seeding the fence object of %s: code %d", ri.key, code)
		}
	}
	if sc.Late {
		for _, st := range sc.Steps {
			if st.Op.T == "subx" {
				d.srv.Hide(resTab[st.Op.R].key)
			}
		}
		vs.DiscoveryRefresh = 10 * time.Millisecond
	} else {
		vs.DiscoveryRefresh = time.Hour
	}
	w, err := vs.NewWorld(d.srv, "A", factoryResync)
	if err != nil {
		fail("NewWorld: %v", err)
	}
	d.w = w
	for s := 1; s <= tNS; s++ {
		d.slots[s] = &slotRec{}
	}
	return d
}

func (d *drv) handler(id int) *hrec {
	d.hmu.Lock()
	defer d.hmu.Unlock()
	for len(d.handlers) < id {
		d.handlers = append(d.handlers, nil)
	}
	if d.handlers[id-1] == nil {
		d.handlers[id-1] = &hrec{id: id}
	}
	return d.handlers[id-1]
}

func (d *drv) nHandlers() int {
	d.hmu.Lock()
	defer d.hmu.Unlock()
	return len(d.handlers)
}

// execSlot performs one subscriber operation on the code under test; for "addev" it returns the
// resourceVersion of the object event it produced.
func (d *drv) execSlot(op opRec) (rv int64) {
	sl := d.slots[op.S]
	switch op.T {
	case "subx":
		// a subscribe to the resource discovery does not know yet must fail; afterwards the resource is revealed and the
		// driver waits until the discovery cache has it
		ri := resTab[op.R]
		if sub, err := d.w.DynInformers.Resource(ri.apiVersion, ri.resource); err == nil {
			sub.Close()
			fail("subx: subscribing to the hidden resource %s succeeded", ri.key)
		}
		d.srv.Reveal(ri.key)
		if !waitUntil(time.Now().Add(d.timeout), func() bool { return d.w.Resources.Get(ri.apiVersion, ri.resource) != nil }) {
			fail("subx: %s did not become discoverable", ri.key)
		}
		return 0
	case "remev":
		// the handler of another open subscription of the same informer holds the broadcast of the event up; meanwhile
		// this slot's handlers are removed from another goroutine
		var slow *hrec
		for s := 1; s <= tNS && slow == nil; s++ {
			if o := d.slots[s]; s != op.S && o != nil && o.sub != nil && o.open && o.res == sl.res {
				for _, x := range o.hs {
					x.mu.Lock()
					ok := !x.removed && (slow == nil)
					if ok && !x.own {
						slow = x
					}
					x.mu.Unlock()
				}
				if slow == nil {
					for _, x := range o.hs {
						x.mu.Lock()
						if !x.removed && slow == nil {
							slow = x
						}
						x.mu.Unlock()
					}
				}
			}
		}
		if slow == nil {
			fail("remev: no handler of another open subscription of resource %d", sl.res)
		}
		done := make(chan struct{})
		started := make(chan struct{})
		slow.mu.Lock()
		slow.onFirst = func() {
			go func() {
				close(started)
				sl.sub.Informer().RemoveEventHandlers()
				for _, h := range sl.hs {
					h.mu.Lock()
					h.removed = true
					h.mu.Unlock()
				}
				close(done)
			}()
			<-started
			select {
			case <-done:
				// the removal did not have to wait for the broadcast: give the rest of the broadcast a moment
				time.Sleep(2 * time.Millisecond)
			case <-time.After(addEvWindow):
			}
		}
		slow.mu.Unlock()
		ri, name := d.objMeta(sl.res, op.O)
		t := "oupd"
		if d.srv.Get(ri.key, ri.ns, name) == nil {
			t = "oadd"
		}
		rv = d.execObj(opRec{T: t, R: sl.res, O: op.O})
		select {
		case <-done:
		case <-time.After(d.timeout):
			fail("remev: the removal did not return")
		}
		return rv
	case "addev":
		h := d.handler(op.H)
		h.slot, h.res, h.own = op.S, sl.res, op.Own
		sl.hs = append(sl.hs, h)
		// others: live handlers of the same resource, through which the hand-over of the event can be seen
		var others []*hrec
		for s := 1; s <= tNS; s++ {
			if o := d.slots[s]; o != nil && o.sub != nil && o.res == sl.res {
				for _, x := range o.hs {
					if x != h {
						others = append(others, x)
					}
				}
			}
		}
		ri, name := d.objMeta(sl.res, op.O)
		h.onFirst = func() {
			t := "oupd"
			if d.srv.Get(ri.key, ri.ns, name) == nil {
				t = "oadd"
			}
			rv = d.execObj(opRec{T: t, R: sl.res, O: op.O})
			// give the notification time to be handed over while the add is still in progress (with the lock
			// held it cannot be, and this wait just runs out)
			deadline := time.Now().Add(addEvWindow)
			for time.Now().Before(deadline) {
				seen := false
				for _, x := range others {
					x.mu.Lock()
					for _, e := range x.evs {
						if e.O == op.O && e.RV == rv {
							seen = true
						}
					}
					x.mu.Unlock()
				}
				if seen {
					time.Sleep(2 * time.Millisecond)
					return
				}
				time.Sleep(500 * time.Microsecond)
			}
		}
		if op.Own {
			sl.sub.Informer().AddEventHandlerWithResyncPeriod(h.funcs(), ownResync)
		} else {
			sl.sub.Informer().AddEventHandler(h.funcs())
		}
		h.mu.Lock()
		pending := h.onFirst != nil
		h.onFirst = nil
		h.mu.Unlock()
		if pending {
			fail("addev: the handler received no replay callback, the event could not be placed")
		}
		return rv
	case "sub":
		ri := resTab[op.R]
		sub, err := d.w.DynInformers.Resource(ri.apiVersion, ri.resource)
		if err != nil {
			fail("Resource(%s,%s): %v", ri.apiVersion, ri.resource, err)
		}
		sl.sub, sl.open, sl.res, sl.hs = sub, true, op.R, nil
	case "add":
		h := d.handler(op.H)
		h.slot, h.res, h.own = op.S, sl.res, op.Own
		sl.hs = append(sl.hs, h)
		if op.Own {
			sl.sub.Informer().AddEventHandlerWithResyncPeriod(h.funcs(), ownResync)
		} else {
			sl.sub.Informer().AddEventHandler(h.funcs())
		}
	case "rem":
		sl.sub.Informer().RemoveEventHandlers()
		for _, h := range sl.hs {
			h.mu.Lock()
			h.removed = true
			h.mu.Unlock()
		}
	case "close":
		sl.sub.Close()
		sl.open = false
	default:
		fail("unknown slot operation %q", op.T)
	}
	return 0
}

// hadOwn: the slot's subscription was given a handler with a private resync period
func (d *drv) hadOwn(s int) bool {
	for _, h := range d.slots[s].hs {
		if h.own {
			return true
		}
	}
	return false
}

func (d *drv) objMeta(r, o int) (resInfo, string) {
	return resTab[r], "o" + strconv.Itoa(o)
}

// execObj performs one object event at the server and returns the resourceVersion it produced.
func (d *drv) execObj(op opRec) int64 {
	ri, name := d.objMeta(op.R, op.O)
	switch op.T {
	case "oadd":
		md := vs.Obj{"name": name}
		if ri.ns != "" {
			md["namespace"] = ri.ns
		}
		if code := d.srv.Env(vs.EnvOp{Op: "create", ResKey: ri.key, NS: ri.ns, Obj: vs.Obj{"apiVersion": ri.apiVersion, "kind": ri.kind, "metadata": md, "spec": vs.Obj{"f1": "a"}}}); code != 201 {
			fail("create %s/%s: code %d", ri.key, name, code)
		}
	case "oupd":
		if code := d.srv.Env(vs.EnvOp{Op: "touch", ResKey: ri.key, NS: ri.ns, Name: name}); code != 200 {
			fail("touch %s/%s: code %d", ri.key, name, code)
		}
	case "odel":
		if code := d.srv.Env(vs.EnvOp{Op: "delete", ResKey: ri.key, NS: ri.ns, Name: name}); code != 200 {
			fail("delete %s/%s: code %d", ri.key, name, code)
		}
		return d.srv.RV()
	default:
		fail("unknown object operation %q", op.T)
	}
	o := d.srv.Get(ri.key, ri.ns, name)
	if o == nil {
		fail("%s/%s vanished", ri.key, name)
	}
	rv, err := strconv.ParseInt(vs.AsStr(vs.AsMap(o["metadata"])["resourceVersion"]), 10, 64)
	if err != nil {
		fail("resourceVersion of %s/%s: %v", ri.key, name, err)
	}
	return rv
}

func (d *drv) touchFence(r int) int64 {
	ri := resTab[r]
	if code := d.srv.Env(vs.EnvOp{Op: "touch", ResKey: ri.key, NS: ri.ns, Name: fenceName}); code != 200 {
		fail("touch fence of %s: code %d", ri.key, code)
	}
	return d.srv.RV()
}

func waitUntil(deadline time.Time, cond func() bool) bool {
	for i := 0; ; i++ {
		if cond() {
			return true
		}
		if time.Now().After(deadline) {
			return false
		}
		switch {
		case i < 100:
			runtime.Gosched()
		case i < 400:
			time.Sleep(50 * time.Microsecond)
		default:
			time.Sleep(time.Millisecond)
		}
	}
}

// listerView returns what the subscription's lister shows: versions of o1..oNO and of the fence.
func listerView(sub *dynamicinformer.ResourceInformer) ([tNO]int64, int64, int) {
	var v [tNO]int64
	var fence int64
	other := 0
	items, err := sub.Lister().List(labels.Everything())
	if err != nil {
		return v, -1, 0
	}
	for _, u := range items {
		switch id := objID(u.GetName()); {
		case u.GetName() == fenceName:
			fence = rvOf(u)
		case id > 0:
			v[id-1] = rvOf(u)
		default:
			other++
		}
	}
	return v, fence, other
}

func pad(w []int) [tNR]int {
	var out [tNR]int
	copy(out[:], w)
	return out
}

// barrier waits until the server-side and handler-side effects of the last operation
// have settled: the expected number of WATCH streams per resource; then, for every
// resource that is expected to have a running informer, two fence events (updates of a
// dedicated object of that resource) which every open subscription's lister and every
// entitled handler must see.  The informer hands notifications to the shared handler one
// at a time and in order, so once a handler has seen the second fence every handler of
// that informer has been called for everything before the first one.
func (d *drv) barrier(st *stepRec) (settled bool, miss []int, note string) {
	deadline := time.Now().Add(d.timeout)
	want := pad(st.W)
	if !waitUntil(deadline, func() bool {
		ws := d.srv.WatchStats()
		for r := 1; r <= tNR; r++ {
			if ws[resTab[r].key].Active != want[r-1] {
				return false
			}
		}
		return true
	}) {
		return false, []int{}, "WATCH count not reached"
	}
	var fence [tNR + 1]int64
	for r := 1; r <= tNR; r++ {
		if want[r-1] == 1 {
			d.touchFence(r)
			fence[r] = d.touchFence(r)
		}
	}
	ent := map[int]bool{}
	for _, h := range st.Ent {
		ent[h] = true
	}
	check := func() (bool, []int, string) {
		var missing []int
		why := ""
		for s := 1; s <= tNS; s++ {
			sl := d.slots[s]
			if sl.sub == nil || !sl.open || fence[sl.res] == 0 {
				continue
			}
			if !sl.sub.Informer().HasSynced() {
				why = fmt.Sprintf("slot %d not synced", s)
				continue
			}
			if _, f, _ := listerView(sl.sub); f != fence[sl.res] {
				why = fmt.Sprintf("lister of slot %d shows fence %d, want %d", s, f, fence[sl.res])
			}
		}
		for id := range ent {
			h := d.handler(id)
			if fence[h.res] == 0 {
				continue
			}
			h.mu.Lock()
			f := h.fence
			h.mu.Unlock()
			if f < fence[h.res] {
				missing = append(missing, id)
			}
		}
		if why == "" {
			// the WATCH of an informer that was stopped a moment ago may still be closing
			ws := d.srv.WatchStats()
			for r := 1; r <= tNR; r++ {
				if ws[resTab[r].key].Active != want[r-1] {
					why = "WATCH count changed"
				}
			}
		}
		return why == "" && len(missing) == 0, missing, why
	}
	ok := waitUntil(deadline, func() bool { ok, _, _ := check(); return ok })
	if ok {
		return true, []int{}, ""
	}
	_, missing, why := check()
	if missing == nil {
		missing = []int{}
	}
	for i := 0; i < len(missing); i++ { // sort (small)
		for j := i + 1; j < len(missing); j++ {
			if missing[j] < missing[i] {
				missing[i], missing[j] = missing[j], missing[i]
			}
		}
	}
	if why == "" {
		why = "fence not seen by every entitled handler"
	}
	return false, missing, why
}

// observe collects the observation part of a trace line.
func (d *drv) observe(keepRecv bool) map[string]interface{} {
	ws := d.srv.WatchStats()
	w := make([]int, tNR)
	lists := make([]int, tNR)
	for r := 1; r <= tNR; r++ {
		w[r-1] = ws[resTab[r].key].Active
		lists[r-1] = ws[resTab[r].key].Lists
	}
	lister := make([][]int64, tNS)
	other := 0
	for s := 1; s <= tNS; s++ {
		lister[s-1] = make([]int64, tNO)
		sl := d.slots[s]
		if sl.sub != nil && sl.open {
			v, _, oth := listerView(sl.sub)
			copy(lister[s-1], v[:])
			other += oth
		}
	}
	nh := d.nHandlers()
	recv := make([][]evRec, nh)
	late := make([]int, nh)
	lateFirst := ""
	for i := 0; i < nh; i++ {
		h := d.handler(i + 1)
		h.mu.Lock()
		recv[i] = h.evs
		if recv[i] == nil || !keepRecv {
			recv[i] = []evRec{}
		}
		h.evs = nil
		late[i] = h.late
		if h.late > 0 && lateFirst == "" {
			lateFirst = h.lateFirst
		}
		h.late = 0
		h.mu.Unlock()
	}
	return map[string]interface{}{"has": true, "w": w, "lists": lists, "lister": lister, "recv": recv, "late": late,
		"lateFirst": lateFirst, "strangers": other}
}

func expOf(st *stepRec) map[string]interface{} {
	w := pad(st.W)
	ent := st.Ent
	if ent == nil {
		ent = []int{}
	}
	return map[string]interface{}{"w": w[:], "ent": ent, "must": st.Must, "rep": st.Rep, "first": st.First, "last": st.Last}
}

func opJSON(op opRec) map[string]interface{} {
	return map[string]interface{}{"t": op.T, "s": op.S, "r": op.R, "o": op.O, "own": op.Own, "h": op.H, "rv": op.RV}
}

// guarded runs f and turns a panic of the code under test into a string (machinery
// errors are re-raised).
func guarded(f func()) (msg string) {
	defer func() {
		if r := recover(); r != nil {
			if me, ok := r.(machineryError); ok {
				panic(me)
			}
			st := string(debug.Stack())
			if len(st) > 1500 {
				st = st[:1500]
			}
			msg = fmt.Sprintf("%v\n%s", r, st)
		}
	}()
	f()
	return ""
}

// guardedT is guarded with a time limit: an operation of the API that does not return (a deadlock inside the code under
// test) is reported like a panic of that operation -- the scenario cannot go on -- instead of hanging the harness.
func guardedT(limit time.Duration, f func()) (msg string) {
	done := make(chan string, 1)
	var me interface{}
	go func() {
		defer func() {
			if r := recover(); r != nil {
				me = r
				done <- "MACHINERY"
			}
		}()
		done <- guarded(f)
	}()
	select {
	case m := <-done:
		if m == "MACHINERY" {
			panic(me)
		}
		return m
	case <-time.After(limit):
		return "operation did not return within " + limit.String() + " (deadlock)"
	}
}

func (d *drv) cleanup() {
	for s := 1; s <= tNS; s++ {
		sl := d.slots[s]
		if sl.sub == nil {
			continue
		}
		if m := guardedT(hangLimit, func() { sl.sub.Informer().RemoveEventHandlers() }); m != "" {
			fmt.Fprintf(os.Stderr, "cleanup of %s: RemoveEventHandlers panicked: %.200s\n", d.sc.ID, m)
		}
		if sl.open {
			if m := guardedT(hangLimit, func() { sl.sub.Close() }); m != "" {
				fmt.Fprintf(os.Stderr, "cleanup of %s: Close panicked: %.200s\n", d.sc.ID, m)
			}
			sl.open = false
		}
	}
	d.w.Stop()
}

// runSeq replays one scenario sequentially; it returns false when a line did not settle.
func runSeq(sc *scenario, out *lineWriter, timeout time.Duration) bool {
	d := newDrv(sc, out, timeout)
	defer d.cleanup()
	out.emit(map[string]interface{}{"ev": "Reset", "sc": sc.ID, "i": 0, "late": lateRes(sc)})
	for i := range sc.Steps {
		st := &sc.Steps[i]
		op := st.Op
		pmsg := ""
		switch op.T {
		case "sub", "add", "rem", "close", "subx":
			pmsg = guardedT(hangLimit, func() { d.execSlot(op) })
		case "addev", "remev":
			pmsg = guardedT(hangLimit, func() { op.RV = d.execSlot(op) })
		case "oadd", "oupd", "odel":
			op.RV = d.execObj(op)
		default:
			fail("scenario %s: unknown operation %q", sc.ID, op.T)
		}
		if strings.HasPrefix(pmsg, "operation did not return") {
			// a hung operation: the observation functions would hang on the same locks; report it the way a crash of the
			// code under test is reported and give the scenario up
			out.emit(map[string]interface{}{"ev": "Detector", "sc": sc.ID, "i": i + 1, "races": 0, "crashes": 1,
				"where": fmt.Sprintf("%s(s%d) %s", op.T, op.S, pmsg)})
			return false
		}
		settled, miss, note := true, []int{}, ""
		if pmsg == "" {
			if (op.T == "rem" || op.T == "remev") && d.hadOwn(op.S) {
				time.Sleep(silentWindow)
			}
			settled, miss, note = d.barrier(st)
		}
		ln := d.observe(true)
		ln["ev"], ln["sc"], ln["i"] = "Op", sc.ID, i+1
		ln["op"] = opJSON(op)
		ln["miss"], ln["settled"], ln["note"], ln["panic"] = miss, settled, note, pmsg
		ln["exp"] = expOf(st)
		out.emit(ln)
		if !settled || pmsg != "" {
			return false
		}
	}
	return true
}

// runRace issues the operations of a scenario from concurrent goroutines.
func runRace(sc *scenario, out *lineWriter, timeout time.Duration) bool {
	d := newDrv(sc, out, timeout)
	defer d.cleanup()
	progs := map[int][]int{} // 0 = object events, s = slot
	for i, st := range sc.Steps {
		k := st.Op.S
		if st.Op.T == "oadd" || st.Op.T == "oupd" || st.Op.T == "odel" {
			k = 0
		}
		progs[k] = append(progs[k], i)
		if st.Op.T == "add" || st.Op.T == "addev" {
			h := d.handler(st.Op.H)
			_ = h
		}
	}
	rvs := make([]int64, len(sc.Steps))
	var pmu sync.Mutex
	panics := []string{}
	start := make(chan struct{})
	var wg sync.WaitGroup
	for k, idxs := range progs {
		wg.Add(1)
		go func(k int, idxs []int) {
			defer wg.Done()
			rng := rand.New(rand.NewSource(sc.Seed*31 + int64(k)))
			<-start
			for _, i := range idxs {
				op := sc.Steps[i].Op
				var m string
				if k == 0 {
					m = guarded(func() { rvs[i] = d.execObj(op) })
				} else {
					m = guarded(func() { rvs[i] = d.execSlot(op) })
				}
				if m != "" {
					pmu.Lock()
					panics = append(panics, m)
					pmu.Unlock()
					return
				}
				switch rng.Intn(4) {
				case 0:
					runtime.Gosched()
				case 1:
					time.Sleep(time.Duration(rng.Intn(300)) * time.Microsecond)
				}
			}
		}(k, idxs)
	}
	close(start)
	wg.Wait()
	out.emit(map[string]interface{}{"ev": "Reset", "sc": sc.ID, "i": 0, "late": lateRes(sc)})
	for i := range sc.Steps {
		op := sc.Steps[i].Op
		op.RV = rvs[i]
		out.emit(map[string]interface{}{"ev": "Plan", "sc": sc.ID, "i": i + 1, "op": opJSON(op), "exp": expOf(&sc.Steps[i])})
	}
	settled, miss, note := true, []int{}, ""
	pmsg := strings.Join(panics, "\n")
	if pmsg == "" && len(sc.Steps) > 0 {
		settled, miss, note = d.barrier(&sc.Steps[len(sc.Steps)-1])
	}
	ln := d.observe(false)
	ln["ev"], ln["sc"], ln["i"] = "Final", sc.ID, len(sc.Steps)+1
	ln["op"] = opJSON(opRec{T: "final"})
	ln["miss"], ln["settled"], ln["note"], ln["panic"] = miss, settled, note, pmsg
	out.emit(ln)
	return settled && pmsg == ""
}

func drive(t *testing.T, one func(*scenario, *lineWriter, time.Duration) bool) {
	scnPath, trcPath := os.Getenv("VERIF_SCN"), os.Getenv("VERIF_TRACE")
	if scnPath == "" || trcPath == "" {
		t.Skip("VERIF_SCN / VERIF_TRACE not set")
	}
	timeout := 10 * time.Second
	if ms, err := strconv.Atoi(os.Getenv("VERIF_BARRIER_MS")); err == nil && ms > 0 {
		timeout = time.Duration(ms) * time.Millisecond
	}
	in, err := os.Open(scnPath)
	if err != nil {
		t.Fatalf("open scenarios: %v", err)
	}
	defer in.Close()
	f, err := os.Create(trcPath)
	if err != nil {
		t.Fatalf("create trace: %v", err)
	}
	out := &lineWriter{f: f, w: bufio.NewWriterSize(f, 1<<16)}
	defer f.Close()
	rd := bufio.NewReaderSize(in, 1<<20)
	unsettled, done, skipped := 0, 0, 0
	for {
		line, err := rd.ReadBytes('\n')
		if len(strings.TrimSpace(string(line))) > 0 {
			var sc scenario
			if jerr := json.Unmarshal(line, &sc); jerr != nil {
				t.Fatalf("bad scenario: %v", jerr)
			}
			// after a few lines that did not settle the rest is not run: each of them costs
			// a full barrier timeout and the recorded ones already are the witnesses
			if unsettled >= 3 {
				skipped++
			} else {
				func() {
					defer func() {
						if r := recover(); r != nil {
							if me, ok := r.(machineryError); ok {
								t.Fatalf("MACHINERY scenario %s: %s", sc.ID, me.msg)
							}
							panic(r)
						}
					}()
					if !one(&sc, out, timeout) {
						unsettled++
					}
				}()
				done++
			}
		}
		if err != nil {
			break
		}
	}
	fmt.Printf("VERIFSTAT done=%d skipped=%d unsettled=%d\n", done, skipped, unsettled)
}

func TestVerifReplay(t *testing.T) { drive(t, runSeq) }

func TestVerifRace(t *testing.T) { drive(t, runRace) }
