SPECIFICATION Spec
CONSTANTS
  MaxEv = 2
  Focus <- FAll
  Kinds <- KBoth
  Width = "core"
  Real = TRUE
  Fixed = TRUE
  Beh = FALSE
INVARIANTS D_StrictComplete D_StrictSound D_StrictKeyParses
CHECK_DEADLOCK FALSE
