SPECIFICATION Spec
CHECK_DEADLOCK FALSE
POSTCONDITION TraceAccepted
INVARIANT Monitors
INVARIANT Drift
