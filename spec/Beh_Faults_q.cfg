SPECIFICATION Spec
CONSTANTS
  Bases <- BAll
  Codes <- CAll
  HookCodes <- HAll
  Pairs = FALSE
INVARIANTS C12_TableSound Emit
CHECK_DEADLOCK FALSE
