---------------------------- MODULE MC_Faults ----------------------------
EXTENDS Faults
BAll == {"compInPlace", "compRecreate", "compRolling", "compFinalize", "compCustomize", "decorator"}
CAll == {404, 409, 410, 422, 500, 504, 0}
HAll == {500, 429, 0, 404}
=============================================================================
