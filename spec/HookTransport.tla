---------------------------- MODULE HookTransport ----------------------------
(* Hook transport of metacontroller (pkg/hooks/webhook.go, webhook_etag.go,            *)
(* webhook_plain.go, hooks.go, errors.go; pkg/cache/cache.go): property C19.           *)
(*                                                                                     *)
(* Several hook calls run concurrently against ONE webhook executor, i.e. one ETag     *)
(* cache (one entry per parent kind/namespace/name).  Every call is three steps        *)
(*     Enrich  read the cache entry of the call's key -> If-None-Match header          *)
(*     Serve   the hook answers: status, ETag header, Retry-After header, body         *)
(*     Adjust  429 -> TooManyRequestError; status gate; 304/412: body from the cache,  *)
(*             200 with ETag: store (ETag, body); decode strict/loose                  *)
(* which interleave freely with the steps of the other calls and with cache expiry.    *)
(* A call is parked inside http.Client.Do between Enrich and Adjust; that is where the *)
(* replay harness (harness/hooks/verif_transport_test.go) holds it.                    *)
(*                                                                                     *)
(* Fidelity rule (DESIGN.md section 5): Variant = "code" is what the code DOES          *)
(*   - on 304/412 the body is re-read from the cache at response time and the ETag of  *)
(*     that entry is NOT compared with the If-None-Match value that was sent;          *)
(*   - in strict mode `shouldReportStrictErrors()` alone decides, so every decodable   *)
(*     body is rejected, also one without any strict error;                            *)
(* Variant = "intended" is what property C19 states.  The pure operators of section 2  *)
(* and 3 are shared verbatim with the trace specification TraceHook.tla, so that the   *)
(* design-level verdicts and the verdicts on recorded executions use ONE definition.   *)
EXTENDS Integers, Sequences, FiniteSets, TLC

CONSTANTS Calls,        \* 1..n
          Phase,        \* Phase[c]: a call starts only when every call of a lower phase is done
          Params,       \* set of [etagOn, mode, keys, exp]: scenario parameters, chosen in Init
          AnsOf(_, _),  \* AnsOf(c, par): the answers (programmes) the hook may give call c
          Variant,      \* "code" | "intended"
          ExpireMode,   \* "none" | "boundary" (only while no call is in flight) | "any"
          MergeServe,   \* TRUE: Serve directly follows Enrich (it touches call-local state only)
          Record        \* TRUE: keep the history variable (behaviour enumeration)

\* =======================================================================================
\* 1. Vocabulary
\* =======================================================================================
Keys        == {"k", "kNs", "kName", "kKind"}        \* same parent / other namespace / other name / other kind
Undecodable == {"badjson", "empty", "wrongtype"}     \* body classes no JSON decoder can turn into a response
StrictBad   == {"unknown", "dup"}                    \* decodable, but with unknown / duplicate fields
Classes     == {"valid"} \cup StrictBad \cup Undecodable

B(id, cls) == [id |-> id, cls |-> cls]
NoBody     == B(0, "none")
EmptyBody  == B(0, "empty")

\* Retry-After header.  form "date": an RFC1123 date v whole seconds after the second in which
\* the clock stands; the clock stands NowMs milliseconds into that second.
NoRA        == [form |-> "none", v |-> 0]
RA(form, v) == [form |-> form, v |-> v]
NowMs       == 750
CeilDiv(a, b) == -((-a) \div b)
Delay(ra) == CASE ra.form = "int"  -> ra.v
               [] ra.form = "date" -> CeilDiv(ra.v * 1000 - NowMs, 1000)
               [] OTHER            -> 0              \* absent or garbage: no delay is given
\* forms for which the statement fixes the delay (a negative number of seconds or a date in the
\* past "gives" no delay; the monitor is silent there)
JudgedRA(ra) == \/ ra.form \in {"none", "junk"}
                \/ (ra.form = "int" /\ ra.v >= 0)
                \/ (ra.form = "date" /\ ra.v >= 1)

\* Answers.  st 0 = transport error, st 1 = client timeout, otherwise the HTTP status.
\* etag 0 = no ETag header.  kind "fix": as written; "wb": well-behaved hook whose current
\* content is (etag, body): 304 iff If-None-Match equals etag; "cond": 304 iff If-None-Match was
\* sent at all (a hook whose own ETag is whatever the caller believes); "skip": the call is not made.
Ans(kind, st, etag, ra, body) == [kind |-> kind, st |-> st, etag |-> etag, ra |-> ra, body |-> body]
Fix(st, etag, ra, body) == Ans("fix", st, etag, ra, body)
WB(etag, body)          == Ans("wb", 200, etag, NoRA, body)
Cond(etag, body)        == Ans("cond", 200, etag, NoRA, body)
SkipAns                 == Ans("skip", 0, 0, NoRA, NoBody)
NoAns                   == Ans("none", 0, 0, NoRA, NoBody)
Resolve(a, inm) ==
  CASE a.kind = "wb"   -> IF inm = a.etag THEN Fix(304, a.etag, NoRA, EmptyBody) ELSE Fix(200, a.etag, NoRA, a.body)
    [] a.kind = "cond" -> IF inm # 0      THEN Fix(304, inm, NoRA, EmptyBody)    ELSE Fix(200, a.etag, NoRA, a.body)
    [] OTHER           -> a

\* cache entries (pkg/cache over zcache: an expired item is not returned by Get; Set replaces)
NoEntry == [has |-> FALSE, exp |-> FALSE, etag |-> 0, body |-> NoBody]
Hit(e)  == e.has /\ ~e.exp

\* outcome of Call(): k in "ok" (decoded body) | "err" | "retry" (TooManyRequestError, after) | "panic"
Out(k, body, after, errc) == [k |-> k, body |-> body, after |-> after, errc |-> errc]
NoOut   == Out("none", NoBody, 0, "")
Err(c)  == Out("err", NoBody, 0, c)

\* =======================================================================================
\* 2. What the implementation does (Variant "code") / is meant to do (Variant "intended")
\* =======================================================================================
\* enrichHeaders: plain executor sends nothing; ETag executor sends the ETag of a live entry
ModelInm(p, entry) == IF p.etagOn /\ Hit(entry) THEN entry.etag ELSE 0

\* isStatusSupported
StatusSupported(p, inm, r) ==
  \/ r.st = 200
  \/ (p.etagOn /\ r.st \in {304, 412} /\ inm # 0)

\* adjustResponse of the ETag executor, 200 branch: store (ETag, body) if an ETag header came.
\* The store happens BEFORE decoding, so an undecodable or strict-rejected body is cached too.
StoreAfter(p, entry, inm, r) ==
  IF p.etagOn /\ r.st = 200 /\ r.etag # 0
    THEN [has |-> TRUE, exp |-> FALSE, etag |-> r.etag, body |-> r.body]
    ELSE entry

Decode(variant, p, body) ==
  IF body.cls \in Undecodable THEN Err("decode")
  ELSE IF p.mode = "strict" /\ (variant = "code" \/ body.cls \in StrictBad) THEN Err("strict")
  ELSE Out("ok", body, 0, "")

\* webhookExecutor.Call from `client.Do` on
ModelOut(variant, p, entry, inm, r) ==
  IF r.st \in {0, 1} THEN Err("http")
  ELSE IF r.st = 429 THEN Out("retry", NoBody, Delay(r.ra), "")
  ELSE IF ~StatusSupported(p, inm, r) THEN Err("status")
  ELSE IF r.st = 200 THEN Decode(variant, p, r.body)
  ELSE \* 304 / 412 with If-None-Match sent: body from the cache
       IF ~Hit(entry) THEN Err("nocache")
       ELSE IF variant = "intended" /\ entry.etag # inm THEN Err("stale")   \* entry replaced meanwhile: fail, caller retries
       ELSE Decode(variant, p, entry.body)

\* =======================================================================================
\* 3. Property C19, clause by clause, over one finished call
\*      p     scenario parameters (etagOn, mode)
\*      inm   If-None-Match value the call sent (0 = none)
\*      r     the answer it got
\*      o     its outcome
\*      g     ghost facts at the instant of Adjust:
\*              cw    bodies that were cached for the call's key together with ETag = inm
\*              live  the key's entry is live and carries ETag = inm
\*              cur   the key's entry at that instant
\* =======================================================================================
GoodStatus(p, inm, r) == r.st = 200 \/ (r.st \in {304, 412} /\ p.etagOn /\ inm # 0)

\* "succeeds only on HTTP 200 or - with ETag support on and an If-None-Match header sent - on 304/412"
P_OkOnly(p, inm, r, o) == o.k = "ok" => GoodStatus(p, inm, r)

\* "in which case the body used is the one that was cached together with exactly the ETag that
\* was sent" (and on 200 the body used is the body of that response)
P_Body304(p, inm, r, o, g) ==
  (o.k = "ok" /\ GoodStatus(p, inm, r)) => IF r.st = 200 THEN o.body = r.body ELSE o.body \in g.cw

\* "any other status, a timeout or an undecodable body is an error"
P_ErrElse(p, inm, r, o) ==
  /\ o.k \in {"ok", "err", "retry"}
  /\ (~GoodStatus(p, inm, r) /\ r.st # 429) => o.k = "err"
  /\ (r.st = 200 /\ r.body.cls \in Undecodable) => o.k = "err"
  /\ o.k = "ok" => o.body.cls \notin Undecodable

\* "429 yields the retry delay given by Retry-After"
P_Retry429(p, r, o) ==
  /\ r.st = 429 => (o.k = "retry" /\ (JudgedRA(r.ra) => o.after = Delay(r.ra)))
  /\ o.k = "retry" => r.st = 429

\* "In strict mode a response with unknown or duplicate fields is rejected and a well-formed one
\* is accepted; in loose mode both are accepted."
WellFormedFor(p, cls) == cls = "valid" \/ (p.mode = "loose" /\ cls \in StrictBad)
Acceptable(p, inm, r, g) ==
  \/ (r.st = 200 /\ WellFormedFor(p, r.body.cls))
  \/ (r.st \in {304, 412} /\ GoodStatus(p, inm, r) /\ g.live /\ WellFormedFor(p, g.cur.body.cls))
P_Strict(p, inm, r, o, g) ==
  /\ (p.mode = "strict" /\ r.st = 200 /\ r.body.cls \in StrictBad) => o.k = "err"
  /\ (p.mode = "strict" /\ o.k = "ok") => o.body.cls \notin StrictBad
  /\ Acceptable(p, inm, r, g) => o.k = "ok"

\* summary of the five clauses: what the property demands of the outcome (printed with scenarios)
Must(p, inm, r, g) ==
  IF r.st = 429 THEN [k |-> "retry", body |-> 0, after |-> IF JudgedRA(r.ra) THEN Delay(r.ra) ELSE -999]
  ELSE IF ~GoodStatus(p, inm, r) THEN [k |-> "err", body |-> 0, after |-> 0]
  ELSE IF r.st = 200 THEN IF WellFormedFor(p, r.body.cls) THEN [k |-> "ok", body |-> r.body.id, after |-> 0]
                                                          ELSE [k |-> "err", body |-> 0, after |-> 0]
  ELSE IF g.live THEN IF WellFormedFor(p, g.cur.body.cls) THEN [k |-> "ok", body |-> g.cur.body.id, after |-> 0]
                                                          ELSE [k |-> "err", body |-> 0, after |-> 0]
  ELSE [k |-> "err-or-ok-with-a-body-cached-with-the-etag-sent", body |-> 0, after |-> 0]
NoMust == [k |-> "none", body |-> 0, after |-> 0]

\* ghost facts from the entry of the call's key and the history of cached pairs of that key
GhostOf(entry, pairsOfKey, inm) ==
  [cw   |-> { q[2] : q \in { x \in pairsOfKey : x[1] = inm } },
   live |-> Hit(entry) /\ inm # 0 /\ entry.etag = inm,
   cur  |-> entry]
NoGhost == [cw |-> {}, live |-> FALSE, cur |-> NoEntry]

\* signatures of the two deviations known from reading (DESIGN.md section 9, #8)
\* (a) the 304 was answered with the body of the entry that replaced the one whose ETag was sent
Sig304BodyOfOtherEtag(p, inm, r, o, g, pairsOfKey) ==
  /\ o.k = "ok" /\ r.st \in {304, 412} /\ GoodStatus(p, inm, r)
  /\ Hit(g.cur) /\ g.cur.etag # inm /\ o.body = g.cur.body
  /\ \E x \in pairsOfKey : x[1] = inm          \* the ETag sent did come from this key's entry
\* (b) strict mode rejects a body without any strict error
SigStrictRejectsValid(p, inm, r, o, g) ==
  /\ p.mode = "strict" /\ o.k = "err" /\ o.errc = "strict"
  /\ Acceptable(p, inm, r, g)

\* =======================================================================================
\* 4. The state machine
\* =======================================================================================
VARIABLES par,    \* scenario parameters
          cache,  \* Keys -> entry                         (the executor's ETag cache)
          pairs,  \* Keys -> set of <<etag, body>> ever cached under the key     (ghost)
          pc,     \* call -> "start" | "sent" | "answered" | "done"
          prog,   \* call -> the answer programme the hook chose
          inm,    \* call -> If-None-Match sent
          resp,   \* call -> resolved answer
          out,    \* call -> outcome
          gh,     \* call -> ghost facts captured at Adjust                      (ghost)
          want,   \* call -> Must(...) captured at Adjust                        (ghost)
          xleft,  \* expiry budget
          hist    \* schedule so far (only if Record)
vars == <<par, cache, pairs, pc, prog, inm, resp, out, gh, want, xleft, hist>>

KeyOf(c) == par.keys[c]
Log(e)   == IF Record THEN Append(hist, e) ELSE hist
InFlight == { c \in Calls : pc[c] \in {"sent", "answered"} }
CanStart(c) == \A d \in Calls : Phase[d] < Phase[c] => pc[d] = "done"

Init ==
  /\ par \in Params
  /\ cache = [k \in Keys |-> NoEntry] /\ pairs = [k \in Keys |-> {}]
  /\ pc = [c \in Calls |-> "start"] /\ prog = [c \in Calls |-> NoAns]
  /\ inm = [c \in Calls |-> 0] /\ resp = [c \in Calls |-> NoAns] /\ out = [c \in Calls |-> NoOut]
  /\ gh = [c \in Calls |-> NoGhost] /\ want = [c \in Calls |-> NoMust]
  /\ xleft = par.exp /\ hist = <<>>

\* --- actions with the observed value as a parameter (the trace specification feeds the logged
\* --- value, the model feeds its own prediction)
EnrichTo(c, v) ==
  /\ pc[c] = "start"
  /\ pc' = [pc EXCEPT ![c] = "sent"] /\ inm' = [inm EXCEPT ![c] = v]
  /\ UNCHANGED <<par, cache, pairs, prog, resp, out, gh, want, xleft>>

ServeWith(c, a) ==
  /\ pc[c] = "sent"
  /\ pc' = [pc EXCEPT ![c] = "answered"]
  /\ prog' = [prog EXCEPT ![c] = a] /\ resp' = [resp EXCEPT ![c] = Resolve(a, inm[c])]
  /\ UNCHANGED <<par, cache, pairs, inm, out, gh, want, xleft>>

AdjustTo(c, o) ==
  LET k == KeyOf(c)
      g == GhostOf(cache[k], pairs[k], inm[c])
      e == StoreAfter(par, cache[k], inm[c], resp[c])
  IN /\ pc[c] = "answered"
     /\ pc' = [pc EXCEPT ![c] = "done"] /\ out' = [out EXCEPT ![c] = o]
     /\ gh' = [gh EXCEPT ![c] = g] /\ want' = [want EXCEPT ![c] = Must(par, inm[c], resp[c], g)]
     /\ cache' = [cache EXCEPT ![k] = e]
     /\ pairs' = [pairs EXCEPT ![k] = IF par.etagOn /\ resp[c].st = 200 /\ resp[c].etag # 0
                                        THEN @ \cup {<<resp[c].etag, resp[c].body>>} ELSE @]
     /\ UNCHANGED <<par, prog, inm, resp, xleft>>

\* --- the model's own steps
Enrich(c) == CanStart(c) /\ EnrichTo(c, ModelInm(par, cache[KeyOf(c)])) /\ hist' = Log([s |-> "E", c |-> c])
Serve(c)  == \E a \in AnsOf(c, par) : a.kind # "skip" /\ ServeWith(c, a) /\ hist' = Log([s |-> "S", c |-> c])
Adjust(c) == /\ AdjustTo(c, ModelOut(Variant, par, cache[KeyOf(c)], inm[c], resp[c]))
             /\ hist' = Log([s |-> "A", c |-> c])
\* the call is not made at all (e.g. no priming call: the cache starts empty)
Skip(c) ==
  /\ pc[c] = "start" /\ CanStart(c) /\ SkipAns \in AnsOf(c, par)
  /\ pc' = [pc EXCEPT ![c] = "done"] /\ prog' = [prog EXCEPT ![c] = SkipAns]
  /\ out' = [out EXCEPT ![c] = Out("skip", NoBody, 0, "")]
  /\ hist' = Log([s |-> "K", c |-> c])
  /\ UNCHANGED <<par, cache, pairs, inm, resp, gh, want, xleft>>
\* every live entry of the executor's cache expires (cacheTimeoutSeconds elapsed)
ExpireAll == [k \in Keys |-> IF cache[k].has THEN [cache[k] EXCEPT !.exp = TRUE] ELSE cache[k]]
Expire ==
  /\ xleft > 0 /\ ExpireMode # "none"
  /\ \E k \in Keys : Hit(cache[k])
  /\ \E c \in Calls : pc[c] # "done"
  /\ ExpireMode = "boundary" => InFlight = {}
  /\ cache' = ExpireAll /\ xleft' = xleft - 1
  /\ hist' = Log([s |-> "X", c |-> 0])
  /\ UNCHANGED <<par, pairs, pc, prog, inm, resp, out, gh, want>>

Next ==
  IF MergeServe /\ \E d \in Calls : pc[d] = "sent"
    THEN \E d \in Calls : Serve(d)
    ELSE \/ \E c \in Calls : Enrich(c) \/ Serve(c) \/ Adjust(c) \/ Skip(c)
         \/ Expire

Spec == Init /\ [][Next]_vars

\* =======================================================================================
\* 5. Invariants = the clauses of section 3 over every finished call
\* =======================================================================================
Fin(c) == pc[c] = "done" /\ out[c].k # "skip"
C19_OkOnly   == \A c \in Calls : Fin(c) => P_OkOnly(par, inm[c], resp[c], out[c])
C19_Body304  == \A c \in Calls : Fin(c) => P_Body304(par, inm[c], resp[c], out[c], gh[c])
C19_ErrElse  == \A c \in Calls : Fin(c) => P_ErrElse(par, inm[c], resp[c], out[c])
C19_Retry429 == \A c \in Calls : Fin(c) => P_Retry429(par, resp[c], out[c])
C19_Strict   == \A c \in Calls : Fin(c) => P_Strict(par, inm[c], resp[c], out[c], gh[c])
\* the known deviations of the code are exactly the ones the signatures describe
C19_Body304_UpToSig ==
  \A c \in Calls : Fin(c) => \/ P_Body304(par, inm[c], resp[c], out[c], gh[c])
                             \/ Sig304BodyOfOtherEtag(par, inm[c], resp[c], out[c], gh[c], pairs[KeyOf(c)])
C19_Strict_UpToSig ==
  \A c \in Calls : Fin(c) => \/ P_Strict(par, inm[c], resp[c], out[c], gh[c])
                             \/ SigStrictRejectsValid(par, inm[c], resp[c], out[c], gh[c])
\* the printed expectation agrees with the intended behaviour
WantConsistent ==
  Variant = "intended" =>
    \A c \in Calls : Fin(c) => (want[c].k \in {"ok", "err", "retry"} =>
                                   /\ out[c].k = want[c].k
                                   /\ (want[c].k = "ok" => out[c].body.id = want[c].body)
                                   /\ (want[c].k = "retry" /\ want[c].after # -999 => out[c].after = want[c].after))
TypeOK ==
  /\ \A c \in Calls : pc[c] \in {"start", "sent", "answered", "done"}
  /\ \A k \in Keys : cache[k].has => <<cache[k].etag, cache[k].body>> \in pairs[k]
Terminal == \A c \in Calls : pc[c] = "done"
=============================================================================
