SPECIFICATION Spec
CONSTANTS
  NS = 3
  NR = 2
  NO = 2
  MaxOps = 5
  MaxH = 3
  Ticks = FALSE
  Beh = TRUE
  Mut = "none"
  AddEv = TRUE
CHECK_DEADLOCK FALSE
INVARIANTS Emit
