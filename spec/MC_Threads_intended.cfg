SPECIFICATION Spec
CONSTANTS
  Variant = "intended"
  Workers = 2
  WithCustomize = TRUE
  WithRolling = TRUE
  WithSSA = TRUE
INVARIANTS C17_NoRace
CHECK_DEADLOCK FALSE
