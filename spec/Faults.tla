------------------------------ MODULE Faults ------------------------------
(* Fault enumeration for C12: every request (and the hook call) of a sync that exercises  *)
(* every kind of request metacontroller makes -- finalizer add, live recheck, adoption,  *)
(* release, delete, create, update, status read and write -- x every error kind, singly  *)
(* (and in pairs), followed by fault-free syncs.                                         *)
(*                                                                                     *)
(* The module carries the error-handling TABLE of the code as written (which failure at  *)
(* which request makes the sync fail) and checks it against the statement's rule: a      *)
(* failure that is not one of the documented benign races must fail the sync.            *)
EXTENDS Integers, Sequences, FiniteSets, TLC, Json

CONSTANTS Bases,     \* subset of {"compInPlace", "compRecreate", "compRolling", "compFinalize", "compCustomize", "decorator"}
                     \* (compCustomize: a customize hook selects a related object and the sync hook's answer depends on the related
                     \* map it is sent; the hook fault hits the CUSTOMIZE call; compFinalize: the parent is
                     \* being deleted, the finalize hook drains the children and then the finalizer is removed; compRolling: the child kind
                     \* is updated RollingRecreate, so the sync goes through ControllerRevisions and per-revision hook calls)
          Codes,     \* subset of {404, 409, 410, 422, 500, 504, 0} (504 = the API server's own Timeout status;     (0 = transport error / timeout)
          HookCodes, \* subset of {500, 429, 0, 404}
          Pairs      \* BOOLEAN: also enumerate pairs of faults

\* requests of the faulty sync, addressed by verb / kind / name / occurrence
T(v, k, n, i) == [verb |-> v, kind |-> k, name |-> n, nth |-> i]
Targets(b) ==
  IF b = "compCustomize" THEN {T("create", "Thing", "a", 1)}
  ELSE IF b = "compFinalize"
  THEN {T("delete", "Thing", "d", 1), T("delete", "Thing", "e", 1),          \* first sync: the finalize hook wants nothing
        T("get", "Parent", "p", 1), T("updateStatus", "Parent", "p", 1),     \* its status write
        T("get", "Parent", "p", 2), T("update", "Parent", "p", 1)}           \* second sync: finalized, the finalizer is removed (live read, then write)
  ELSE IF b = "decorator"
  THEN {T("get", "Parent", "p", 1), T("update", "Parent", "p", 1),            \* finalizer add
        T("updateStatus", "Parent", "p", 1), T("update", "Parent", "p", 2),   \* decorate: status, then labels/annotations
        T("delete", "Thing", "e", 1), T("create", "Thing", "a", 1),
        T("update", "Thing", "d", 1)}
  ELSE {T("get", "Parent", "p", 1), T("update", "Parent", "p", 1),            \* finalizer add (AtomicUpdate)
        T("get", "Parent", "p", 2),                                           \* CanAdopt live recheck
        T("get", "Thing", "b", 1), T("update", "Thing", "b", 1),              \* adoption
        T("get", "Thing", "c", 1), T("update", "Thing", "c", 1),              \* release
        T("delete", "Thing", "e", 1), T("create", "Thing", "a", 1),
        T(IF b = "compInPlace" THEN "update" ELSE "delete", "Thing", "d", 1),
        T("get", "Parent", "p", 3), T("updateStatus", "Parent", "p", 1)}
       \cup (IF b = "compRolling" THEN {T("create", "ControllerRevision", "", 1)} ELSE {})

\* ---- the statement's rule ---------------------------------------------------------------
\* documented benign races: object already gone (404), already exists on create (409 on create),
\* optimistic-lock conflict on a child or parent update (409 on update / updateStatus).  410 is
\* "gone" as well; the rule is silent about it, so nothing is demanded for it.
Benign(t, c) == \/ c = 404
                \/ c = 410
                \/ (c = 409 /\ t.verb \in {"create", "update", "updateStatus"})
MustError(t, c) == ~Benign(t, c) /\ ~(c = 409 /\ t.verb = "get")
\* ---- the code as written ------------------------------------------------------------------
CodeErr(b, t, c) ==
  CASE b = "compFinalize" -> \/ c \in {500, 0, 422, 504}
                             \/ (c = 409 /\ t.verb = "delete")                \* (a conflict on the finalizer write is retried on a fresh read)
                             \/ (c = 404 /\ t.kind = "Parent" /\ (t.verb = "update" \/ t.nth = 2))   \* the finalizer cannot be removed from a parent that is gone
                             \/ c = 410
    [] c \in {500, 0, 422, 504} -> TRUE
    [] c = 404 -> \/ (b # "decorator" /\ t.kind = "Parent" /\ t.verb \in {"get", "update"} /\ t.nth < 3)   \* finalizer sync / recheck cannot proceed
                  \/ (b = "decorator" /\ t.kind = "Parent" /\ (t.verb = "get" \/ (t.verb = "update" /\ t.nth = 1)))
                  \/ t.verb = "create"
    [] c = 409 -> t.verb = "delete" \/ t.kind = "ControllerRevision"   \* a revision write that fails aborts the sync, whatever the reason
    [] c = 410 -> ~(t.kind = "Thing" /\ t.name = "c")          \* only the release path tolerates Gone
    [] OTHER   -> TRUE
HookErr(c) == c # 200          \* any hook failure fails the sync ...
HookRequeueAfter(b, c) == b # "decorator" /\ c = 429     \* ... except 429 for composites: AddAfter(Retry-After), no error

VARIABLES base, f1, f2, hk
vars == <<base, f1, f2, hk>>
NoF == [on |-> FALSE, t |-> T("", "", "", 0), code |-> 0]
Init ==
  /\ base \in Bases
  /\ \/ (hk = -1 /\ \E t \in Targets(base), c \in Codes : f1 = [on |-> TRUE, t |-> t, code |-> c] /\ ~(c = 409 /\ t.verb = "get")
         /\ \/ f2 = NoF
            \/ (Pairs /\ \E t2 \in Targets(base), c2 \in Codes : f2 = [on |-> TRUE, t |-> t2, code |-> c2] /\ t2 # t /\ ~(c2 = 409 /\ t2.verb = "get")))
     \/ (hk \in HookCodes /\ f1 = NoF /\ f2 = NoF)
Next == UNCHANGED vars
Spec == Init /\ [][Next]_vars

\* design level: the code's table never swallows what the statement says must be reported
C12_TableSound == (f1.on /\ MustError(f1.t, f1.code)) => CodeErr(base, f1.t, f1.code)

Emit == PrintT("SCN|" \o ToJson([base |-> base, f1 |-> f1, f2 |-> f2, hook |-> hk,
                                 expectErr |-> IF hk # -1 THEN (HookErr(hk) /\ ~HookRequeueAfter(base, hk))
                                               ELSE (CodeErr(base, f1.t, f1.code) \/ (f2.on /\ CodeErr(base, f2.t, f2.code))),
                                 must |-> IF hk # -1 THEN ~HookRequeueAfter(base, hk)
                                          ELSE (MustError(f1.t, f1.code) \/ (f2.on /\ MustError(f2.t, f2.code)))]))
=============================================================================
