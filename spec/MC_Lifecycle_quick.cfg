SPECIFICATION Spec
CONSTANTS
  NN = 2
  Kind = "composite"
  Pal <- MCPal
  Allowed <- Al_full
  MaxLen = 5
  Fixed <- FxAll
  Mut = "none"
  Beh = FALSE
  MxAll = FALSE
CHECK_DEADLOCK FALSE
INVARIANTS VariantsOK Inv_Counters Inv_OnePerObject Inv_RestartOnSpec Inv_NoopOnSame Inv_StopOnDelete Inv_QuietAfterStop Inv_BadConfigInert
