SPECIFICATION Spec
CONSTANTS
  Pairs <- PAll
  CtlKinds <- KBoth
  Rounds = 14
INVARIANTS Emit
CHECK_DEADLOCK FALSE
