---------------------------- MODULE MC_Requeue ----------------------------
EXTENDS Requeue
KAll == {"composite", "rolling", "decorator"}
OAll == {"ok", "hook500", "hook429", "apiErr", "outage"}
R(t, m) == [txt |-> t, ms |-> m]
RAll == {R("0", 0), R("5", 5000), R("9", 9000), R("-3", 0), R("0.5", 500), R("none", 0)}
=============================================================================
