------------------------------ MODULE TraceHook ------------------------------
(* Trace specification for property C19 (hook transport).                              *)
(*                                                                                     *)
(* One ndjson line = one step of what the REAL webhook executor did while the harness  *)
(* (harness/hooks/verif_transport_test.go) replayed a TLC-generated scenario:          *)
(*   Reset   scenario parameters (ETag on/off, strict/loose, cache keys of the calls)  *)
(*   Enrich  call c is parked inside http.Client.Do; If-None-Match value it sent       *)
(*   Serve   the answer the hook decided on (status, ETag, Retry-After, body)          *)
(*   Adjust  Call() returned: ok + decoded body / error / TooManyRequestError + delay  *)
(*   Expire  cacheTimeoutSeconds was waited out                                        *)
(* The trace drives the VARIABLES AND ACTIONS of HookTransport.tla (EnrichTo, ServeWith,*)
(* AdjustTo, ExpireAll) with the logged values; an event the specification cannot take  *)
(* (e.g. an Adjust of a call that was never served) leaves the trace unconsumed, which  *)
(* is broken machinery, never a violation.                                              *)
(* The PROPERTY is judged by the clause operators P_* of HookTransport.tla - the same   *)
(* definitions the exhaustive model checking uses - as reporting monitors evaluated in  *)
(* the state in which the Adjust event is about to be applied.                          *)
(* Drift (the outcome predicted by the model of the code / of the intended behaviour    *)
(* differs from the real outcome) is reported separately and is never a violation.      *)
EXTENDS HookTransport, Json, IOUtils

Trace == ndJsonDeserialize(IOEnv.VERIF_TRACE)
N     == Len(Trace)

VARIABLES l, sc
tvars == <<vars, l, sc>>

\* constants of HookTransport that the trace specification does not use
TrCalls  == 1..6
TrPhase  == [c \in TrCalls |-> 1]
TrParams == {}
TrAns(c, p) == {}

E       == Trace[l]
HasE    == l <= N
IsEv(k) == HasE /\ E.ev = k

ParOf(e) == [etagOn |-> e.par.etagOn, mode |-> e.par.mode,
             keys |-> [c \in Calls |-> IF c <= Len(e.keys) THEN e.keys[c] ELSE "k"], exp |-> 0]
RealOut(e) == Out(e.out.k, e.out.body, e.out.after, e.out.errc)

ReportS(name, sig, facts) ==
  PrintT("MONITOR|C19|" \o name \o "|" \o sig \o "|" \o E.sc \o "|" \o ToString(E.i) \o "|" \o ToJson(facts))
Broken(what, facts) == PrintT("BROKEN|" \o what \o "|" \o E.sc \o "|" \o ToString(E.i) \o "|" \o ToJson(facts))

\* (monitor operators are prefixed M_ because HookTransport already defines the state invariants
\* C19_*; the names printed in MONITOR lines are the property clause names C19_*)
\* ---- the finished call the Adjust event is about ---------------------------------------
AC   == E.c
AKey == KeyOf(AC)
AOut == RealOut(E)
\* ghost facts at the instant of Adjust; `fresh` = no entry can have timed out unnoticed
AG   == LET g == GhostOf(cache[AKey], pairs[AKey], inm[AC]) IN [g EXCEPT !.live = @ /\ E.fresh]
Facts == [c |-> AC, key |-> AKey, etagOn |-> par.etagOn, mode |-> par.mode, inm |-> inm[AC],
          st |-> resp[AC].st, etag |-> resp[AC].etag, ra |-> resp[AC].ra, served |-> resp[AC].body,
          out |-> AOut, cachedEtag |-> cache[AKey].etag, cachedBody |-> cache[AKey].body,
          cachedLive |-> Hit(cache[AKey]), cachedWithEtagSent |-> AG.cw]
Judged == IsEv("Adjust") /\ AC \in Calls /\ pc[AC] = "answered"

M_C19_OkOnly ==
  Judged => \/ P_OkOnly(par, inm[AC], resp[AC], AOut)
            \/ ReportS("C19_OkOnly", "-", Facts)
M_C19_Body304 ==
  Judged => \/ P_Body304(par, inm[AC], resp[AC], AOut, AG)
            \/ ReportS("C19_Body304",
                       IF Sig304BodyOfOtherEtag(par, inm[AC], resp[AC], AOut, AG, pairs[AKey])
                         THEN "Sig_C19_304BodyOfOtherEtag" ELSE "-", Facts)
M_C19_ErrElse ==
  Judged => \/ P_ErrElse(par, inm[AC], resp[AC], AOut)
            \/ ReportS("C19_ErrElse", "-", Facts)
M_C19_Retry429 ==
  Judged => \/ P_Retry429(par, resp[AC], AOut)
            \/ ReportS("C19_Retry429", "-", Facts)
M_C19_Strict ==
  Judged => \/ P_Strict(par, inm[AC], resp[AC], AOut, AG)
            \/ ReportS("C19_Strict",
                       IF SigStrictRejectsValid(par, inm[AC], resp[AC], AOut, AG)
                         THEN "Sig_C19_StrictRejectsValid" ELSE "-", Facts)

\* ---- drift: model prediction vs reality (never a violation) ----------------------------
Same(o, m) == o.k = m.k /\ o.body = m.body /\ o.after = m.after
DriftOut ==
  Judged =>
    LET mc == ModelOut("code", par, cache[AKey], inm[AC], resp[AC])
        mi == ModelOut("intended", par, cache[AKey], inm[AC], resp[AC])
        what == IF Same(AOut, mc) THEN (IF Same(AOut, mi) THEN "" ELSE "not-intended")
                ELSE (IF Same(AOut, mi) THEN "not-code" ELSE "neither")
    IN what = "" \/ ReportS("DRIFT", what, [c |-> AC, real |-> AOut, code |-> mc, intended |-> mi])
DriftInm ==
  (IsEv("Enrich") /\ E.c \in Calls) =>
    LET m == ModelInm(par, cache[KeyOf(E.c)])
    IN m = E.inm \/ ReportS("DRIFT", "inm", [c |-> E.c, real |-> E.inm, model |-> m])
Drift == DriftOut /\ DriftInm

\* ---- harness self-checks ----------------------------------------------------------------
Wiring ==
  /\ (IsEv("Enrich") /\ E.c \in Calls) => (E.key = KeyOf(E.c) \/ Broken("key", <<E.c, E.key>>))
  /\ (HasE /\ E.ev \in {"Enrich", "Serve", "Adjust"}) => (E.c \in Calls \/ Broken("call id", E.c))
  /\ HasE => (E.sc = sc \/ E.ev = "Reset" \/ Broken("scenario id", <<E.sc, sc>>))

\* ---- trace actions -----------------------------------------------------------------------
TraceInit ==
  /\ l = 1 /\ sc = ""
  /\ par = [etagOn |-> FALSE, mode |-> "loose", keys |-> [c \in Calls |-> "k"], exp |-> 0]
  /\ cache = [k \in Keys |-> NoEntry] /\ pairs = [k \in Keys |-> {}]
  /\ pc = [c \in Calls |-> "start"] /\ prog = [c \in Calls |-> NoAns]
  /\ inm = [c \in Calls |-> 0] /\ resp = [c \in Calls |-> NoAns] /\ out = [c \in Calls |-> NoOut]
  /\ gh = [c \in Calls |-> NoGhost] /\ want = [c \in Calls |-> NoMust]
  /\ xleft = 0 /\ hist = <<>>

TraceReset ==
  /\ par' = ParOf(E) /\ sc' = E.sc
  /\ cache' = [k \in Keys |-> NoEntry] /\ pairs' = [k \in Keys |-> {}]
  /\ pc' = [c \in Calls |-> "start"] /\ prog' = [c \in Calls |-> NoAns]
  /\ inm' = [c \in Calls |-> 0] /\ resp' = [c \in Calls |-> NoAns] /\ out' = [c \in Calls |-> NoOut]
  /\ gh' = [c \in Calls |-> NoGhost] /\ want' = [c \in Calls |-> NoMust]
  /\ UNCHANGED <<xleft, hist>>

TraceNext ==
  /\ HasE
  /\ l' = l + 1
  /\ CASE E.ev = "Reset"  -> TraceReset
       [] E.ev = "Enrich" -> EnrichTo(E.c, E.inm) /\ UNCHANGED <<hist, sc>>
       [] E.ev = "Serve"  -> ServeWith(E.c, E.ans) /\ UNCHANGED <<hist, sc>>
       [] E.ev = "Adjust" -> AdjustTo(E.c, AOut) /\ UNCHANGED <<hist, sc>>
       [] E.ev = "Expire" -> /\ cache' = ExpireAll
                             /\ UNCHANGED <<par, pairs, pc, prog, inm, resp, out, gh, want, xleft, hist, sc>>

TraceSpec == TraceInit /\ [][TraceNext]_tvars

\* every line consumed: the specification never got stuck on an event
TraceAccepted == TLCGet("stats").diameter - 1 = N
=============================================================================
