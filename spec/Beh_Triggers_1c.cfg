SPECIFICATION Spec
CONSTANTS
  MaxEv = 1
  Focus <- FAll
  Kinds <- KBoth
  Width = "core"
  Real = TRUE
  Fixed = FALSE
  Beh = TRUE
INVARIANTS Emit
CHECK_DEADLOCK FALSE
