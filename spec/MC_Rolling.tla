---------------------------- MODULE MC_Rolling ----------------------------
EXTENDS Rolling
O2 == <<"a", "b">>
O3 == <<"a", "b", "c">>
MBoth == {"RollingInPlace", "RollingRecreate"}
BBoth == {TRUE, FALSE}
BNo == {FALSE}
OCAll == {"none", "Unknown", "False"}
OCTwo == {"none", "False"}
OCNone == {"none"}
PAll == {"fair", "noOG", "zeroOG", "strOG", "stuck"}
PThree == {"fair", "zeroOG", "stuck"}
PFair == {"fair"}
=============================================================================
