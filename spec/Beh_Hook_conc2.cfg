SPECIFICATION Spec
CHECK_DEADLOCK FALSE
CONSTANTS
  Calls <- Calls3
  Phase <- PhaseP2
  Params <- Conc2Params
  AnsOf <- AnsConc2
  Variant = "code"
  ExpireMode = "boundary"
  MergeServe = FALSE
  Record = TRUE
INVARIANT Emit
