---------------------------- MODULE MC_MultiKind ----------------------------
EXTENDS MultiKind
Ms == {"OnDelete", "Recreate", "InPlace", "RollingRecreate", "RollingInPlace"}
PAll == { <<a, b>> : a \in Ms, b \in Ms }
KBoth == {"composite", "decorator"}
=============================================================================
