---------------------------- MODULE MC_Fin ----------------------------
EXTENDS Fin
FAll  == {"drain", "never", "done", "hasty", "keep"}
FOne  == {"drain"}
KBoth == {"composite", "decorator"}
KComp == {"composite"}
=============================================================================
