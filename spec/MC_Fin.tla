---------------------------- MODULE MC_Fin ----------------------------
EXTENDS Fin
FAll  == {"drain", "never", "done", "hasty"}
FOne  == {"drain"}
KBoth == {"composite", "decorator"}
KComp == {"composite"}
=============================================================================
