---------------------------- MODULE MC_Fin ----------------------------
EXTENDS Fin
FAll  == {"drain", "never", "done"}
FOne  == {"drain"}
KBoth == {"composite", "decorator"}
KComp == {"composite"}
=============================================================================
