SPECIFICATION Spec
CHECK_DEADLOCK FALSE
CONSTANTS
  Calls <- Calls3
  Phase <- PhaseSeq
  Params <- SeqParams
  AnsOf <- AnsSeq
  Variant = "code"
  ExpireMode = "any"
  MergeServe = FALSE
  Record = FALSE
INVARIANT TypeOK
INVARIANT C19_OkOnly
INVARIANT C19_ErrElse
INVARIANT C19_Retry429
INVARIANT C19_Body304_UpToSig
INVARIANT C19_Strict_UpToSig
