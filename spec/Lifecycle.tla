------------------------------ MODULE Lifecycle ------------------------------
(* C20 -- hosted controllers follow their CompositeController / DecoratorController      *)
(* objects.                                                                                *)
(*                                                                                         *)
(* Two things live here, deliberately apart:                                               *)
(*  (1) the STATEMENT: what a controller configuration is worth (ClassOf: must start /     *)
(*      cannot start / unspecified), what a running instance subscribes to (UsesLo/Hi),    *)
(*      and the six clauses C20_* as predicates over one observation record X (event,      *)
(*      controller objects after it, instances before and after it, subscription / handler *)
(*      / WATCH counters, hook calls and API writes attributed to instances, error,        *)
(*      panic).  The clauses never look at how the reconciler works.                       *)
(*  (2) the MODEL OF THE CODE AS WRITTEN (StepF): Metacontroller.Reconcile of both kinds,  *)
(*      the constructors with their failure paths, Start/Stop and the shared informer      *)
(*      factory's reference counts.  Places where the code deviates from the statement are *)
(*      kept as they are and can be switched to the intended behaviour with Fixed.         *)
(*                                                                                         *)
(* MC_Lifecycle*.cfg check the clauses on all event sequences of the bounded instance;     *)
(* Beh_Lifecycle*.cfg enumerate the sequences for replay on the real code;                 *)
(* TraceLifecycle.tla evaluates the SAME clauses on what the real code did.                *)
EXTENDS Naturals, Integers, Sequences, FiniteSets, TLC, Json

CONSTANTS NN,       \* number of controller names; names are 1..NN
          Kind,     \* "composite" | "decorator"
          Pal,      \* palette: sequence of spec records; spec ids are 1..Len(Pal)
          Allowed,  \* Allowed[n]: spec ids name n may be given
          MaxLen,   \* number of events of a history
          Fixed,    \* repaired deviations, subset of {"etag", "stale", "dup"}; {} = the code as written
          Mut,      \* seeded deviation of the model (anti-vacuity), "none" otherwise
          Beh       \* TRUE: keep the event history and emit scenarios

Names == 1..NN
RES   == <<"pa", "pb", "cm", "th", "ns">>   \* abstract resources: two parent kinds, two child kinds, a CRD without status
NR    == 5
Rs    == 1..NR
Zero  == [r \in Rs |-> 0]
Range(f) == { f[i] : i \in DOMAIN f }

RECURSIVE SumTo(_, _)
SumTo(f, n) == IF n = 0 THEN 0 ELSE f[n] + SumTo(f, n - 1)

\* ---------------------------------------------------------------------------------------
\* (1a) configurations.  A spec is a record of traits:
\*   par   parent resource ("ghost" = unknown to discovery and without CRD)
\*   kids  child resources / attachments, a sequence (duplicates possible)
\*   strat every child rule carries updateStrategy InPlace
\*   hooks "set" | "nil";  sync: webhook traits of the sync hook
\*   cust, fin: "none" | "ok" | "bad" (a webhook with neither url nor service+path)
\*   sel   parent label selector "unset" | "ok" | "bad" (cannot be converted)
\*   tag   distinguishes hook addresses
NoWh   == [url |-> FALSE, svc |-> "unset", path |-> FALSE, port |-> FALSE, proto |-> FALSE,
           timeout |-> "unset", etag |-> "unset", mode |-> "unset"]
NoSpec == [par |-> "-", kids |-> <<>>, strat |-> FALSE, hooks |-> "nil", sync |-> NoWh,
           cust |-> "none", fin |-> "none", sel |-> "unset", tag |-> 0]

Known(r)      == r \in Range(RES)
KidsKnown(s)  == \A i \in DOMAIN s.kids : Known(s.kids[i])
HasDup(s)     == \E i, j \in DOMAIN s.kids : i < j /\ s.kids[i] = s.kids[j]
\* documented: either a full url, or a service (name and namespace) together with a path
WhUsable(w)   == w.url \/ (w.svc = "ok" /\ w.path)
TimeoutOdd(s) == s.hooks = "set" /\ s.sync.timeout \in {"zero", "neg"}

\* the statement: "a configuration that cannot start (unknown resource, no hooks, unusable
\* webhook settings, parent CRD without status subresource)"
CannotStart(s, kind) ==
  \/ ~Known(s.par) \/ ~KidsKnown(s)
  \/ s.hooks = "nil"
  \/ ~WhUsable(s.sync) \/ s.cust = "bad" \/ s.fin = "bad"
  \/ s.sel = "bad"
  \/ (kind = "composite" /\ s.par = "ns")
\* "valid": must run.  "invalid": must not run.  "lenient": the statement does not say
\* (a non-positive timeout is replaced by the default; the same child resource listed twice).
ClassOf(s, kind) == IF CannotStart(s, kind) THEN "invalid"
                    ELSE IF HasDup(s) \/ TimeoutOdd(s) THEN "lenient" ELSE "valid"

\* subscriptions a running instance holds per resource: at least one per distinct resource
\* it names, at most one per mention (parent, each child rule, related resource of the
\* customize hook).
Count(q, x)  == Cardinality({ i \in DOMAIN q : q[i] = x })
UsesHi(s) == [r \in Rs |-> (IF s.par = RES[r] THEN 1 ELSE 0) + Count(s.kids, RES[r])
                           + (IF s.cust = "ok" /\ RES[r] = "cm" THEN 1 ELSE 0)]
UsesLo(s) == [r \in Rs |-> (IF s.par = RES[r] THEN 1 ELSE 0) + (IF RES[r] \in Range(s.kids) THEN 1 ELSE 0)
                           + (IF s.cust = "ok" /\ RES[r] = "cm" THEN 1 ELSE 0)]

NoObj == [has |-> FALSE, spec |-> NoSpec]
NoRun == [has |-> FALSE, spec |-> NoSpec, id |-> 0, resp |-> FALSE]

\* ---------------------------------------------------------------------------------------
\* (1b) observations and leak accounting.
\* cnt = [w, r, h]: active WATCH streams at the server, factory reference counts, and
\* subscriptions with registered handlers, per resource.  A surplus over what the running
\* instances account for is a leak; it is carried along, and the step that CHANGES it is
\* the one held responsible.
ExpLo(run) == [r \in Rs |-> SumTo([n \in Names |-> IF run[n].has THEN UsesLo(run[n].spec)[r] ELSE 0], NN)]
ExpHi(run) == [r \in Rs |-> SumTo([n \in Names |-> IF run[n].has THEN UsesHi(run[n].spec)[r] ELSE 0], NN)]
NewLeak(o, lo, hi, old) ==
  [r \in Rs |-> IF o[r] - old[r] >= lo[r] /\ o[r] - old[r] <= hi[r] THEN old[r]
                ELSE IF o[r] - old[r] < lo[r] THEN o[r] - lo[r] ELSE o[r] - hi[r]]
Leak0 == [w |-> Zero, r |-> Zero, h |-> Zero]
LeakStep(run, cnt, refl, old) ==
  LET lo == ExpLo(run)
      hi == ExpHi(run)
      r2 == IF refl THEN NewLeak(cnt.r, lo, hi, old.r) ELSE old.r
      h2 == IF refl THEN NewLeak(cnt.h, lo, hi, old.h) ELSE old.h
      \* the server-side level "without it": one WATCH per resource somebody still holds
      base == [r \in Rs |-> IF hi[r] > 0 \/ (refl /\ r2[r] > 0) THEN 1 ELSE 0]
  IN [w |-> [r \in Rs |-> cnt.w[r] - base[r]], r |-> r2, h |-> h2]

NoX == [k |-> 0, ev |-> [t |-> "none", n |-> 1], obj |-> [n \in Names |-> NoObj],
        pre |-> [n \in Names |-> NoRun], run |-> [n \in Names |-> NoRun],
        err |-> FALSE, panic |-> FALSE, refl |-> TRUE,
        cnt |-> [w |-> Zero, r |-> Zero, h |-> Zero], lkPre |-> Leak0, lkPost |-> Leak0,
        traffic |-> 0, nDuring |-> {}, nAfter |-> {}]

\* ---------------------------------------------------------------------------------------
\* (1c) the clauses.  X.ev.n is the name the event is about.
EvSpec(X)      == X.obj[X.ev.n].spec
EvClass(X)     == ClassOf(EvSpec(X), Kind)
LeakChanged(X) == X.lkPost # X.lkPre
StopDue(X)     == X.ev.t \in {"update", "delete"} /\ X.pre[X.ev.n].has
Builds(X)      == X.ev.t \in {"create", "update", "noop"}

\* creating starts exactly one hosted controller, with the configuration of the object
C20_OnePerObject(X) ==
  /\ \A n \in Names : (X.obj[n].has /\ ClassOf(X.obj[n].spec, Kind) = "valid") =>
        (X.run[n].has /\ X.run[n].spec = X.obj[n].spec /\ X.run[n].resp)
  /\ \A n \in Names : (X.obj[n].has /\ ClassOf(X.obj[n].spec, Kind) = "lenient" /\ X.run[n].has) =>
        (X.run[n].spec = X.obj[n].spec /\ X.run[n].resp)
  /\ (Builds(X) /\ EvClass(X) = "valid") => ~X.panic
  /\ (X.ev.t \in {"create", "update"} /\ ~StopDue(X) /\ EvClass(X) = "valid") => ~LeakChanged(X)
\* a changed spec stops the old instance completely and starts a new one
C20_RestartOnSpec(X) ==
  (X.ev.t = "update" /\ X.pre[X.ev.n].has) =>
     LET n == X.ev.n IN
     /\ (X.pre[n].spec # EvSpec(X)) => ~(X.run[n].has /\ X.run[n].id = X.pre[n].id)
     /\ ~LeakChanged(X)
     /\ EvClass(X) = "valid" => (X.run[n].has /\ X.run[n].spec = EvSpec(X) /\ (X.pre[n].spec # EvSpec(X) => X.run[n].id # X.pre[n].id))
\* an update that leaves the spec unchanged does nothing (and no event disturbs the
\* instances of other objects)
C20_NoopOnSame(X) ==
  /\ \A m \in Names : ((m # X.ev.n \/ X.ev.t = "noop") /\ X.pre[m].has) => (X.run[m].has /\ X.run[m].id = X.pre[m].id)
  /\ X.ev.t = "noop" => ~LeakChanged(X)
  /\ (X.ev.t = "noop" /\ X.pre[X.ev.n].has) => X.traffic = 0
\* deleting stops the instance
C20_StopOnDelete(X) == X.ev.t = "delete" => (~X.run[X.ev.n].has /\ ~X.panic)
\* after a stop nothing is done on behalf of the instance and its subscriptions are released
Voices(run) == { [n |-> n, tag |-> run[n].spec.tag] : n \in { m \in Names : run[m].has } }
C20_QuietAfterStop(X) ==
  /\ X.nAfter \subseteq Voices(X.run)
  /\ X.nDuring \subseteq (Voices(X.run) \cup Voices(X.pre))
  /\ X.ev.t = "delete" => ~LeakChanged(X)
\* a configuration that cannot start leaves nothing running and does not take the process down
C20_BadConfigInert(X) ==
  /\ \A n \in Names : (X.obj[n].has /\ ClassOf(X.obj[n].spec, Kind) = "invalid") => ~X.run[n].has
  /\ (Builds(X) /\ EvClass(X) # "valid") => ~X.panic
  /\ (X.ev.t \in {"create", "update"} /\ ~StopDue(X) /\ EvClass(X) # "valid") => ~LeakChanged(X)

\* what must be running, for scenario files: per name [s: spec, c: "must" | "mustnot" | "may"]
WantOf(obj, sidOf) ==
  [n \in Names |-> IF ~obj[n].has THEN [s |-> 0, c |-> "mustnot"]
                   ELSE LET c == ClassOf(obj[n].spec, Kind) IN
                        [s |-> sidOf[n], c |-> IF c = "valid" THEN "must" ELSE IF c = "invalid" THEN "mustnot" ELSE "may"]]

\* ---------------------------------------------------------------------------------------
\* (2) the code as written.
\* Composite Reconcile looks up the parent CRD and its status subresource BEFORE it looks
\* at the map of running controllers: with an unresolvable parent it returns (error / nil)
\* and whatever runs for the name keeps running with the old configuration.
ParentUnresolvable(s) == ~Known(s.par) \/ s.par = "ns"
\* what the informers opened by a constructor amount to (every mention is a subscription;
\* with "dup" repaired a resource is subscribed to once per role)
Opened(s) == IF "dup" \in Fixed THEN [r \in Rs |-> (IF s.par = RES[r] THEN 1 ELSE 0) + (IF RES[r] \in Range(s.kids) THEN 1 ELSE 0)]
             ELSE [r \in Rs |-> (IF s.par = RES[r] THEN 1 ELSE 0) + Count(s.kids, RES[r])]
Related(s) == [r \in Rs |-> IF s.cust = "ok" /\ RES[r] = "cm" THEN 1 ELSE 0]
\* Stop() closes the informers kept in the maps (one per distinct resource and role)
Released(s) == UsesLo(s)
EtagPanics(s) == s.sync.etag = "timeout" /\ "etag" \notin Fixed
\* constructor: res "ok" | "err" | "panic"; left = subscriptions it leaves open when it does not succeed
Ctor(s) ==
  IF Kind = "composite" THEN
       IF ~Known(s.par) THEN [res |-> "err", left |-> Zero]
       ELSE IF ~KidsKnown(s) THEN [res |-> "err", left |-> Zero]            \* strategy map, or the deferred Close
       ELSE IF s.hooks = "nil" THEN [res |-> "err", left |-> IF Mut = "leakOnFail" THEN Opened(s) ELSE Zero]
       ELSE IF ~WhUsable(s.sync) THEN [res |-> "err", left |-> IF Mut = "leakOnFail" THEN Opened(s) ELSE Zero]
       ELSE IF EtagPanics(s) THEN [res |-> "panic", left |-> Opened(s)]    \* the deferred Close tests newErr, which is nil
       ELSE IF s.fin = "bad" \/ s.sel = "bad" \/ s.cust = "bad" THEN [res |-> "err", left |-> IF Mut = "leakOnFail" THEN Opened(s) ELSE Zero]
       ELSE [res |-> "ok", left |-> Zero]
  ELSE IF s.hooks = "nil" \/ ~WhUsable(s.sync) THEN [res |-> "err", left |-> Zero]
       ELSE IF EtagPanics(s) THEN [res |-> "panic", left |-> Zero]          \* hooks come first here: nothing opened yet
       ELSE IF s.fin = "bad" \/ s.cust = "bad" \/ ~Known(s.par) \/ s.sel = "bad" THEN [res |-> "err", left |-> Zero]
       ELSE IF ~KidsKnown(s) THEN [res |-> "err", left |-> IF Mut = "leakOnFail" THEN [r \in Rs |-> IF s.par = RES[r] THEN 1 ELSE 0] ELSE Zero]
       ELSE [res |-> "ok", left |-> Zero]

Plus(a, b)  == [r \in Rs |-> a[r] + b[r]]
Minus(a, b) == [r \in Rs |-> a[r] - b[r]]

\* model state: obj, run, refs (factory refCount), hands (subscriptions with handlers), idc
S0 == [obj |-> [n \in Names |-> NoObj], run |-> [n \in Names |-> NoRun], refs |-> Zero, hands |-> Zero, idc |-> 0,
       err |-> FALSE, panic |-> FALSE, noise |-> {}]

StopInst(s, n) ==   \* Stop() of the instance of n and removal from the map
  LET sp == s.run[n].spec IN
  [s EXCEPT !.run[n] = NoRun,
            !.refs = IF Mut = "stopKeepsSubs" THEN @ ELSE Minus(@, Released(sp)),
            !.hands = IF Mut = "stopKeepsHandlers" THEN @ ELSE Minus(@, UsesLo(sp)),
            !.noise = IF Mut = "zombie" THEN @ \cup {[n |-> n, tag |-> sp.tag]} ELSE @]
Construct(s, n, sp) ==
  LET c == Ctor(sp) IN
  IF c.res = "ok" /\ Mut # "noStart"
  THEN [s EXCEPT !.run[n] = [has |-> TRUE, spec |-> sp, id |-> s.idc + 1, resp |-> TRUE], !.idc = @ + 1,
                 !.refs = Plus(@, Plus(Opened(sp), Related(sp))), !.hands = Plus(@, UsesLo(sp))]
  ELSE [s EXCEPT !.refs = Plus(@, c.left), !.err = (c.res = "err"), !.panic = (c.res = "panic")]
Reconcile(s0, n) ==
  LET s == [s0 EXCEPT !.err = FALSE, !.panic = FALSE] IN
  IF ~s.obj[n].has THEN
       IF s.run[n].has /\ Mut # "keepOnDelete" THEN StopInst(s, n) ELSE s
  ELSE LET sp == s.obj[n].spec
           same == s.run[n].has /\ (s.run[n].spec = sp \/ Mut = "noRestart") /\ Mut # "alwaysRestart"
           unres == Kind = "composite" /\ ParentUnresolvable(sp)
       IN IF unres /\ "stale" \notin Fixed THEN [s EXCEPT !.err = ~Known(sp.par)]
          ELSE IF same THEN s
          ELSE LET s1 == IF s.run[n].has THEN StopInst(s, n) ELSE s IN
               IF unres THEN [s1 EXCEPT !.err = ~Known(sp.par)] ELSE Construct(s1, n, sp)

ApplyEv(s, t, n, sp) ==
  CASE t = "create" -> [s EXCEPT !.obj[n] = [has |-> TRUE, spec |-> sp]]
    [] t = "update" -> [s EXCEPT !.obj[n] = [has |-> TRUE, spec |-> sp]]
    [] t = "noop"   -> s
    [] t = "delete" -> [s EXCEPT !.obj[n] = NoObj]
\* one event followed by the Reconcile the code performs
StepF(s, t, n, sp) == Reconcile([ApplyEv(s, t, n, sp) EXCEPT !.noise = IF Mut = "zombie" THEN @ ELSE {}], n)

\* the observation the model predicts for a step from s to s2 (leak carried in lk)
ModelX(k, t, n, s, s2, lk) ==
  LET cnt == [w |-> [r \in Rs |-> IF s2.refs[r] > 0 THEN 1 ELSE 0], r |-> s2.refs, h |-> s2.hands] IN
  [k |-> k, ev |-> [t |-> t, n |-> n], obj |-> s2.obj, pre |-> s.run, run |-> s2.run, err |-> s2.err, panic |-> s2.panic,
   refl |-> TRUE, cnt |-> cnt, lkPre |-> lk, lkPost |-> LeakStep(s2.run, cnt, TRUE, lk),
   traffic |-> IF s2.refs = s.refs /\ s2.run = s.run THEN 0 ELSE 1,
   nDuring |-> {}, nAfter |-> s2.noise \cup Voices(s2.run)]

\* ---------------------------------------------------------------------------------------
\* bounded instance: all histories of MaxLen events
VARIABLES st,     \* model state
          last,   \* observation record of the last step
          sids,   \* spec id of each name's object (0 = none), for scenario files
          seen1,  \* name 1 has existed (name 2 enters only afterwards: the names differ only in their parent resource)
          hist
vars == <<st, last, sids, seen1, hist>>

Init == st = S0 /\ last = NoX /\ sids = [n \in Names |-> 0] /\ seen1 = FALSE /\ hist = <<>>

Do(t, n, sid) ==
  LET sp == IF sid = 0 THEN NoSpec ELSE Pal[sid]
      s2 == StepF(st, t, n, sp)
      ns == [sids EXCEPT ![n] = IF t = "delete" THEN 0 ELSE IF t = "noop" THEN @ ELSE sid]
  IN /\ last.k < MaxLen
     /\ (n = 1 \/ seen1)
     /\ st' = s2
     /\ last' = ModelX(last.k + 1, t, n, st, s2, last.lkPost)
     /\ sids' = ns
     /\ seen1' = (seen1 \/ n = 1)
     /\ hist' = IF Beh THEN Append(hist, [op |-> [t |-> t, n |-> n, s |-> sid], want |-> WantOf(s2.obj, ns)]) ELSE hist

Next == \E n \in Names :
          \/ ~st.obj[n].has /\ \E sid \in Allowed[n] : Do("create", n, sid)
          \/ st.obj[n].has /\ \E sid \in Allowed[n] \ {sids[n]} : Do("update", n, sid)
          \/ st.obj[n].has /\ Do("noop", n, 0)
          \/ st.obj[n].has /\ Do("delete", n, 0)
Spec == Init /\ [][Next]_vars

Inv_OnePerObject   == C20_OnePerObject(last)
Inv_RestartOnSpec  == C20_RestartOnSpec(last)
Inv_NoopOnSame     == C20_NoopOnSame(last)
Inv_StopOnDelete   == C20_StopOnDelete(last)
Inv_QuietAfterStop == C20_QuietAfterStop(last)
Inv_BadConfigInert == C20_BadConfigInert(last)
\* the factory's counters never go negative and handlers never outnumber subscriptions
Inv_Counters == \A r \in Rs : st.refs[r] >= 0 /\ st.hands[r] >= 0 /\ st.hands[r] <= st.refs[r]

\* scenario emission
Emit == (Beh /\ last.k = MaxLen) => PrintT("SCN|" \o ToJson([kind |-> Kind, nn |-> NN, steps |-> hist]))
EmitPal == (Beh /\ last.k = 0) => PrintT("PAL|" \o ToJson(Pal))
=============================================================================
