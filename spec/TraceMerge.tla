----------------------------- MODULE TraceMerge -----------------------------
(* Trace specification for property C05 (I -> S).                                      *)
(*                                                                                     *)
(* One ndjson line = one case: the triple (observed, last-applied, desired) and what   *)
(* the REAL apply.Merge and the REAL ApplyUpdate returned for it (result tree, error,   *)
(* panic, purity of the inputs, outcome of the second application), as recorded by      *)
(* harness/common/verif_apply_test.go.  The LAWS of Merge.tla are evaluated on the      *)
(* GO result of every case -- not on the transcription -- so a refactoring that keeps   *)
(* the laws is no alarm and a change that breaks one is.  Monitors are reporting: a     *)
(* failing law prints  MONITOR|C05|name|signature|case|line|facts  and the run goes on. *)
(* Disagreement between the recorded result and the transcription (CodeMerge /          *)
(* CodeApply, as coded and as intended) is printed as DRIFT and is never a violation.   *)
EXTENDS Merge, Json, IOUtils

Trace == ndJsonDeserialize(IOEnv.VERIF_TRACE)
N     == Len(Trace)

VARIABLE l
vars == <<l>>

E    == Trace[l]
HasE == l <= N

Rep(name, sig, facts) ==
  PrintT("MONITOR|C05|" \o name \o "|" \o sig \o "|" \o E.sc \o "|" \o ToString(E.i) \o "|" \o ToJson(facts))

MergeLevel ==
  LET rec == E.m
      ll  == IF IsMap(E.l) THEN E.l ELSE M(<<>>)
      res == Res(rec.err # "", rec.r)
      tree == TreeLaws(E.o, ll, E.d, res, rec.r)
      idem == IF res.e \/ (rec.err2 = "" /\ rec.same2) THEN {}
              ELSE { <<"C05_Idempotent", IdemSig(rec.err2 # "", rec.r, rec.r2, E.o, ll, E.d)>> }
  IN IF rec.panic # "" THEN { <<"C05_Total", "-">> }
     ELSE Resig(tree \cup idem, E.o, ll, E.d) \cup (IF rec.pure THEN {} ELSE { <<"C05_Pure", "-">> })

\* errors ApplyUpdate may return although the merge itself has nothing to report: the
\* observed metadata cannot be traversed
ApplyErrorLegit(o, ll, d) ==
  \/ HasAnyClash(d, o, ll)
  \/ LET om == At(o, "metadata") IN ~(Missing(om) \/ om.t = "z" \/ IsMap(om))
SaneMeta(x) == LET md == At(x, "metadata") IN Missing(md) \/ (IsMap(md) /\ (Missing(At(md, "annotations")) \/ AllStrings(At(md, "annotations"))))

ApplyLevel ==
  LET rec == E.a
      ll  == IF IsMap(E.l) THEN E.l ELSE M(<<>>)
      d1  == StripOwn(E.d)
      so  == Strip(E.o)
      sl  == Strip(ll)
      sd  == Strip(d1)
      tree == TreeLaws(so, sl, sd, Res(FALSE, Strip(rec.r)), StripCarrier(rec.r, d1))
      idem == IF rec.err2 = "" /\ rec.same2 THEN {}
              ELSE { <<"C05_Idempotent", IdemSig(rec.err2 # "", Strip(rec.r), IF Missing(rec.r2) THEN None ELSE Strip(rec.r2), so, sl, sd)>> }
      sys  == IF SysSame(E.o, rec.r) THEN {} ELSE { <<"C05_SystemFields", "-">> }
      la   == IF ~(SaneMeta(E.o) /\ SaneMeta(E.d)) \/ rec.la = d1 THEN {} ELSE { <<"C05_LastApplied", "-">> }
      pure == IF rec.pureO /\ rec.pureD THEN {}
              ELSE { <<"C05_Pure", IF rec.pureO /\ HasOwnAnn(E.d) /\ rec.dAfter = d1 THEN SigOwnAnn ELSE "-">> }
  IN IF ~rec.ran THEN {}
     ELSE IF rec.panic # "" THEN { <<"C05_Total", "-">> }
     ELSE IF rec.err # "" THEN (IF ApplyErrorLegit(E.o, ll, d1) THEN {} ELSE { <<"C05_ErrorOnlyOnClash", "-">> }) \cup pure
     ELSE Resig(tree \cup idem, so, sl, sd) \cup sys \cup la \cup pure

Facts(level, h) ==
  LET rec == IF level = "merge" THEN E.m ELSE E.a
  IN [level |-> level, law |-> h[1], o |-> E.o, l |-> E.l, d |-> E.d, err |-> rec.err, r |-> rec.r,
      err2 |-> rec.err2, same2 |-> rec.same2, r2 |-> rec.r2, panic |-> rec.panic]

Monitors ==
  HasE =>
    /\ \A h \in MergeLevel : Rep(h[1], h[2], Facts("merge", h))
    /\ \A h \in ApplyLevel : Rep(h[1], h[2], Facts("apply", h))

\* ---- model drift (never a violation) -----------------------------------------------------
AgreesMerge(gv) ==
  LET p == CodeMerge(gv, E.o, E.l, E.d)
  IN /\ E.m.panic = "" /\ p.e = (E.m.err # "") /\ (p.e \/ p.r = E.m.r)
     /\ p.e \/ LET p2 == CodeMerge(gv, p.r, E.d, E.d)       \* the second application
               IN p2.e = (E.m.err2 # "") /\ (p2.e \/ ((p2.r = p.r) = E.m.same2))
AgreesApply(gv) ==
  LET p == CodeApply(gv, E.o, E.l, E.d)
  IN ~E.a.ran \/ (E.a.panic = "" /\ p.e = (E.a.err # "") /\ (p.e \/ p.r = MaskLA(E.a.r)))
Drift ==
  HasE =>
    LET mc == AgreesMerge(FALSE)
        mi == AgreesMerge(TRUE)
        ac == AgreesApply(FALSE)
        ai == AgreesApply(TRUE)
    IN (mc /\ mi /\ ac /\ ai)
       \/ PrintT("DRIFT|" \o E.sc \o "|" \o ToJson([mergeCoded |-> mc, mergeIntended |-> mi, applyCoded |-> ac, applyIntended |-> ai]))

\* ---- the trace is consumed line by line --------------------------------------------------
Init == l = 1
Next == HasE /\ l' = l + 1
Spec == Init /\ [][Next]_vars
TraceAccepted == TLCGet("stats").diameter - 1 = N
=============================================================================
