SPECIFICATION Spec
CONSTANTS
  NN = 2
  Kind = "composite"
  Pal <- MCPal
  Allowed <- Al_q2
  MaxLen = 4
  Fixed <- FxNone
  Mut = "none"
  Beh = TRUE
  MxAll = FALSE
CHECK_DEADLOCK FALSE
INVARIANTS EmitPal EmitVar Emit
