SPECIFICATION Spec
CONSTANTS
  Pairs = "core"
  Beh = FALSE
INVARIANTS L_Errors L_Exact L_Wakes L_Mixed L_Foreign
CHECK_DEADLOCK FALSE
