SPECIFICATION Spec
CONSTANTS
  Variant = "code"
  Workers = 2
  WithCustomize = FALSE
  WithRolling = TRUE
  WithSSA = TRUE
INVARIANTS C17_NoRace
CHECK_DEADLOCK FALSE
