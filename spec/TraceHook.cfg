SPECIFICATION TraceSpec
CHECK_DEADLOCK FALSE
POSTCONDITION TraceAccepted
CONSTANTS
  Calls <- TrCalls
  Phase <- TrPhase
  Params <- TrParams
  AnsOf <- TrAns
  Variant = "code"
  ExpireMode = "none"
  MergeServe = FALSE
  Record = FALSE
INVARIANT Wiring
INVARIANT M_C19_OkOnly
INVARIANT M_C19_Body304
INVARIANT M_C19_ErrElse
INVARIANT M_C19_Retry429
INVARIANT M_C19_Strict
INVARIANT Drift
