SPECIFICATION Spec
CONSTANTS
  EnvBudget = 1
  Beh = TRUE
  StatusSubs <- SubBoth
  Selections <- SelAll
  SelStyles <- StyAll
INVARIANTS Emit
CHECK_DEADLOCK FALSE
