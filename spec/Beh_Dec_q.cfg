SPECIFICATION Spec
CONSTANTS
  EnvBudget = 1
  Beh = TRUE
  StatusSubs <- SubBoth
  Selections <- SelAll
INVARIANTS Emit
CHECK_DEADLOCK FALSE
