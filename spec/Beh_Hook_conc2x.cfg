SPECIFICATION Spec
CHECK_DEADLOCK FALSE
CONSTANTS
  Calls <- Calls3
  Phase <- PhaseP2
  Params <- Conc2ParamsLoose
  AnsOf <- AnsConc2
  Variant = "code"
  ExpireMode = "any"
  MergeServe = TRUE
  Record = TRUE
INVARIANT Emit
