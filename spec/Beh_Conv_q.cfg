SPECIFICATION Spec
CONSTANTS
  Slots <- Slots2
  Kinds <- KBoth
  Methods <- MAll
  Progs <- PBad
  Scopes <- ScAll
  GenSels <- GBoth
  ArcheSet = "small"
INVARIANTS Emit
CHECK_DEADLOCK FALSE
