------------------------------- MODULE Fin -------------------------------
(* Life cycle of one parent under a controller with / without a finalize hook (C10), at  *)
(* sync granularity: create, match / unmatch the controller's selector, delete with      *)
(* background / foreground / orphan propagation, re-configuration of the controller      *)
(* (finalize hook added or removed), and the hook's answers (children kept or dropped,   *)
(* finalized or not).  Faithful to finalizer.Manager.SyncObject / ShouldFinalize, the     *)
(* hook selection in callHook and the order of steps in syncParentObject (composite and  *)
(* decorator share it).                                                                  *)
(*                                                                                     *)
(* Design level: the C10 clauses as invariants / action properties + liveness (a deleted *)
(* parent whose finalize hook drains its children eventually goes away).                *)
(* Conformance: every behaviour (sequence of environment steps and syncs) of bounded     *)
(* length is printed as a scenario and replayed; TraceSync judges C10/C11 on the trace.   *)
EXTENDS Integers, Sequences, FiniteSets, TLC, Json

CONSTANTS MaxSteps,    \* length bound of a behaviour
          FinProgs,    \* finalize-hook programmes explored: subset of {"drain","never","done","hasty","keep"}
                       \* (hasty: answers finalized at once although it wants the child gone and the child still exists;
                       \*  keep: not finalized yet and still wants the child -- e.g. a clean-up job -- so a missing child is created)
          Kinds,       \* subset of {"composite","decorator"}
          Beh

VARIABLES par,      \* the parent object
          kids,     \* BOOLEAN: the (single) child exists and is owned
          finOn,    \* controller currently has a finalize hook
          fprog, kind, steps, last, hist, m0, f0
vars == <<par, kids, finOn, fprog, kind, steps, last, hist, m0, f0>>

NoPar == [live |-> FALSE, match |-> TRUE, fin |-> FALSE, deleting |-> FALSE, gc |-> "none"]
Last0 == [sync |-> FALSE, hook |-> "none", finalizing |-> FALSE, finAtManage |-> FALSE, created |-> FALSE, deleted |-> FALSE,
          finAdded |-> FALSE, finRemoved |-> FALSE, finalizedAns |-> FALSE, wasDeleting |-> FALSE, wasFin |-> FALSE, wasGc |-> "none",
          wasMatch |-> TRUE, finOnThen |-> FALSE, managed |-> FALSE]

Init ==
  /\ par \in { [live |-> TRUE, match |-> m, fin |-> FALSE, deleting |-> FALSE, gc |-> "none"] : m \in BOOLEAN }
  /\ kids = FALSE
  /\ finOn \in BOOLEAN
  /\ fprog \in FinProgs
  /\ kind \in Kinds
  /\ steps = 0 /\ last = Last0 /\ hist = <<>>
  /\ m0 = par.match /\ f0 = finOn
H(e) == IF Beh THEN Append(hist, e) ELSE hist

\* the object disappears when it is being deleted and no finalizer (ours or the GC's) is left
Settle(p) == IF p.live /\ p.deleting /\ ~p.fin /\ p.gc = "none" THEN NoPar ELSE p

\* ---- one whole sync -------------------------------------------------------------------------
Stopped == IF Beh /\ ~par.live /\ hist # <<>> THEN hist[Len(hist)].t = "sync" ELSE FALSE    \* nothing left to observe
Sync ==
  /\ ~Stopped
  /\ steps < MaxSteps /\ steps' = steps + 1
  /\ hist' = H([t |-> "sync"])
  /\ UNCHANGED <<finOn, fprog, kind, m0, f0>>
  /\ IF ~par.live \/ (~par.fin /\ ~par.match)
       THEN UNCHANGED <<par, kids>> /\ last' = [Last0 EXCEPT !.sync = TRUE]
       ELSE
         \* 1. finalizer sync (SyncObject): add if wanted and not dying, remove if not wanted
         LET addFin == finOn /\ ~par.fin /\ ~par.deleting
             remFin == ~finOn /\ par.fin
             p1 == Settle([par EXCEPT !.fin = IF addFin THEN TRUE ELSE IF remFin THEN FALSE ELSE @])
         IN IF ~p1.live \/ (~p1.fin /\ ~p1.match)
              THEN par' = p1 /\ UNCHANGED kids
                   /\ last' = [Last0 EXCEPT !.sync = TRUE, !.finAdded = addFin, !.finRemoved = remFin, !.finOnThen = finOn,
                                            !.wasDeleting = par.deleting, !.wasFin = par.fin]
              ELSE
                \* 2. hook choice
                LET fz == finOn /\ (p1.deleting \/ ~p1.match)
                    \* answers: sync hook wants the child; finalize hook per programme
                    wantKid == IF fz THEN (fprog \in {"done", "keep"}) ELSE TRUE
                    finalized == fz /\ (fprog \in {"done", "hasty"} \/ (fprog = "drain" /\ ~kids))
                    \* 3. finalizer removed when finalized (RemoveFinalizer is a no-op if absent)
                    p2 == [p1 EXCEPT !.fin = IF finalized THEN FALSE ELSE @]
                    \* 4. children managed iff the parent is alive, or it is dying, still has our
                    \*    finalizer (after step 3), no GC finalizer, and a finalize hook exists
                    manage == ~p2.deleting \/ (finOn /\ p2.fin /\ p2.gc = "none")
                    kids2 == IF manage THEN wantKid ELSE kids
                IN /\ par' = Settle(p2)
                   /\ kids' = kids2
                   /\ last' = [sync |-> TRUE, hook |-> IF fz THEN "finalize" ELSE "sync", finalizing |-> fz,
                               finAtManage |-> p1.fin, created |-> (~kids /\ kids2), deleted |-> (kids /\ ~kids2),
                               finAdded |-> addFin, finRemoved |-> (remFin \/ (p1.fin /\ ~p2.fin)), finalizedAns |-> finalized,
                               wasDeleting |-> p1.deleting, wasFin |-> p2.fin, wasGc |-> p1.gc, wasMatch |-> p1.match,
                               finOnThen |-> finOn, managed |-> manage]

\* ---- environment ------------------------------------------------------------------------------
EnvStep(e, p) == /\ ~Stopped /\ par.live /\ steps < MaxSteps /\ steps' = steps + 1 /\ par' = Settle(p) /\ hist' = H(e)
                 /\ last' = Last0 /\ UNCHANGED <<kids, finOn, fprog, kind, m0, f0>>
Relabel  == par.live /\ (IF hist = <<>> THEN TRUE ELSE hist[Len(hist)].t # "relabel") /\ EnvStep([t |-> "relabel", match |-> ~par.match], [par EXCEPT !.match = ~@])
Delete(policy) == par.live /\ ~par.deleting
                  /\ EnvStep([t |-> "delete", policy |-> policy], [par EXCEPT !.deleting = TRUE, !.gc = IF policy = "Background" THEN "none" ELSE policy])
\* the garbage collector finishes foreground / orphan processing and drops its finalizer
GcDone   == par.live /\ par.gc # "none" /\ EnvStep([t |-> "gcdone"], [par EXCEPT !.gc = "none"])
\* the CompositeController / DecoratorController object is edited: finalize hook added or removed
Reconfig == /\ ~Stopped /\ par.live /\ (Beh => ~\E i \in DOMAIN hist : hist[i].t = "reconfig")
            /\ steps < MaxSteps /\ steps' = steps + 1 /\ finOn' = ~finOn /\ hist' = H([t |-> "reconfig", finOn |-> ~finOn])
            /\ last' = Last0 /\ UNCHANGED <<par, kids, fprog, kind, m0, f0>>
\* somebody deletes the child (the next sync that manages children brings it back if the answer in force wants it)
DelKid   == /\ ~Stopped /\ par.live /\ kids /\ steps < MaxSteps /\ steps' = steps + 1 /\ kids' = FALSE
            /\ (Beh => ~\E i \in DOMAIN hist : hist[i].t = "delkid")
            /\ hist' = H([t |-> "delkid"]) /\ last' = Last0 /\ UNCHANGED <<par, finOn, fprog, kind, m0, f0>>
Next == Sync \/ Relabel \/ (\E pol \in {"Background", "Foreground", "Orphan"} : Delete(pol)) \/ GcDone \/ Reconfig \/ DelKid
Spec == Init /\ [][Next]_vars /\ WF_vars(Sync)

\* ---- properties (design level) --------------------------------------------------------------
C10_FinBeforeChild      == (last.created /\ last.finOnThen) => last.finAtManage
C10_NoFinOnDying        == last.finAdded => ~last.wasDeleting
C10_HookChoice          == last.hook # "none" => (last.finalizing <=> (last.finOnThen /\ (last.wasDeleting \/ ~last.wasMatch)))
C10_RemoveOnlyFinalized == (last.finRemoved /\ last.finOnThen) => last.finalizedAns
C10_DyingNoTouch        == (last.sync /\ last.wasDeleting /\ (~last.finOnThen \/ ~last.wasFin \/ last.wasGc # "none"))
                              => (~last.created /\ ~last.deleted)
\* liveness: once deleted (background) with a draining finalize hook, parent and child go away
C10_Drains == [](( par.live /\ par.deleting /\ par.gc = "none" /\ finOn /\ fprog = "drain") => <>(~par.live \/ ~finOn \/ steps = MaxSteps))

Emit == (IF Beh /\ (steps = MaxSteps \/ Stopped) /\ hist # <<>> THEN hist[Len(hist)].t = "sync" ELSE FALSE) =>
  PrintT("SCN|" \o ToJson([hist |-> hist, kind |-> kind, fprog |-> fprog, finOn0 |-> f0, match0 |-> m0]))
=============================================================================
