SPECIFICATION Spec
CONSTANTS
  KidSeq <- Kids2
  Actors <- ActorsA
  EnvBudget = 2
  Method = "Recreate"
  Recheck = TRUE
  Beh = FALSE
  InitSet = "full"
  DesiredSets <- AllDesired
INVARIANTS TypeOK C04_OneController C04_OthersKept C04_AdoptChild C04_AdoptRecheck C02_Observed
CHECK_DEADLOCK FALSE
