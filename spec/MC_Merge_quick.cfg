SPECIFICATION Spec
CONSTANT Size = "q"
CHECK_DEADLOCK FALSE
INVARIANT IntendedOnlyKnown
INVARIANT CodedOnlyKnown
INVARIANT Emit
