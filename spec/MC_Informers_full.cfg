SPECIFICATION Spec
CONSTANTS
  NS = 3
  NR = 2
  NO = 2
  MaxOps = 8
  MaxH = 4
  Ticks = TRUE
  Beh = FALSE
  Mut = "none"
  AddEv = FALSE
CHECK_DEADLOCK FALSE
VIEW View
INVARIANTS TypeOK Inv_Running C18_TimersOfLiveHandlers
PROPERTIES C18_RunningIffSubscribed C18_StopOnLast C18_FreshAfterRestart C18_Replay C18_Complete C18_Silent C18_Isolation
