------------------------------ MODULE Shapes ------------------------------
(* Hook-response shapes for C13: a near-valid response in which ONE field (or two) is       *)
(* replaced by every JSON type, plus HTTP/body classes, for every response type             *)
(* (composite sync / finalize, customize, decorator sync) x rolling / non-rolling x         *)
(* generateSelector x strict / loose decoding.  The grammar of the response types is the     *)
(* model; TLC enumerates it exhaustively, the harness concretises each case into bytes.      *)
EXTENDS Integers, Sequences, FiniteSets, TLC, Json

CONSTANTS Cfgs,    \* subset of {"plain","rolling","gensel","finalize","customize","decorator","decoratorFinalize"}
          Modes,   \* subset of {"loose","strict"}
          Pairs    \* BOOLEAN: also two simultaneous mutations

\* ---- grammar: field paths of each response type (v1 hook API) --------------------------------
ChildFields(p) == { p, p \o ".apiVersion", p \o ".kind", p \o ".metadata", p \o ".metadata.name", p \o ".metadata.namespace",
                    p \o ".metadata.labels", p \o ".metadata.labels.app", p \o ".metadata.annotations", p \o ".metadata.annotations.k",
                    p \o ".metadata.ownerReferences", p \o ".metadata.finalizers", p \o ".metadata.uid", p \o ".metadata.resourceVersion",
                    p \o ".spec", p \o ".spec.f1", p \o ".status" }
CompositeFields == {"status", "status.conditions", "status.conditions.0", "status.conditions.0.type", "status.observedGeneration",
                    "children", "resyncAfterSeconds", "finalized"} \cup ChildFields("children.0") \cup {"children.1"}
DecoratorFields == {"labels", "labels.k", "annotations", "annotations.k", "status", "attachments", "resyncAfterSeconds", "finalized"}
                   \cup ChildFields("attachments.0") \cup {"attachments.1"}
CustomizeFields == {"relatedResources", "relatedResources.0", "relatedResources.0.apiVersion", "relatedResources.0.resource",
                    "relatedResources.0.labelSelector", "relatedResources.0.labelSelector.matchLabels",
                    "relatedResources.0.labelSelector.matchExpressions", "relatedResources.0.namespace", "relatedResources.0.names",
                    "relatedResources.0.names.0"}
FieldsOf(c) == IF c \in {"decorator", "decoratorFinalize"} THEN DecoratorFields ELSE IF c = "customize" THEN CustomizeFields ELSE CompositeFields
\* every JSON type (with the numeric extremes the statement names) + absence + whole-body classes
Types == {"null", "missing", "true", "zero", "neg", "huge", "float", "str", "emptyStr", "emptyList", "emptyMap", "listNull", "listStr", "listMap", "mapNum", "mapNull", "deep"}
BodyClasses == {"empty", "notJson", "topArray", "topNull", "topString", "truncated", "unknownField", "dupField", "http500", "http404", "http302", "http204",
                \* ETag sequences (etag support on): a REJECTED answer that carries an ETag header and a well-formed body, after which the
                \* hook answers 304 to any If-None-Match; and the legitimate sequence 200 + ETag, then 304
                "etagPoison500", "etagPoison404", "etagPoison201", "etagGood"}

VARIABLES cfg, mode, m1, m2, body
vars == <<cfg, mode, m1, m2, body>>
NoM == [on |-> FALSE, field |-> "", type |-> ""]
Init ==
  /\ cfg \in Cfgs /\ mode \in Modes
  /\ \/ (body = "-" /\ \E f \in FieldsOf(cfg), t \in Types : m1 = [on |-> TRUE, field |-> f, type |-> t]
         /\ \/ m2 = NoM
            \/ (Pairs /\ \E f2 \in FieldsOf(cfg), t2 \in {"null", "listNull", "mapNum", "str"} : f2 # f /\ m2 = [on |-> TRUE, field |-> f2, type |-> t2]))
     \/ (body \in BodyClasses /\ m1 = NoM /\ m2 = NoM)
Next == UNCHANGED vars
Spec == Init /\ [][Next]_vars
Emit == PrintT("SCN|" \o ToJson([cfg |-> cfg, mode |-> mode, m1 |-> m1, m2 |-> m2, body |-> body]))
=============================================================================
