SPECIFICATION Spec
CONSTANTS
  Pairs = "core"
  Beh = TRUE
INVARIANTS Emit
CHECK_DEADLOCK FALSE
