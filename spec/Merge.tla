------------------------------- MODULE Merge -------------------------------
(* Property C05: the dynamic apply of metacontroller is a three-way merge.            *)
(*                                                                                     *)
(* Part 1  tagged JSON trees                                                           *)
(* Part 2  CodeMerge / CodeApply: a transcription of what the code DOES               *)
(*         (pkg/dynamic/apply/apply.go Merge, merge, mergeObject, mergeArray,          *)
(*         mergeListMap, makeListMap, stringMergeKey, detectListMapKey, knownMergeKeys;*)
(*         pkg/controller/common ApplyUpdate, revertField, nullifyLastApplied...).     *)
(*         The type-clash guard of merge() is a parameter g: g = FALSE is the code as  *)
(*         it is (`!ok && lastVal != nil` can never be true), g = TRUE the intended    *)
(*         guard (`!ok && lastApplied != nil`).                                        *)
(* Part 3  the LAWS of the property, stated on (observed, last-applied, desired,       *)
(*         result) without reference to Part 2.  Where the statement is silent (a null *)
(*         desired value, fields nobody mentioned, extra fields in the result) the     *)
(*         laws are silent too.                                                        *)
(*                                                                                     *)
(* JSON values are TAGGED records (TLC cannot compare a string with a number):         *)
(*   [t |-> "z"] null      [t |-> "n"] no value (absent; never inside a tree)          *)
(*   [t |-> "s", s |-> "x"] string   [t |-> "i", s |-> "1"] number   [t |-> "b", ...]  *)
(*   [t |-> "m", f |-> function from key strings to values]   object                   *)
(*   [t |-> "l", v |-> sequence of values]                    array                    *)
(*   [t |-> "l", v |-> <<>>, z |-> TRUE]   Go's nil slice (only ever inside results)   *)
EXTENDS Naturals, Sequences, FiniteSets, TLC

\* =======================================================================================
\* Part 1: tagged JSON
\* =======================================================================================
Null  == [t |-> "z"]
None  == [t |-> "n"]
S(x)  == [t |-> "s", s |-> x]
I(x)  == [t |-> "i", s |-> x]
B(x)  == [t |-> "b", s |-> x]
M(f)  == [t |-> "m", f |-> f]
L(v)  == [t |-> "l", v |-> v]
\* Go's nil []interface{} (null on the wire, but an array for a type switch and different from
\* an empty array for reflect.DeepEqual): what mergeArray returns when desired is no array
NilL  == [t |-> "l", v |-> <<>>, z |-> TRUE]

ScalarTags == {"s", "i", "b"}
IsScalar(x) == x.t \in ScalarTags
IsMap(x)    == x.t = "m"
IsList(x)   == x.t = "l"
IsContainer(x) == x.t \in {"m", "l"}
Missing(x)  == x.t = "n"
\* class of a value for the purpose of "type clash": scalars of different kinds do not clash
Class(x) == IF IsScalar(x) THEN "scalar" ELSE x.t

Sub(f, D) == IF D = {} THEN <<>> ELSE [k \in D |-> f[k]]
SeqRange(s)    == { s[i] : i \in DOMAIN s }
MinOf(A)       == CHOOSE x \in A : \A y \in A : x <= y
MaxOf(A)       == CHOOSE x \in A : \A y \in A : x >= y
Idx(n)         == [i \in 1..n |-> i]

Keys(x)  == IF IsMap(x) THEN DOMAIN x.f ELSE {}
At(x, k) == IF IsMap(x) /\ k \in DOMAIN x.f THEN x.f[k] ELSE None
Items(x) == IF IsList(x) THEN x.v ELSE <<>>
Path2(x, k1, k2) == At(At(x, k1), k2)

\* the fixed convention of docs/src/api/apply.md and apply.go knownMergeKeys
KnownMergeKeys == <<"containerPort", "port", "mountPath", "name", "uid", "ip", "path">>
LAKey     == "metacontroller.k8s.io/last-applied-configuration"
SysFields == {"selfLink", "uid", "resourceVersion", "generation", "creationTimestamp",
              "deletionTimestamp", "deletionGracePeriodSeconds"}

\* =======================================================================================
\* Part 2: what the code does
\* =======================================================================================
Res(e, r) == [e |-> e, r |-> r]          \* e = an error was returned

\* Go: x.(map[string]interface{}) / x.([]interface{}) -- a failed cast yields a nil map / slice
CastMap(x)  == IF IsMap(x) THEN x.f ELSE <<>>
CastList(x) == IF IsList(x) THEN x.v ELSE <<>>
\* the guard `!ok && lastVal != nil`: lastVal is the RESULT of the failed cast, hence nil:
\* never true (g = FALSE).  Intended: `!ok && lastApplied != nil` (g = TRUE).
GuardFires(g, x, tag) == g /\ x.t # tag /\ x.t \notin {"z", "n"}
NilToNull(x) == IF Missing(x) THEN Null ELSE x     \* Go: m[k] of a missing key is nil

\* stringMergeKey: strings as they are, everything else through fmt %v
StringMergeKey(v) == IF IsScalar(v) THEN v.s ELSE IF v.t = "z" THEN "<nil>" ELSE ToString(v)
SK(item, K) == StringMergeKey(item.f[K])

\* makeListMap: later duplicates overwrite earlier ones
MakeListMap(K, items) ==
  LET ks == { SK(items[i], K) : i \in DOMAIN items }
  IN Sub([k \in ks |-> items[MaxOf({ i \in DOMAIN items : SK(items[i], K) = k })]], ks)

\* detectListMapKey(destination, lastApplied, desired)
CodeDetect(a, b, c) ==
  LET all == a \o b \o c
  IN IF all = <<>> \/ \E i \in DOMAIN all : ~IsMap(all[i]) THEN ""
     ELSE LET common == { k \in DOMAIN all[1].f : \A i \in DOMAIN all : k \in DOMAIN all[i].f }
              hit    == { n \in DOMAIN KnownMergeKeys : KnownMergeKeys[n] \in common }
          IN IF hit = {} THEN "" ELSE KnownMergeKeys[MinOf(hit)]

RECURSIVE CMerge(_, _, _, _), CMergeObject(_, _, _, _)

\* mergeObject on Go maps (functions); returns Res(error, function)
CMergeObject(g, dest, last, des) ==
  LET d1   == Sub(dest, DOMAIN dest \ (DOMAIN last \ DOMAIN des))       \* removal loop
      sub  == [k \in DOMAIN des |->
                 CMerge(g, IF k \in DOMAIN d1 THEN d1[k] ELSE Null,
                           IF k \in DOMAIN last THEN last[k] ELSE Null, des[k])]
      keys == DOMAIN d1 \cup DOMAIN des
  IN IF \E k \in DOMAIN des : sub[k].e THEN Res(TRUE, <<>>)
     ELSE Res(FALSE, Sub([k \in keys |-> IF k \in DOMAIN des THEN sub[k].r ELSE d1[k]], keys))

\* mergeListMap: merge as maps keyed by the stringified merge key, then rebuild the list:
\* first every destination item whose key survived (duplicates are appended again), then
\* the desired items not yet added
CMergeListMap(g, K, dest, last, des) ==
  LET mo == CMergeObject(g, MakeListMap(K, dest), MakeListMap(K, last), MakeListMap(K, des))
  IN IF mo.e THEN Res(TRUE, Null)
     ELSE LET fromDest == SelectSeq(Idx(Len(dest)), LAMBDA i : SK(dest[i], K) \in DOMAIN mo.r)
              added    == { SK(dest[i], K) : i \in SeqRange(fromDest) }
              fromDes  == SelectSeq(Idx(Len(des)), LAMBDA i :
                             /\ SK(des[i], K) \notin added
                             /\ \A j \in 1..(i - 1) : SK(des[j], K) # SK(des[i], K))
          IN Res(FALSE, L([p \in 1..Len(fromDest) |-> mo.r[SK(dest[fromDest[p]], K)]]
                          \o [p \in 1..Len(fromDes) |-> mo.r[SK(des[fromDes[p]], K)]]))

CMerge(g, dest, last, des) ==
  CASE IsMap(dest) ->
         IF GuardFires(g, last, "m") \/ GuardFires(g, des, "m") THEN Res(TRUE, Null)
         ELSE LET mo == CMergeObject(g, dest.f, CastMap(last), CastMap(des))
              IN Res(mo.e, IF mo.e THEN Null ELSE M(mo.r))
    [] IsList(dest) ->
         IF GuardFires(g, last, "l") \/ GuardFires(g, des, "l") THEN Res(TRUE, Null)
         ELSE LET K == CodeDetect(dest.v, CastList(last), CastList(des))
              IN IF K # "" THEN CMergeListMap(g, K, dest.v, CastList(last), CastList(des))
                 \* `return desired` returns the CAST value: a nil slice (null on the wire)
                 \* when desired is not an array
                 ELSE Res(FALSE, IF IsList(des) THEN des ELSE NilL)
    [] OTHER -> Res(FALSE, des)               \* scalar or null destination: take desired

\* apply.Merge(observed, lastApplied, desired); a missing last-applied record is a nil map
CodeMerge(g, o, l, d) == CMerge(g, o, IF IsMap(l) THEN l ELSE M(<<>>), d)

\* ---- ApplyUpdate ---------------------------------------------------------------------
AllStrings(x) == IsMap(x) /\ \A k \in DOMAIN x.f : x.f[k].t = "s"
HasOwnAnn(d)  == LET an == Path2(d, "metadata", "annotations") IN AllStrings(an) /\ LAKey \in DOMAIN an.f
SetKey(x, k, v) == M((k :> v) @@ x.f)                                   \* x a map
DelKey(x, k)    == IF IsMap(x) THEN M(Sub(x.f, DOMAIN x.f \ {k})) ELSE x
\* nullifyLastAppliedAnnotation
StripOwn(d) ==
  IF ~HasOwnAnn(d) THEN d
  ELSE SetKey(d, "metadata", SetKey(d.f["metadata"], "annotations",
                DelKey(d.f["metadata"].f["annotations"], LAKey)))
\* the observed child as the cluster holds it: the record of last-applied is an annotation.
\* Its text is not modelled: every occurrence is the placeholder string "<LA>".
LAMark == S("<LA>")
WithLA(x) ==
  LET md == IF Missing(At(x, "metadata")) THEN M(<<>>) ELSE At(x, "metadata")
      an == IF Missing(At(md, "annotations")) THEN M(<<>>) ELSE At(md, "annotations")
  IN IF IsMap(md) /\ IsMap(an) THEN SetKey(x, "metadata", SetKey(md, "annotations", SetKey(an, LAKey, LAMark)))
     ELSE x
MaskLA(x) ==
  LET an == Path2(x, "metadata", "annotations")
  IN IF IsMap(an) /\ LAKey \in DOMAIN an.f THEN WithLA(x) ELSE x

\* revertField(newObj, orig, "metadata", f) / (…, "status"); Res(error, object)
RevertMeta(new, orig, f) ==
  LET om == At(orig, "metadata")
      nm == At(new, "metadata")
  IN IF ~(Missing(om) \/ om.t = "z" \/ IsMap(om)) THEN Res(TRUE, new)        \* cannot traverse orig
     ELSE IF IsMap(om) /\ f \in DOMAIN om.f
          THEN IF Missing(nm) THEN Res(FALSE, SetKey(new, "metadata", M(f :> om.f[f])))
               ELSE IF IsMap(nm) THEN Res(FALSE, SetKey(new, "metadata", SetKey(nm, f, om.f[f])))
               ELSE Res(TRUE, new)                                             \* SetNestedField refuses
          ELSE IF IsMap(nm) THEN Res(FALSE, SetKey(new, "metadata", DelKey(nm, f))) ELSE Res(FALSE, new)
RECURSIVE RevertAll(_, _, _)
RevertAll(new, orig, fs) ==
  IF fs = {} THEN Res(FALSE, new)
  ELSE LET f == CHOOSE x \in fs : TRUE
           r == RevertMeta(new, orig, f)
       IN IF r.e THEN r ELSE RevertAll(r.r, orig, fs \ {f})
RevertStatus(new, orig) ==
  IF "status" \in DOMAIN orig.f THEN SetKey(new, "status", orig.f["status"]) ELSE DelKey(new, "status")

\* ApplyUpdate(orig, update): orig = WithLA(o) when a last-applied record l exists
CodeApply(g, o, l, d) ==
  LET orig == IF IsMap(l) THEN WithLA(o) ELSE o
      upd  == StripOwn(d)
      m    == CodeMerge(g, orig, l, upd)
  IN IF m.e THEN Res(TRUE, Null)
     ELSE LET r1 == RevertAll(m.r, orig, SysFields)
          IN IF r1.e THEN Res(TRUE, Null) ELSE Res(FALSE, WithLA(RevertStatus(r1.r, orig)))

\* =======================================================================================
\* Part 3: the laws
\* =======================================================================================
\* ---- the list-map convention (docs: all items objects, one conventional key in common;
\*      first in the fixed order wins).  "All known examples" of the field = the arrays
\*      among observed / last-applied / desired at that place.
ConvKey(o, l, d) ==
  LET its == SeqRange(Items(o)) \cup SeqRange(Items(l)) \cup SeqRange(Items(d))
  IN IF its = {} \/ \E e \in its : ~IsMap(e) THEN ""
     ELSE LET ok == { n \in DOMAIN KnownMergeKeys : \A e \in its : KnownMergeKeys[n] \in DOMAIN e.f }
          IN IF ok = {} THEN "" ELSE KnownMergeKeys[MinOf(ok)]
\* entries of an array that carry key value kv under merge key K (equality of JSON values)
Entries(x, K, kv) == { i \in DOMAIN Items(x) : IsMap(x.v[i]) /\ K \in DOMAIN x.v[i].f /\ x.v[i].f[K] = kv }
KeyVals(x, K)     == { x.v[i].f[K] : i \in { j \in DOMAIN Items(x) : IsMap(x.v[j]) /\ K \in DOMAIN x.v[j].f } }
EntryOf(x, K, kv) == IF Entries(x, K, kv) = {} THEN None ELSE x.v[MinOf(Entries(x, K, kv))]

\* a type clash that must be reported: the observed value is a container and the desired
\* value is a non-null value of another class.  (An observed scalar/null is simply replaced.)
ClashHere(d, o) == IsContainer(o) /\ ~Missing(d) /\ d.t # "z" /\ Class(d) # Class(o)
\* What LEGITIMISES an error is wider (the statement only says a clash is reported as an
\* error): any two present, non-null values of different classes at one place, be it desired
\* against observed (also an observed scalar under a desired container) or last-applied
\* against observed (the intended guard reports that too).
Differ(a, b)    == ~Missing(a) /\ a.t # "z" /\ ~Missing(b) /\ b.t # "z" /\ Class(a) # Class(b)
ClashLoose(d, o, l) == Differ(d, o) \/ Differ(l, o)

\* ClashBelow(any, d, o, l): is there a clash at some place reachable by descending the
\* DESIRED tree (object keys, list-map entries)?  any = TRUE: in the wide sense that legitimises an error.
RECURSIVE ClashBelow(_, _, _, _)
ClashBelow(any, d, o, l) ==
  \/ ClashHere(d, o)
  \/ any /\ ClashLoose(d, o, l)
  \/ /\ IsMap(d) /\ IsMap(o)
     /\ \E k \in DOMAIN d.f : ClashBelow(any, d.f[k], At(o, k), At(l, k))
  \/ /\ IsList(d) /\ IsList(o) /\ ConvKey(o, l, d) # ""
     /\ LET K == ConvKey(o, l, d)
        IN \E i \in DOMAIN d.v : ClashBelow(any, d.v[i], EntryOf(o, K, d.v[i].f[K]), EntryOf(l, K, d.v[i].f[K]))
HasClash(d, o, l)    == ClashBelow(FALSE, d, o, l)
HasAnyClash(d, o, l) == ClashBelow(TRUE, d, o, l)

\* ---- Containment: every field present in desired has the desired value ----------------
\* x = TRUE excuses places where a clash should have been reported (used only to CLASSIFY
\* a failure: "nothing is wrong except at silently dropped clashes").
RECURSIVE Holds(_, _, _, _, _)
Holds(x, d, o, l, r) ==
  IF x /\ ClashHere(d, o) THEN TRUE
  ELSE CASE d.t = "z"   -> TRUE                                   \* the statement is silent on null
         [] IsScalar(d) -> r = d
         [] IsMap(d)    -> /\ IsMap(r)
                           /\ \A k \in DOMAIN d.f : Holds(x, d.f[k], At(o, k), At(l, k), At(r, k))
         [] IsList(d)   ->
              LET K == IF IsList(o) THEN ConvKey(o, l, d) ELSE ""
              IN IF K = "" THEN r = d                              \* plain list: the desired value
                 ELSE /\ IsList(r)
                      /\ \A i \in DOMAIN d.v :
                           LET kv == d.v[i].f[K]
                           IN /\ Entries(r, K, kv) # {}
                              /\ \A j \in Entries(r, K, kv) :
                                   Holds(x, d.v[i], EntryOf(o, K, kv), EntryOf(l, K, kv), r.v[j])
         [] OTHER -> TRUE

\* ---- Removal: what was in last-applied and is no longer desired is gone ----------------
RECURSIVE Removed(_, _, _, _)
Removed(l, d, o, r) ==
  CASE IsMap(l) /\ IsMap(d) /\ IsMap(r) ->
         \A k \in DOMAIN l.f :
            IF k \notin DOMAIN d.f THEN k \notin DOMAIN r.f
            ELSE Removed(l.f[k], d.f[k], At(o, k), At(r, k))
    [] IsList(l) /\ IsList(d) /\ IsList(r) /\ ConvKey(o, l, d) # "" ->
         LET K == ConvKey(o, l, d)
         IN \A kv \in KeyVals(l, K) :
              IF kv \notin KeyVals(d, K) THEN Entries(r, K, kv) = {}
              ELSE \A j \in Entries(r, K, kv) :
                     Removed(EntryOf(l, K, kv), EntryOf(d, K, kv), EntryOf(o, K, kv), r.v[j])
    [] OTHER -> TRUE

\* ---- Preservation: every other observed field is kept ----------------------------------
\* evaluated at places where desired is present; below a null desired value, below a
\* removed field and at clashes the statement says nothing
RECURSIVE Preserved(_, _, _, _)
Preserved(o, l, d, r) ==
  CASE IsMap(o) /\ IsMap(d) ->
         /\ IsMap(r)
         /\ \A k \in DOMAIN o.f :
              IF k \in DOMAIN d.f THEN Preserved(o.f[k], At(l, k), d.f[k], At(r, k))
              ELSE IF k \in Keys(l) THEN TRUE                      \* removed
              ELSE At(r, k) = o.f[k]                               \* somebody else's field
    [] IsList(o) /\ IsList(d) /\ ConvKey(o, l, d) # "" ->
         LET K == ConvKey(o, l, d)
         IN /\ IsList(r)
            /\ \A i \in DOMAIN o.v :
                 LET kv == o.v[i].f[K]
                 IN IF kv \in KeyVals(d, K)
                    THEN /\ Entries(r, K, kv) # {}
                         /\ \A j \in Entries(r, K, kv) :
                              Preserved(o.v[i], EntryOf(l, K, kv), EntryOf(d, K, kv), r.v[j])
                    ELSE IF kv \in KeyVals(l, K) THEN TRUE         \* removed
                    ELSE \E j \in DOMAIN r.v : r.v[j] = o.v[i]      \* somebody else's entry
    [] OTHER -> TRUE

\* ---- ListOrder: foreign entries of name-keyed lists keep their relative order ----------
RECURSIVE Ordered(_, _, _, _)
Ordered(o, l, d, r) ==
  CASE IsMap(o) /\ IsMap(d) /\ IsMap(r) ->
         \A k \in DOMAIN o.f \cap DOMAIN d.f : Ordered(o.f[k], At(l, k), d.f[k], At(r, k))
    [] IsList(o) /\ IsList(d) /\ IsList(r) /\ ConvKey(o, l, d) # "" ->
         LET K == ConvKey(o, l, d)
             foreign == { i \in DOMAIN o.v : o.v[i].f[K] \notin KeyVals(d, K) \cup KeyVals(l, K) }
             pos(i) == { p \in DOMAIN r.v : r.v[p] = o.v[i] }        \* (a lost entry is Preservation's business)
         IN /\ \A i, j \in foreign : (i < j /\ pos(i) # {} /\ pos(j) # {}) =>
                 \E p \in pos(i), q \in pos(j) : p < q
            /\ \A i \in DOMAIN o.v :
                 LET kv == o.v[i].f[K]
                 IN kv \in KeyVals(d, K) =>
                      \A j \in Entries(r, K, kv) : Ordered(o.v[i], EntryOf(l, K, kv), EntryOf(d, K, kv), r.v[j])
    [] OTHER -> TRUE

\* ---- ApplyUpdate: what the three-way laws talk about, and what they do not -------------
\* the laws above apply to everything except system metadata, status and the record itself
StripMeta(md) ==
  IF ~IsMap(md) THEN md
  ELSE LET m1 == M(Sub(md.f, DOMAIN md.f \ SysFields))
           an == At(m1, "annotations")
       IN IF IsMap(an) /\ LAKey \in DOMAIN an.f THEN SetKey(m1, "annotations", DelKey(an, LAKey)) ELSE m1
Strip(x) ==
  IF ~IsMap(x) THEN x
  ELSE LET x1 == DelKey(x, "status")
       IN IF "metadata" \in DOMAIN x1.f THEN SetKey(x1, "metadata", StripMeta(x1.f["metadata"])) ELSE x1
\* For Removal only: an annotations object (and a metadata object) that exists solely to
\* carry the last-applied record / the reverted system fields is not a field somebody kept.
StripCarrier(r, d) ==
  LET s  == Strip(r)
      md == At(s, "metadata")
      an == At(md, "annotations")
      md1 == IF IsMap(md) /\ IsMap(an) /\ an.f = <<>> /\ Missing(Path2(d, "metadata", "annotations"))
             THEN DelKey(md, "annotations") ELSE md
  IN IF ~IsMap(md) THEN s
     ELSE IF md1.f = <<>> /\ Missing(At(d, "metadata")) THEN DelKey(s, "metadata")
     ELSE SetKey(s, "metadata", md1)

SysSame(o, r) ==
  /\ At(r, "status") = At(o, "status")
  /\ \A f \in SysFields : Path2(r, "metadata", f) = Path2(o, "metadata", f)

\* ---- verdict of all tree laws on one (o, l, d, result) ---------------------------------
\* returns the set of <<law, signature>> that fail.  res = Res(error, value)
SigClash == "Sig_C05_ClashSilentlyDropped"
TreeLaws(o, l, d, res, rRemoval) ==
  LET ll == IF IsMap(l) THEN l ELSE M(<<>>)
      r  == res.r
      clash == HasClash(d, o, ll)
  IN IF res.e
     THEN IF HasAnyClash(d, o, ll) THEN {} ELSE { <<"C05_ErrorOnlyOnClash", "-">> }
     ELSE (IF clash THEN { <<"C05_ClashIsError", SigClash>> } ELSE {})
          \cup (IF Holds(FALSE, d, o, ll, r) THEN {}
                ELSE { <<"C05_Containment", IF clash /\ Holds(TRUE, d, o, ll, r) THEN SigClash ELSE "-">> })
          \cup (IF Removed(ll, d, o, rRemoval) THEN {} ELSE { <<"C05_Removal", "-">> })
          \cup (IF Preserved(o, ll, d, r) THEN {} ELSE { <<"C05_Preservation", "-">> })
          \cup (IF Ordered(o, ll, d, r) THEN {} ELSE { <<"C05_ListOrder", "-">> })

\* r2 differs from r1 only at places where a clash was silently dropped
RECURSIVE SameButClash(_, _, _, _, _)
SameButClash(r1, r2, d, o, l) ==
  \/ r1 = r2
  \/ ClashHere(d, o)
  \/ /\ IsMap(r1) /\ IsMap(r2) /\ IsMap(d) /\ DOMAIN r1.f = DOMAIN r2.f
     /\ \A k \in DOMAIN r1.f : SameButClash(r1.f[k], r2.f[k], At(d, k), At(o, k), At(l, k))
  \/ /\ IsList(r1) /\ IsList(r2) /\ IsList(d) /\ IsList(o) /\ Len(r1.v) = Len(r2.v) /\ ConvKey(o, l, d) # ""
     /\ LET K == ConvKey(o, l, d)
        IN \A i \in DOMAIN r1.v :
             \/ r1.v[i] = r2.v[i]
             \/ /\ IsMap(r1.v[i]) /\ K \in DOMAIN r1.v[i].f
                /\ LET kv == r1.v[i].f[K]
                   IN SameButClash(r1.v[i], r2.v[i], EntryOf(d, K, kv), EntryOf(o, K, kv), EntryOf(l, K, kv))

\* ---- signatures of known findings ------------------------------------------------------
SigNullFlip == "Sig_C05_NullDesiredListFlip"
SigKeyText  == "Sig_C05_MergeKeyTextCollision"
SigOwnAnn   == "Sig_C05_OwnAnnotationStrippedInPlace"

\* r2 differs from r1 only where desired is null, r1 holds an empty array and r2 holds a nil
\* slice (null on the wire)
RECURSIVE NullFlip(_, _, _)
NullFlip(r1, r2, d) ==
  \/ r1 = r2
  \/ d.t = "z" /\ r1 = L(<<>>) /\ r2 = NilL
  \/ /\ IsMap(r1) /\ IsMap(r2) /\ IsMap(d) /\ DOMAIN r1.f = DOMAIN r2.f
     /\ \A k \in DOMAIN r1.f : NullFlip(r1.f[k], r2.f[k], At(d, k))
  \/ /\ IsList(r1) /\ IsList(r2) /\ IsList(d) /\ Len(r1.v) = Len(r2.v) /\ ConvKey(r1, d, d) # ""
     /\ LET K == ConvKey(r1, d, d)
        IN \A i \in DOMAIN r1.v : NullFlip(r1.v[i], r2.v[i], EntryOf(d, K, r1.v[i].f[K]))

\* some array of the triple has two entries whose merge-key values are different JSON
\* values with the same text (1 and "1"): outside what stringMergeKey can tell apart
RECURSIVE TextCollision(_)
TextCollision(x) ==
  \/ /\ IsMap(x) /\ \E k \in DOMAIN x.f : TextCollision(x.f[k])
  \/ /\ IsList(x)
     /\ \/ \E i \in DOMAIN x.v : TextCollision(x.v[i])
        \/ /\ ConvKey(x, x, x) # ""
           /\ LET K == ConvKey(x, x, x)
              IN \E i, j \in DOMAIN x.v : /\ x.v[i].f[K] # x.v[j].f[K]
                                          /\ StringMergeKey(x.v[i].f[K]) = StringMergeKey(x.v[j].f[K])
\* ... also across the three arrays at one place
RECURSIVE CrossCollision(_, _, _)
CrossCollision(o, ll, d) ==
  \/ TextCollision(o) \/ TextCollision(ll) \/ TextCollision(d)
  \/ /\ IsMap(d) /\ \E k \in DOMAIN d.f : CrossCollision(At(o, k), At(ll, k), d.f[k])
  \/ /\ IsMap(ll) /\ \E k \in DOMAIN ll.f : CrossCollision(At(o, k), ll.f[k], At(d, k))
  \/ /\ ConvKey(o, ll, d) # ""
     /\ LET K == ConvKey(o, ll, d)
            vals == KeyVals(o, K) \cup KeyVals(ll, K) \cup KeyVals(d, K)
        IN \E a, b \in vals : a # b /\ StringMergeKey(a) = StringMergeKey(b)

\* signature of a failed second application (e2: it returned an error)
IdemSig(e2, r, r2, o, ll, d) ==
  IF e2 THEN "-"
  ELSE IF HasClash(d, o, ll) /\ SameButClash(r, r2, d, o, ll) THEN SigClash
  ELSE IF ~Missing(r2) /\ r # r2 /\ NullFlip(r, r2, d) THEN SigNullFlip
  ELSE "-"
\* any failure of a tree law in a triple with a text collision of merge keys is that finding
Resig(hits, o, ll, d) ==
  IF hits # {} /\ (\E h \in hits : h[2] = "-") /\ CrossCollision(o, ll, d)
  THEN { <<h[1], IF h[2] = "-" THEN SigKeyText ELSE h[2]>> : h \in hits } ELSE hits
=============================================================================
