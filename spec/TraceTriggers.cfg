SPECIFICATION Spec
CHECK_DEADLOCK FALSE
POSTCONDITION TraceAccepted
INVARIANT Machinery
INVARIANT C14_Complete
INVARIANT C14_Sound
INVARIANT C14_KeyParses
INVARIANT Drift_C14
