SPECIFICATION Spec
CONSTANTS
  Cfgs <- CAll
  Modes <- MAll
  Pairs = TRUE
INVARIANTS Emit
CHECK_DEADLOCK FALSE
