SPECIFICATION TSpec
CONSTANTS
  NN = 2
  Kind <- TKind
  Pal <- TPal
  Allowed <- TPal
  MaxLen = 0
  Fixed <- TFixed
  Mut = "none"
  Beh = FALSE
CHECK_DEADLOCK FALSE
POSTCONDITION TraceAccepted
INVARIANT Machinery
INVARIANT M_OnePerObject
INVARIANT M_RestartOnSpec
INVARIANT M_NoopOnSame
INVARIANT M_StopOnDelete
INVARIANT M_QuietAfterStop
INVARIANT M_BadConfigInert
INVARIANT M_NoCrash
INVARIANT DriftFree
