SPECIFICATION Spec
CHECK_DEADLOCK FALSE
CONSTANTS
  Calls <- Calls3
  Phase <- PhaseP2
  Params <- XflParams
  AnsOf <- AnsXfl
  Variant = "code"
  ExpireMode = "any"
  MergeServe = TRUE
  Record = TRUE
INVARIANT Emit
