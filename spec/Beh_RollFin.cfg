SPECIFICATION Spec
CONSTANTS
  Methods = {"RollingInPlace", "RollingRecreate"}
INVARIANTS C10_AllAgree Emit
CHECK_DEADLOCK FALSE
