SPECIFICATION Spec
CONSTANTS
  Methods = {"RollingInPlace", "RollingRecreate"}
INVARIANTS C10_AllAgree C04_RevisionsLikeChildren Emit
CHECK_DEADLOCK FALSE
