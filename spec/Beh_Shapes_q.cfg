SPECIFICATION Spec
CONSTANTS
  Cfgs <- CAll
  Modes <- MAll
  Pairs = FALSE
INVARIANTS Emit
CHECK_DEADLOCK FALSE
