SPECIFICATION Spec
CHECK_DEADLOCK FALSE
CONSTANTS
  Calls <- Calls3
  Phase <- PhaseSeq
  Params <- SeqParams
  AnsOf <- AnsSeqQ
  Variant = "code"
  ExpireMode = "boundary"
  MergeServe = FALSE
  Record = TRUE
INVARIANT Emit
