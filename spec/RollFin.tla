------------------------------ MODULE RollFin ------------------------------
(* Finalizing in the middle of a rolling update (C10, "all revisions must agree on finalized"):  *)
(* a parent with two live revisions is deleted; the finalize hook is called once per live        *)
(* revision and answers `finalized` per revision.  The finalizer may be removed only when every  *)
(* live revision answered finalized: true.                                                       *)
EXTENDS Integers, Sequences, FiniteSets, TLC, Json
CONSTANTS Methods
\* staleOrphan: instead of the finalize story, somebody orphans the parent's ControllerRevisions and the parent is deleted
\* (kept by a foreign finalizer) BEHIND a stale cache: the next sync meets a matching orphan revision and a parent that
\* looks alive in its cache -- adoption is decided on a fresh read of the parent, for ControllerRevisions as for children (C04)
VARIABLES finLatest, finOld, method, twoLive, staleOrphan
vars == <<finLatest, finOld, method, twoLive, staleOrphan>>
Init == /\ finLatest \in BOOLEAN /\ finOld \in BOOLEAN /\ method \in Methods /\ twoLive \in BOOLEAN /\ staleOrphan \in BOOLEAN
        /\ (staleOrphan => (finLatest /\ finOld /\ twoLive))          \* (one scenario per method)
Next == UNCHANGED vars
Spec == Init /\ [][Next]_vars
\* design-level statement of the aggregation
MayRemove == finLatest /\ (twoLive => finOld)
C10_AllAgree == (~finLatest \/ (twoLive /\ ~finOld)) => ~MayRemove
MayAdoptRevision == ~staleOrphan       \* the live parent is being deleted: nothing may be adopted
C04_RevisionsLikeChildren == staleOrphan => ~MayAdoptRevision
Emit == PrintT("SCN|" \o ToJson([finLatest |-> finLatest, finOld |-> finOld, method |-> method, twoLive |-> twoLive, mayRemove |-> MayRemove,
                                 staleOrphan |-> staleOrphan, mayAdopt |-> MayAdoptRevision]))
=============================================================================
