------------------------------ MODULE RollFin ------------------------------
(* Finalizing in the middle of a rolling update (C10, "all revisions must agree on finalized"):  *)
(* a parent with two live revisions is deleted; the finalize hook is called once per live        *)
(* revision and answers `finalized` per revision.  The finalizer may be removed only when every  *)
(* live revision answered finalized: true.                                                       *)
EXTENDS Integers, Sequences, FiniteSets, TLC, Json
CONSTANTS Methods
VARIABLES finLatest, finOld, method, twoLive
vars == <<finLatest, finOld, method, twoLive>>
Init == finLatest \in BOOLEAN /\ finOld \in BOOLEAN /\ method \in Methods /\ twoLive \in BOOLEAN
Next == UNCHANGED vars
Spec == Init /\ [][Next]_vars
\* design-level statement of the aggregation
MayRemove == finLatest /\ (twoLive => finOld)
C10_AllAgree == (~finLatest \/ (twoLive /\ ~finOld)) => ~MayRemove
Emit == PrintT("SCN|" \o ToJson([finLatest |-> finLatest, finOld |-> finOld, method |-> method, twoLive |-> twoLive, mayRemove |-> MayRemove]))
=============================================================================
