SPECIFICATION Spec
CONSTANTS
  NS = 2
  NR = 1
  NO = 2
  MaxOps = 6
  MaxH = 3
  Ticks = TRUE
  Beh = FALSE
  Mut = "noReplay"
  AddEv = TRUE
CHECK_DEADLOCK FALSE
VIEW View
PROPERTIES C18_Replay
