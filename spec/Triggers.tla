---------------------------- MODULE Triggers ----------------------------
(* Event handlers of the composite and the decorator controller as functions from        *)
(* (event, caches, configuration) to the set of queued keys (C14).                       *)
(*                                                                                     *)
(* Pure operators only, shared by the bounded model (MC_Triggers) and by the trace       *)
(* specifications (TraceTriggers, TraceCustomize).  Two layers:                          *)
(*   statement level  Must / MustNotRaw / MustNot    -- what C14 SAYS must / must not be  *)
(*                    queued for one delivered event, written from the statement;         *)
(*   code level       Code...                        -- what the handlers DO as written   *)
(*                    (enqueueParentObject, updateParentObject, resolveControllerRef,     *)
(*                    onChildAdd/Update/Delete, findPotentialParents, onRelated*,          *)
(*                    findRelatedParents, parentQueueKey / splitParentQueueKey).           *)
(*                                                                                     *)
(* tc   : [kind, pkind, pav, pNs, genSel, ignoreStatus, fin, csel, casel, childKinds,     *)
(*         relKinds]  -- configuration as reported by the REAL controller object          *)
(* ev   : [type, old, new], type \in {add, update, delete, tombstone, resync};            *)
(*        objects are projected records (Objects.tla); parents carry additionally `sel`   *)
(*        (their own .spec.selector) -- "as delivered with the event"                     *)
(* parents : set of the parent records in the controller's cache when the event is handled*)
(* asked   : (uid, generation) -> rules the customize hook returned for that parent        *)
(* A queued parent is identified by Id = <<namespace, name>>.                              *)
EXTENDS Customize

GroupOfAV(av) == CASE av = "v1" -> "" [] av = "verif.example/v1" -> "verif.example"
                   [] av = "verif.example/v2" -> "verif.example" [] av = "apps/v1" -> "apps"
                   [] av = "other.example/v1" -> "other.example" [] OTHER -> av

Id(o) == <<o.ns, o.name>>
\* the object the handlers look at
Obj(ev) == IF ev.type \in {"delete", "tombstone"} THEN ev.old ELSE ev.new

\* ---- the controller's interest in a parent ------------------------------------------------
CtlMatches(tc, o) == Matches(tc.csel, o.labels) /\ (tc.kind = "decorator" => Matches(tc.casel, o.ann))
HasFin(tc, o)     == tc.fin \in Range(o.fins)
\* "matches the controller's selector (or still carries its finalizer)"
Cares(tc, o)      == o.live /\ (CtlMatches(tc, o) \/ HasFin(tc, o))

IsParentEv(tc, ev) == Obj(ev).kind = tc.pkind /\ Obj(ev).av = tc.pav
IsChildEv(tc, ev)  == Obj(ev).kind \in Range(tc.childKinds)

\* ---- controller owner reference ------------------------------------------------------------
HasCtrl(o) == \E i \in DOMAIN o.owners : o.owners[i].ctrl
CtrlRef(o) == o.owners[CHOOSE i \in DOMAIN o.owners : o.owners[i].ctrl /\ \A j \in DOMAIN o.owners : o.owners[j].ctrl => i <= j]
\* "resolves to by kind, name and UID" (kind includes the API group; a namespaced parent
\* lives in the child's namespace -- owner references cannot cross namespaces)
Resolves(tc, ref, child, p) ==
  /\ p.live
  /\ ref.kind = tc.pkind /\ GroupOfAV(ref.av) = GroupOfAV(tc.pav)
  /\ ref.name = p.name /\ ref.uid = p.uid
  /\ (tc.pNs => p.ns = child.ns)

\* ---- a composite parent's selector over its children -------------------------------------
ChildSel(tc, p)  == IF tc.genSel THEN [ml |-> ("controller-uid" :> p.uid), me |-> <<>>] ELSE p.sel
SelUsable(tc, p) == tc.genSel \/ p.sel.ml # <<>> \/ p.sel.me # <<>>

\* =======================================================================================
\* statement level
\* =======================================================================================
\* "with status changes ignored only parent updates that change neither generation, labels,
\*  annotations nor deletion state are dropped"
Significant(old, new) == old.gen # new.gen \/ old.labels # new.labels \/ old.ann # new.ann \/ old.deleting # new.deleting

\* "Creation, update or deletion of a parent that matches ... (or still carries its finalizer)"
MustParent(tc, ev) ==
  IF ~IsParentEv(tc, ev) THEN {}
  ELSE CASE ev.type \in {"add", "delete", "tombstone"} -> IF Cares(tc, Obj(ev)) THEN {Id(Obj(ev))} ELSE {}
         [] ev.type = "update" -> IF Cares(tc, ev.new) /\ (~tc.ignoreStatus \/ Significant(ev.old, ev.new))
                                  THEN {Id(ev.new)} ELSE {}
         [] OTHER -> {}          \* resync replays of parents: nothing demanded, nothing forbidden

\* "any added, changed or deleted child whose controller owner reference - as delivered with
\*  the event - names it" / "for composite controllers the appearance or relabelling of an
\*  orphan matching its selector" (an orphan that is being deleted can never be adopted and is
\*  not counted as an appearance; an object that has just lost its controller reference is)
OrphanAppears(ev) ==
  \/ ev.type = "add"
  \/ (ev.type = "update" /\ (ev.old.labels # ev.new.labels \/ HasCtrl(ev.old)))
MustChild(tc, ev, parents) ==
  IF ~IsChildEv(tc, ev) \/ ev.type = "resync" THEN {}
  ELSE LET o == Obj(ev) IN
       IF HasCtrl(o)
       THEN { Id(p) : p \in { q \in parents : Resolves(tc, CtrlRef(o), o, q) /\ Cares(tc, q) } }
       ELSE IF tc.kind = "composite" /\ OrphanAppears(ev) /\ ~o.deleting
       THEN { Id(p) : p \in { q \in parents : /\ Cares(tc, q) /\ SelUsable(tc, q) /\ Matches(ChildSel(tc, q), o.labels)
                                              /\ (tc.pNs => q.ns = o.ns) } }
       ELSE {}

\* "any change to an object selected by its customize rules" (old or new state selected;
\* rule sets the statement calls an error select nothing)
RulesOf(asked, p) == IF CacheKey(p) \in DOMAIN asked THEN asked[CacheKey(p)] ELSE <<>>
SelectsEither(rules, p, pNs, ev) ==
  \/ (ev.old.live /\ ev.type # "add" /\ Selected(rules, p, pNs, {ev.old}) # {})
  \/ (ev.new.live /\ ev.type \notin {"delete", "tombstone"} /\ Selected(rules, p, pNs, {ev.new}) # {})
MustRelated(tc, ev, parents, asked) ==
  IF ev.type = "resync" THEN {}
  ELSE { Id(p) : p \in { q \in parents : /\ Cares(tc, q)
                                        /\ ~HasErr(RulesOf(asked, q), q, tc.pNs)
                                        /\ SelectsEither(RulesOf(asked, q), q, tc.pNs, ev) } }

Must(tc, ev, parents, asked) == MustParent(tc, ev) \cup MustChild(tc, ev, parents) \cup MustRelated(tc, ev, parents, asked)

\* "parents that neither match nor carry the finalizer are never queued": for an event about a
\* parent its state is the one delivered with the event, for every other parent the cached one
NotCaredIds(tc, ev, parents) ==
  IF IsParentEv(tc, ev)
  THEN { Id(q) : q \in { x \in parents : Id(x) # Id(Obj(ev)) /\ ~Cares(tc, x) } }
       \cup (IF Cares(tc, Obj(ev)) THEN {} ELSE {Id(Obj(ev))})
  ELSE { Id(q) : q \in { x \in parents : ~Cares(tc, x) } }
\* "Cache resyncs of children (unchanged resourceVersion) enqueue nothing" / "a controlled child
\* wakes only the parent its owner reference resolves to by kind, name and UID"
\* U = every identity that could be meant (cached parents and whatever was queued)
MustNotChild(tc, ev, parents, U) ==
  IF ~IsChildEv(tc, ev) THEN {}
  ELSE IF ev.type = "resync" THEN U
  ELSE LET o == Obj(ev) IN
       IF HasCtrl(o) THEN U \ { Id(p) : p \in { q \in parents : Resolves(tc, CtrlRef(o), o, q) } } ELSE {}
MustNotRaw(tc, ev, parents, U) == NotCaredIds(tc, ev, parents) \cup MustNotChild(tc, ev, parents, U)
\* a clause never forbids what another clause demands (an object can be child and related at once)
MustNot(tc, ev, parents, asked, U) == MustNotRaw(tc, ev, parents, U) \ Must(tc, ev, parents, asked)

\* =======================================================================================
\* code level (as written).  Result: set of [id, ok]; ok = the queued key parses back to the
\* parent with the controller's own parser (SplitMetaNamespaceKey / splitParentQueueKey)
\* =======================================================================================
\* enqueueParentObject(obj).  fixed = FALSE: as written -- a cache.DeletedFinalStateUnknown is
\* not an *Unstructured, so the selector/finalizer filter is skipped and the key is the
\* tombstone's "ns/name" (which splitParentQueueKey of the decorator can never parse).
\* fixed = TRUE: the tombstone is unwrapped first (intended behaviour).
CodeEnq(tc, o, tomb, fixed) ==
  IF tomb /\ ~fixed THEN { [id |-> Id(o), ok |-> tc.kind = "composite"] }
  ELSE IF Cares(tc, o) THEN { [id |-> Id(o), ok |-> TRUE] } ELSE {}
\* updateParentObject
CodeDropsUpdate(tc, old, new) ==
  tc.ignoreStatus /\ old.gen = new.gen /\ old.labels = new.labels /\ old.ann = new.ann /\ ~new.deleting
CodeParent(tc, ev, fixed) ==
  CASE ev.type \in {"add", "delete"}    -> CodeEnq(tc, Obj(ev), FALSE, fixed)
    [] ev.type = "tombstone"            -> CodeEnq(tc, ev.old, TRUE, fixed)
    [] ev.type \in {"update", "resync"} -> IF CodeDropsUpdate(tc, ev.old, ev.new) THEN {} ELSE CodeEnq(tc, ev.new, FALSE, fixed)
    [] OTHER -> {}
\* resolveControllerRef: group and kind, then lookup by (namespace,) name, then UID, then filter
CodeResolve(tc, ref, childNs, parents) ==
  IF GroupOfAV(ref.av) # GroupOfAV(tc.pav) \/ ref.kind # tc.pkind THEN {}
  ELSE { p \in parents : /\ p.ns = (IF tc.pNs THEN childNs ELSE "") /\ p.name = ref.name
                         /\ p.uid = ref.uid /\ Cares(tc, p) }
EnqAll(tc, ps, fixed) == UNION { CodeEnq(tc, p, FALSE, fixed) : p \in ps }
CodeChildDelete(tc, o, parents, fixed) ==
  IF ~HasCtrl(o) THEN {} ELSE EnqAll(tc, CodeResolve(tc, CtrlRef(o), o.ns, parents), fixed)
\* findPotentialParents (composite only)
CodePotential(tc, o, parents) ==
  { q \in parents : (tc.pNs => q.ns = o.ns) /\ SelUsable(tc, q) /\ Matches(ChildSel(tc, q), o.labels) }
CodeChildAdd(tc, o, parents, fixed) ==
  IF o.deleting THEN CodeChildDelete(tc, o, parents, fixed)
  ELSE IF HasCtrl(o) THEN EnqAll(tc, CodeResolve(tc, CtrlRef(o), o.ns, parents), fixed)
  ELSE IF tc.kind = "decorator" THEN {}
  ELSE EnqAll(tc, CodePotential(tc, o, parents), fixed)
CodeChild(tc, ev, parents, fixed) ==
  CASE ev.type = "add"                   -> CodeChildAdd(tc, ev.new, parents, fixed)
    [] ev.type \in {"update", "resync"}  -> IF ev.old.rv = ev.new.rv THEN {} ELSE CodeChildAdd(tc, ev.new, parents, fixed)
    [] ev.type \in {"delete", "tombstone"} -> CodeChildDelete(tc, ev.old, parents, fixed)
    [] OTHER -> {}
\* onRelatedAdd / onRelatedUpdate / onRelatedDelete -> notifyRelatedParents -> findRelatedParents
\* (the customize hook is asked for every cached parent; erroneous rules are skipped)
CodeRelatedObjs(ev) ==
  CASE ev.type = "add" -> {ev.new}
    [] ev.type \in {"update", "resync"} -> IF ev.old.rv = ev.new.rv THEN {} ELSE {ev.old, ev.new}
    [] ev.type \in {"delete", "tombstone"} -> {ev.old}
    [] OTHER -> {}
CodeRelated(tc, ev, parents, asked, fixed) ==
  EnqAll(tc, { q \in parents : \E o \in CodeRelatedObjs(ev) : Wakes(RulesOf(asked, q), q, tc.pNs, o) }, fixed)
Code(tc, ev, parents, asked, fixed) ==
  (IF IsParentEv(tc, ev) THEN CodeParent(tc, ev, fixed) ELSE {})
  \cup (IF IsChildEv(tc, ev) THEN CodeChild(tc, ev, parents, fixed) ELSE {})
  \cup (IF Obj(ev).kind \in Range(tc.relKinds) THEN CodeRelated(tc, ev, parents, asked, fixed) ELSE {})

\* =======================================================================================
\* the three clauses over a set of queued [id, ok]
\* =======================================================================================
QueuedOK(q)  == { x.id : x \in { y \in q : y.ok } }
QueuedAny(q) == { x.id : x \in q }
Missing(must, q)      == must \ QueuedOK(q)              \* C14_Complete fails iff non-empty
Forbidden(mustnot, q) == QueuedAny(q) \cap mustnot       \* C14_Sound fails iff non-empty
Unparsed(q)           == { x \in q : ~x.ok }             \* C14_KeyParses fails iff non-empty

\* signatures of the deviations of the code as written (known-finding classification)
\* the decorator queues the tombstone's own "ns/name" key for a deleted parent
Sig_C14_DecoratorTombstoneKey(tc, ev, id) ==
  tc.kind = "decorator" /\ IsParentEv(tc, ev) /\ ev.type = "tombstone" /\ id = Id(ev.old)
\* a parent delivered as tombstone is queued without the selector/finalizer filter
Sig_C14_ParentTombstoneUnfiltered(tc, ev, id) ==
  IsParentEv(tc, ev) /\ ev.type = "tombstone" /\ id = Id(ev.old) /\ ~Cares(tc, ev.old)
=============================================================================
