---------------------------- MODULE Objects ----------------------------
(* Abstract Kubernetes objects as used by every module of the specification, and the   *)
(* helper operators on them.  The record shape is exactly what the harness' projection *)
(* (verifsim.Project) writes into traces, so the same operators serve the bounded      *)
(* models and the trace specifications.                                                *)
EXTENDS Integers, Sequences, FiniteSets, TLC

\* The projection of "no object" (must equal verifsim.Absent()).
AbsentObj ==
  [live |-> FALSE, kind |-> "", av |-> "", ns |-> "", name |-> "", uid |-> "", rv |-> 0, gen |-> 0,
   labels |-> <<>>, ann |-> <<>>, hasLA |-> FALSE, la |-> <<>>, owners |-> <<>>, ctrl |-> "",
   fins |-> <<>>, deleting |-> FALSE, fields |-> <<>>, status |-> <<>>, hasStatus |-> FALSE,
   patch |-> "", claims |-> <<>>]

Range(f) == { f[x] : x \in DOMAIN f }

\* ---- owner references ---------------------------------------------------------------
Controllers(o) == { i \in DOMAIN o.owners : o.owners[i].ctrl }
CtrlOf(o)      == o.ctrl                      \* uid of the first controller reference, "" if none
OwnerUids(o)   == { o.owners[i].uid : i \in DOMAIN o.owners }
\* owner references of o that do not belong to uid u, in order
RECURSIVE FilterOwners(_, _)
FilterOwners(s, u) == IF s = <<>> THEN <<>>
                      ELSE IF Head(s).uid = u THEN FilterOwners(Tail(s), u)
                      ELSE <<Head(s)>> \o FilterOwners(Tail(s), u)
OthersOf(o, u) == FilterOwners(o.owners, u)

\* ---- label selectors ----------------------------------------------------------------
\* sel == [ml |-> function label -> value, me |-> sequence of [key, op, values]]
ExprHolds(e, labels) ==
  CASE e.op = "In"           -> e.key \in DOMAIN labels /\ labels[e.key] \in Range(e.values)
    [] e.op = "NotIn"        -> ~(e.key \in DOMAIN labels /\ labels[e.key] \in Range(e.values))
    [] e.op = "Exists"       -> e.key \in DOMAIN labels
    [] e.op = "DoesNotExist" -> e.key \notin DOMAIN labels
    [] OTHER                 -> FALSE
Matches(sel, labels) ==
  /\ \A k \in DOMAIN sel.ml : k \in DOMAIN labels /\ labels[k] = sel.ml[k]
  /\ \A i \in DOMAIN sel.me : ExprHolds(sel.me[i], labels)

\* ---- comparison helpers -------------------------------------------------------------
\* everything of an object except resourceVersion
NoRV(o) == [o EXCEPT !.rv = 0]
\* everything except rv and owner data
NoOwners(o) == [o EXCEPT !.rv = 0, !.owners = <<>>, !.ctrl = ""]
\* everything except rv, generation and status
NoStatus(o) == [o EXCEPT !.rv = 0, !.status = <<>>, !.hasStatus = FALSE]
\* sub-function: every path of d is in f with the same value
SubFn(d, f) == \A p \in DOMAIN d : p \in DOMAIN f /\ f[p] = d[p]

KindOfRes(r) ==
  CASE r = "things" -> "Thing" [] r = "cthings" -> "CThing" [] r = "configmaps" -> "ConfigMap"
    [] r = "parents" -> "Parent" [] r = "cparents" -> "CParent" [] r = "nostatus" -> "NoStatus"
    [] r = "controllerrevisions" -> "ControllerRevision" [] OTHER -> r
=============================================================================
