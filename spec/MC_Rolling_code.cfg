SPECIFICATION Spec
CONSTANTS
  Order <- O2
  Methods <- MBoth
  ChecksSet <- BBoth
  Policies <- PFair
  Variant = "code"
  MaxPert = 0
  Rounds = 14
  OwnConds <- OCNone
  Presets <- BNo
  GenSels <- BNo
  ScaleRevs <- BNo
INVARIANTS C07_OneMove C07_HookOrder C07_Gate C07_OldStay C07_NonRevNow C08_Linear C07_StuckWaits
PROPERTIES C01_QuietWhenDone
CHECK_DEADLOCK FALSE
