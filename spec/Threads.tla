------------------------------ MODULE Threads ------------------------------
(* Goroutines, shared locations and the locks the code takes around each access (C17, race   *)
(* clause).  Threads: N workers syncing distinct parents of one hosted controller, the         *)
(* per-revision hook goroutines a rolling sync forks and joins, the informer dispatch          *)
(* goroutine running the event handlers.  Each thread is a fixed sequence of accesses           *)
(* [loc, kind, locks]; TLC interleaves them and checks the lockset / fork-join race predicate.  *)
(*                                                                                           *)
(* Variant "code": customize.Manager.getRelatedClient reads and writes the relatedInformers     *)
(* map without a lock from any worker (and the dispatch goroutine reads it through the handlers)*)
(* Variant "intended": that map is guarded by a mutex.                                          *)
EXTENDS Integers, Sequences, FiniteSets, TLC, Json

CONSTANTS Variant, Workers, WithCustomize, WithRolling, WithSSA

A(l, k, ls) == [loc |-> l, kind |-> k, locks |-> ls]
RelLock == IF Variant = "intended" THEN {"relatedMu"} ELSE {}
\* one sync of a worker, as a sequence of accesses to process-wide state
SyncProg ==
  <<A("parentCache", "r", {"indexer"}), A("childCache", "r", {"indexer"})>>
  \o (IF WithCustomize THEN <<A("customizeCache", "r", {"zcache"}), A("customizeCache", "w", {"zcache"}),
                              A("relatedInformers", "r", RelLock), A("factoryMaps", "w", {"factoryMu"}),
                              A("handlerMap", "w", {"handlerMu"}), A("relatedInformers", "w", RelLock),
                              A("relatedCache", "r", {"indexer"})>> ELSE <<>>)
  \o (IF WithRolling THEN <<A("revisionCache", "r", {"indexer"}), A("fork", "f", {}), A("join", "j", {})>> ELSE <<>>)
  \o <<A("etagCache", "r", {"zcache"}), A("etagCache", "w", {"zcache"})>>
  \o (IF WithSSA THEN <<A("ssaMemo", "r", {"cacheLock"}), A("ssaMemo", "w", {"cacheLock"})>> ELSE <<>>)
  \o <<A("ssaMemo", "w", {"cacheLock"})>>          \* deleting a child forgets its memo entry, whatever the apply strategy
\* a per-revision hook goroutine: related objects of its revision + the hook call; writes only its own slot
RevProg == (IF WithCustomize THEN <<A("customizeCache", "r", {"zcache"}), A("relatedInformers", "r", RelLock), A("relatedCache", "r", {"indexer"})>> ELSE <<>>)
           \o <<A("etagCache", "r", {"zcache"}), A("etagCache", "w", {"zcache"})>>
\* the informer dispatch goroutine running this controller's handlers for one event
DispatchProg == <<A("handlerMap", "r", {"handlerMu"}), A("parentCache", "r", {"indexer"})>>
                \o (IF WithCustomize THEN <<A("customizeCache", "r", {"zcache"})>> ELSE <<>>)

WorkerIds == 1..Workers
Threads == { <<"w", i>> : i \in WorkerIds } \cup { <<"rev", i>> : i \in WorkerIds } \cup {<<"dispatch", 0>>}
ProgOf(t) == IF t[1] = "w" THEN SyncProg ELSE IF t[1] = "rev" THEN RevProg ELSE DispatchProg

VARIABLES pc, started, joined, racy
vars == <<pc, started, joined, racy>>
Init == /\ pc = [t \in Threads |-> 1]
        /\ started = [t \in Threads |-> t[1] # "rev"]          \* revision goroutines start at their worker's fork
        /\ joined = [t \in Threads |-> FALSE]
        /\ racy = {}
Done(t) == pc[t] > Len(ProgOf(t))
Cur(t)  == ProgOf(t)[pc[t]]
\* two accesses race when both threads are at them at the same time (neither ordered before the other by
\* fork/join), they touch the same location, one writes, and they hold no common lock
Conflict(a, b) == a.loc = b.loc /\ a.loc \notin {"fork", "join"} /\ ("w" \in {a.kind, b.kind}) /\ a.locks \cap b.locks = {}
Active == { t \in Threads : started[t] /\ ~Done(t) }
RacesNow == { Cur(t).loc : t \in { x \in Active : \E u \in Active \ {x} : Conflict(Cur(x), Cur(u)) } }
Step(t) ==
  /\ started[t] /\ ~Done(t)
  /\ LET a == Cur(t) IN
     /\ (a.kind = "j" => Done(<<"rev", t[2]>>))                                     \* wg.Wait()
     /\ started' = IF a.kind = "f" THEN [started EXCEPT ![<<"rev", t[2]>>] = TRUE] ELSE started
     /\ joined' = IF a.kind = "j" THEN [joined EXCEPT ![<<"rev", t[2]>>] = TRUE] ELSE joined
  /\ pc' = [pc EXCEPT ![t] = @ + 1]
  /\ racy' = racy \cup RacesNow
Next == \E t \in Threads : Step(t)
Spec == Init /\ [][Next]_vars
C17_NoRace == racy = {}
\* which locations can race (printed for the harness: the concurrency shapes to run)
Emit == (\A t \in Threads : started[t] => Done(t)) => PrintT("SCN|" \o ToJson([racy |-> racy, customize |-> WithCustomize, rolling |-> WithRolling, ssa |-> WithSSA, workers |-> Workers]))
=============================================================================
