SPECIFICATION Spec
CONSTANTS
  NN = 1
  Kind = "composite"
  Pal <- MCPal
  Allowed <- Al_q1
  MaxLen = 0
  Fixed <- FxNone
  Mut = "none"
  Beh = TRUE
  MxAll = TRUE
CHECK_DEADLOCK FALSE
INVARIANTS EmitMx
