SPECIFICATION Spec
CONSTANTS
  Variant = "intended"
  Workers = 2
  WithCustomize = TRUE
  WithRolling = FALSE
  WithSSA = TRUE
INVARIANTS C17_NoRace Emit
CHECK_DEADLOCK FALSE
