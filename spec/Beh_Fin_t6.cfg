SPECIFICATION Spec
CONSTANTS
  MaxSteps = 6
  FinProgs <- FAll
  Kinds <- KBoth
  Beh = TRUE
INVARIANTS Emit
CHECK_DEADLOCK FALSE
