SPECIFICATION Spec
CONSTANTS
  NN = 2
  Kind = "composite"
  Pal <- MCPal
  Allowed <- Al_full
  MaxLen = 4
  Fixed <- FxAll
  Mut = "stopKeepsHandlers"
  Beh = FALSE
  MxAll = FALSE
CHECK_DEADLOCK FALSE
INVARIANTS Inv_RestartOnSpec
