---------------------------- MODULE MC_Lifecycle ----------------------------
(* Bounded instances of Lifecycle.tla.                                                     *)
(*   MC_Lifecycle_*.cfg        exhaustive check of the clauses (intended design; code as   *)
(*                             written with one deviation left in; seeded model mutants)   *)
(*   Beh_Lifecycle_*.cfg       enumeration of all event histories for replay               *)
(*   Beh_Lifecycle_mx*.cfg     the configuration matrix: every combination of the optional *)
(*                             webhook fields, each put through one fixed history          *)
EXTENDS Lifecycle

W0 == [NoWh EXCEPT !.url = TRUE]
Base(par, tag) == [par |-> par, kids |-> <<"cm">>, strat |-> FALSE, hooks |-> "set", sync |-> W0,
                   cust |-> "none", fin |-> "none", sel |-> "unset", tag |-> tag]
A1 == Base("pa", 1)
A2 == Base("pb", 1)

\* spec ids:  1 A  2 B  3 C  4 unresolvable parent  5 constructor fails  6 etag without cleanup  7 unspecified
\*            8 A' 9 B' 10 constructor fails   (8..10: second name, other parent resource)
MCPal == <<
  A1,
  [A1 EXCEPT !.kids = <<"cm", "th">>, !.tag = 2, !.fin = "ok"],
  [A1 EXCEPT !.cust = "ok", !.sel = "ok"],
  [A1 EXCEPT !.par = "ghost"],
  [A1 EXCEPT !.kids = <<"cm", "ghost">>],
  [A1 EXCEPT !.sync.etag = "timeout", !.tag = 3],
  [A1 EXCEPT !.kids = <<"cm", "cm">>],
  A2,
  [A2 EXCEPT !.kids = <<"th", "cm", "pa">>, !.tag = 2],
  [A2 EXCEPT !.hooks = "nil"] >>

\* alternatives of a palette entry of the same class (same statement-level worth); the
\* orchestration substitutes them in turn, the trace specification judges each by its own traits
SvcW == [NoWh EXCEPT !.svc = "ok", !.path = TRUE]
MCVariants == <<
  << A1, [A1 EXCEPT !.sync = SvcW], [A1 EXCEPT !.sync.mode = "strict", !.sync.timeout = "pos"], [A1 EXCEPT !.sync.etag = "both"],
     [A1 EXCEPT !.sync.etag = "none"], [A1 EXCEPT !.kids = <<>>], [A1 EXCEPT !.kids = <<"th">>, !.sel = "ok"] >>,
  << MCPal[2], [MCPal[2] EXCEPT !.sync = [SvcW EXCEPT !.port = TRUE, !.proto = TRUE]], [MCPal[2] EXCEPT !.sync.etag = "cleanup", !.fin = "none"],
     [MCPal[2] EXCEPT !.strat = TRUE] >>,
  << MCPal[3], [MCPal[3] EXCEPT !.sel = "unset"], [MCPal[3] EXCEPT !.kids = <<"th">>] >>,
  IF Kind = "composite" THEN << MCPal[4], [A1 EXCEPT !.par = "ns"], [A1 EXCEPT !.par = "ns", !.kids = <<"cm", "th">>] >> ELSE << MCPal[4] >>,
  << MCPal[5], [A1 EXCEPT !.hooks = "nil"], [A1 EXCEPT !.sync.url = FALSE], [A1 EXCEPT !.sync = [NoWh EXCEPT !.svc = "ok"]],
     [A1 EXCEPT !.sync = [NoWh EXCEPT !.svc = "noName", !.path = TRUE]], [A1 EXCEPT !.sync = [NoWh EXCEPT !.svc = "noNs", !.path = TRUE, !.port = TRUE]],
     [A1 EXCEPT !.sync = [NoWh EXCEPT !.path = TRUE]], [A1 EXCEPT !.sel = "bad"], [A1 EXCEPT !.cust = "bad"], [A1 EXCEPT !.fin = "bad"],
     [A1 EXCEPT !.kids = <<"ghost">>, !.strat = TRUE], [A1 EXCEPT !.kids = <<"th", "ghost", "cm">>], [A1 EXCEPT !.kids = <<"cm", "th">>, !.hooks = "nil"] >>,
  << MCPal[6], [MCPal[6] EXCEPT !.sync = [SvcW EXCEPT !.etag = "timeout"]], [MCPal[6] EXCEPT !.kids = <<"cm", "th">>] >>,
  << MCPal[7], [A1 EXCEPT !.sync.timeout = "neg"], [A1 EXCEPT !.sync.timeout = "zero"], [A1 EXCEPT !.kids = <<"th", "cm", "th">>] >>,
  << A2, [A2 EXCEPT !.sync = SvcW], [A2 EXCEPT !.kids = <<"th">>] >>,
  << MCPal[9], [MCPal[9] EXCEPT !.kids = <<"cm", "pa">>] >>,
  << MCPal[10], [A2 EXCEPT !.kids = <<"ghost", "cm">>], [A2 EXCEPT !.sync.url = FALSE] >> >>

\* every alternative is worth the same as its palette entry
VariantsOK == \A i \in DOMAIN MCPal : \A j \in DOMAIN MCVariants[i] :
                 ClassOf(MCVariants[i][j], Kind) = ClassOf(MCPal[i], Kind)
EmitVar == (Beh /\ last.k = 0) => PrintT("VAR|" \o ToJson(MCVariants))

FxAll     == {"etag", "stale", "dup"}
FxNone    == {}
FxNoEtag  == {"stale", "dup"}
FxNoStale == {"etag", "dup"}
FxNoDup   == {"etag", "stale"}

Al_full == <<{1, 2, 3, 4, 5, 6, 7}, {8, 9, 10}>>
Al_q1   == <<{1, 2, 4, 5, 6}, {}>>
Al_q2   == <<{1, 3, 7}, {9, 10}>>
Al_t1   == <<{1, 2, 3, 4, 5, 6, 7}, {}>>
Al_t2   == <<{1, 3, 5, 7}, {8, 9, 10}>>

\* ---------------------------------------------------------------------------------------
\* configuration matrix: every optional webhook field set or unset
Bools == {TRUE, FALSE}
AllWh == { [url |-> u, svc |-> sv, path |-> p, port |-> po, proto |-> pr, timeout |-> ti, etag |-> et, mode |-> mo] :
             u \in Bools, sv \in {"unset", "ok", "noName", "noNs"}, p \in Bools, po \in Bools, pr \in Bools,
             ti \in {"unset", "pos", "zero", "neg"}, et \in {"unset", "off", "none", "timeout", "cleanup", "both"},
             mo \in {"unset", "loose", "strict"} }
\* port and protocol only exist inside a service reference
WhShapes == { w \in AllWh : w.svc = "unset" => (~w.port /\ ~w.proto) }
Diff(w) == Cardinality({ f \in DOMAIN w : w[f] # W0[f] })
\* quick: everything within two fields of the plain url form; thorough: all of them
WhQuick == { w \in WhShapes : Diff(w) <= 2 }
CONSTANT MxAll
MxSet == IF MxAll THEN WhShapes ELSE WhQuick
MxSpec(w) == [A1 EXCEPT !.sync = w, !.tag = 2, !.kids = <<"cm", "th">>]
\* the fixed history every matrix entry goes through (spec 1 = plain A, spec 2 = the entry)
MxOps == << [t |-> "create", n |-> 1, s |-> 2], [t |-> "noop", n |-> 1, s |-> 0], [t |-> "update", n |-> 1, s |-> 1],
            [t |-> "update", n |-> 1, s |-> 2], [t |-> "delete", n |-> 1, s |-> 0] >>
MxWant(w, i) == LET sid == IF i \in {1, 2, 4} THEN 2 ELSE IF i = 3 THEN 1 ELSE 0
                    o == IF sid = 0 THEN NoObj ELSE [has |-> TRUE, spec |-> IF sid = 1 THEN A1 ELSE MxSpec(w)]
                IN WantOf([n \in Names |-> o], [n \in Names |-> sid])
EmitMx == (Beh /\ last.k = 0) =>
            \A w \in MxSet : PrintT("MTX|" \o ToJson([kind |-> Kind, nn |-> 1, specs |-> <<A1, MxSpec(w)>>,
                                                      steps |-> [i \in DOMAIN MxOps |-> [op |-> MxOps[i], want |-> MxWant(w, i)]]]))
=============================================================================
