SPECIFICATION Spec
CONSTANTS
  Pairs = "all"
  Beh = TRUE
INVARIANTS Emit
CHECK_DEADLOCK FALSE
