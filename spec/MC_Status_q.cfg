SPECIFICATION Spec
CONSTANTS
  EnvBudget = 3
  Faults <- FAll
  Beh = FALSE
  MaxTries = 4
  Variants <- VOne
INVARIANTS C11_UidGuard C11_Written
PROPERTIES C11_RetryFresh C11_SkipEqual
CHECK_DEADLOCK FALSE
