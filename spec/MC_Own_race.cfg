SPECIFICATION Spec
CONSTANTS
  KidSeq <- Kids2
  Actors <- ActorsAB
  EnvBudget = 2
  Method = "InPlace"
  Recheck = TRUE
  Beh = FALSE
  InitSet = "race"
  DesiredSets <- DesA
INVARIANTS TypeOK C04_OneController C04_OthersKept C04_AdoptChild C04_AdoptRecheck C02_Observed
CHECK_DEADLOCK FALSE
