SPECIFICATION Spec
CONSTANTS
  EnvBudget = 2
  Beh = FALSE
  StatusSubs <- SubBoth
  Selections <- SelAll
  SelStyles <- StyAll
INVARIANTS C16_SpecUntouched C16_OnlyNamed C16_StatusRule C16_Selected C16_Done
CHECK_DEADLOCK FALSE
