SPECIFICATION Spec
CHECK_DEADLOCK FALSE
CONSTANTS
  Calls <- Calls3
  Phase <- PhaseP2
  Params <- Conc2KeyParams
  AnsOf <- AnsConc2Key
  Variant = "code"
  ExpireMode = "none"
  MergeServe = FALSE
  Record = TRUE
INVARIANT Emit
