SPECIFICATION Spec
CONSTANTS
  MaxEv = 3
  Focus <- FAll
  Kinds <- KBoth
  Width = "narrow"
  Real = FALSE
  Fixed = FALSE
  Beh = TRUE
INVARIANTS Emit
CHECK_DEADLOCK FALSE
