\* mutant of the model without CanAdopt: C04_AdoptRecheck must be violated (anti-vacuity)
SPECIFICATION Spec
CONSTANTS
  KidSeq <- Kids1
  Actors <- ActorsA
  EnvBudget = 1
  Method = "InPlace"
  Recheck = FALSE
  Beh = FALSE
  InitSet = "small"
  DesiredSets <- AllDesired1
INVARIANTS C04_AdoptRecheck
CHECK_DEADLOCK FALSE
