SPECIFICATION Spec
CONSTANTS
  MaxEv = 1
  Focus <- FAll
  Kinds <- KBoth
  Width = "core"
  Real = FALSE
  Fixed = FALSE
  Beh = FALSE
INVARIANTS D_NeverMustNot
CHECK_DEADLOCK FALSE
