SPECIFICATION Spec
CONSTANTS
  Order <- O3
  Methods <- MBoth
  ChecksSet <- BBoth
  Policies <- PThree
  Variant = "intended"
  MaxPert = 1
  Rounds = 22
  OwnConds <- OCNone
  Presets <- BBoth
  GenSels <- BNo
  ScaleRevs <- BBoth
INVARIANTS C07_OneMove C07_HookOrder C07_Gate C07_OldStay C07_NonRevNow C08_Linear C07_StuckWaits
PROPERTIES C01_QuietWhenDone
CHECK_DEADLOCK FALSE
