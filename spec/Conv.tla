------------------------------- MODULE Conv -------------------------------
(* Convergence model at sync granularity (one action = one whole sync with a fresh      *)
(* cache): observe -> claim (adopt / release) -> hook -> diff -> act, for composite and  *)
(* decorator controllers, every update method, dynamic apply.                           *)
(*                                                                                     *)
(* Design level (TLC, MC_Conv*.cfg): from every initial cluster content the syncs reach *)
(* the hook's fixpoint (C01 convergence, liveness under weak fairness of Sync) and from *)
(* there a sync changes nothing (C01 quiescence, action property).                      *)
(* Conformance: every INITIAL STATE is printed as a scenario (cluster content,           *)
(* configuration, hook programme, number of syncs the model needs, the fixpoint) and    *)
(* replayed on the real controllers; TraceSync judges C01, C03, C06 on the trace.        *)
EXTENDS Integers, Sequences, FiniteSets, TLC, Json

CONSTANTS Slots,     \* sequence of child names, e.g. <<"a","b">>
          Kinds,     \* set of controller kinds explored: subset of {"composite","decorator"}
          Methods,   \* set of update methods: subset of {"-","OnDelete","Recreate","InPlace"}
          Progs,     \* set of hook programmes: subset of {"none","first","all","ordinal"}
          Scopes,    \* subset of {"NsNs","ClNs","ClCl","NsCm"}
          GenSels,   \* subset of BOOLEAN
          ArcheSet   \* "full" | "small"

Names   == { Slots[i] : i \in DOMAIN Slots }
Pos(k)  == CHOOSE i \in DOMAIN Slots : Slots[i] = k

\* one child slot: who controls it, whether its labels match the parent's selector, whether
\* its content equals the desired content, whether it carries the last-applied record of the
\* desired state, deletion state, and (decorators) whether it carries this decorator's marker
NoSlot == [live |-> FALSE, ctrl |-> "none", match |-> FALSE, eq |-> TRUE, la |-> FALSE, del |-> FALSE, marker |-> FALSE, extra |-> "none"]
S(c, m, e, l, d, mk, x) == [live |-> TRUE, ctrl |-> c, match |-> m, eq |-> e, la |-> l, del |-> d, marker |-> mk, extra |-> x]
Arche(kind) ==
  IF kind = "composite" THEN
    IF ArcheSet = "small"
    THEN {NoSlot, S("P", TRUE, TRUE, TRUE, FALSE, FALSE, "none"), S("P", TRUE, FALSE, TRUE, FALSE, FALSE, "none"),
          S("P", TRUE, FALSE, TRUE, FALSE, FALSE, "drift"),
          S("none", TRUE, TRUE, FALSE, FALSE, FALSE, "none"), S("F", TRUE, TRUE, FALSE, FALSE, FALSE, "none")}
    ELSE {NoSlot,
          S("P", TRUE, TRUE, TRUE, FALSE, FALSE, "none"),      \* owned, equal
          S("P", TRUE, FALSE, TRUE, FALSE, FALSE, "none"),     \* owned, the hook changed its mind (last-applied = live = the OLD desired content)
          S("P", TRUE, FALSE, TRUE, FALSE, FALSE, "drift"),    \* owned, somebody edited an owned field (last-applied = desired, live differs)
          S("P", TRUE, TRUE, TRUE, FALSE, FALSE, "foreign"),   \* owned, equal, somebody added a foreign field
          S("P", TRUE, TRUE, TRUE, FALSE, FALSE, "status"),    \* owned, equal, status set by somebody
          S("P", TRUE, FALSE, TRUE, TRUE, FALSE, "none"),      \* owned, drifted, pending deletion
          S("P", FALSE, TRUE, TRUE, FALSE, FALSE, "none"),     \* owned, labels no longer match (release)
          S("none", TRUE, TRUE, FALSE, FALSE, FALSE, "none"),  \* matching orphan (adopt)
          S("none", FALSE, TRUE, FALSE, FALSE, FALSE, "none"), \* non-matching orphan
          S("F", TRUE, TRUE, FALSE, FALSE, FALSE, "none")}     \* controlled by somebody else
  ELSE
    IF ArcheSet = "small"
    THEN {NoSlot, S("P", TRUE, TRUE, TRUE, FALSE, TRUE, "none"), S("P", TRUE, FALSE, TRUE, FALSE, TRUE, "none"),
          S("P", TRUE, FALSE, TRUE, FALSE, TRUE, "drift"),
          S("P", TRUE, TRUE, TRUE, FALSE, FALSE, "none")}
    ELSE {NoSlot,
          S("P", TRUE, TRUE, TRUE, FALSE, TRUE, "none"),       \* our attachment, equal
          S("P", TRUE, FALSE, TRUE, FALSE, TRUE, "none"),      \* our attachment, the hook changed its mind
          S("P", TRUE, FALSE, TRUE, FALSE, TRUE, "drift"),     \* our attachment, somebody edited an owned field
          S("P", TRUE, TRUE, TRUE, FALSE, TRUE, "foreign"),
          S("P", TRUE, FALSE, TRUE, TRUE, TRUE, "none"),       \* ours, drifted, pending deletion
          S("P", TRUE, TRUE, TRUE, FALSE, FALSE, "none"),      \* owned by the target but made by another decorator
          S("none", TRUE, TRUE, FALSE, FALSE, FALSE, "none"),  \* orphan
          S("F", TRUE, TRUE, FALSE, FALSE, TRUE, "none")}      \* controlled by somebody else, carries our marker

VARIABLES slots, kind, method, prog, scope, gensel, lookalike, nsync, wrote, init0
vars == <<slots, kind, method, prog, scope, gensel, lookalike, nsync, wrote, init0>>

\* ---- the controller's view and decisions ----------------------------------------------
Visible(s, sc) == s.live
Owned(k, sl, kd, sc) == LET s == sl[k] IN
  /\ Visible(s, sc) /\ s.ctrl = "P"
  /\ IF kd = "composite" THEN s.match ELSE s.marker
\* the claim phase of a composite sync (adopt matching orphans, release non-matching owned)
Claimed(sl, kd, sc) ==
  [k \in Names |->
     LET s == sl[k] IN
     IF kd # "composite" \/ ~Visible(s, sc) THEN s
     ELSE IF s.ctrl = "none" /\ s.match /\ ~s.del THEN [s EXCEPT !.ctrl = "P"]
     ELSE IF s.ctrl = "P" /\ ~s.match THEN [s EXCEPT !.ctrl = "none"]
     ELSE s]
View(sl, kd, sc) == { k \in Names : Owned(k, sl, kd, sc) }
\* hook programmes: pure functions of the observed (owned) children
Desired(pg, view) ==
  CASE pg = "none"    -> {}
    [] pg = "first"   -> {Slots[1]}
    [] pg = "badlabel" -> {Slots[1]}      \* same answer, but the child's labels do not satisfy the parent's selector
    [] pg = "all"     -> Names
    [] pg = "echo"    -> Names             \* same set, but the hook echoes the observed objects back (annotations and all,
                                           \* minus what the API server owns: resourceVersion, uid, status, ...)
    [] pg = "echoraw" -> Names             \* ... and this one echoes them back verbatim, resourceVersion included
    [] pg = "ownedref" -> {Slots[1]}       \* the desired child already lists the parent as a plain (non-controller) owner
    [] pg = "ordinal" -> { k \in Names : \A j \in Names : Pos(j) < Pos(k) => j \in view }   \* child i only once child i-1 is observed
Updatable(m) == m \in {"Recreate", "InPlace", "SSA"}
\* one whole sync (fresh cache)
\* a desired child that would not match the selector is rejected before anything is written (C04): only the
\* claim phase, which precedes the hook, has happened.  (With a generated selector the controller adds the
\* matching label itself; decorators have no selector.)
\* (under a generated selector the bad label is a controller-uid label with somebody else's uid)
Rejected(kd, pg, gs) == pg = "badlabel" /\ kd = "composite"
SyncFn0(sl, kd, m, pg, sc) ==
  LET c    == Claimed(sl, kd, sc)
      view == View(c, kd, sc)
      des  == Desired(pg, view)
  IN [k \in Names |->
        LET s == c[k] IN
        IF k \in view /\ k \notin des THEN (IF s.del THEN s ELSE NoSlot)                     \* delete (background)
        ELSE IF k \in des /\ k \in view /\ m = "SSA" THEN [s EXCEPT !.eq = TRUE, !.la = FALSE]   \* server-side apply: forced patch by name,
                                                                                            \* old last-applied record stripped; no strategy, no deletion guard
        ELSE IF k \in des /\ m = "SSA" /\ s.live /\ s.ctrl = "none" THEN [s EXCEPT !.ctrl = "P", !.match = TRUE, !.eq = TRUE]  \* by-name apply takes an orphan over
        ELSE IF k \in des /\ m = "SSA" /\ ~s.live THEN S("P", TRUE, TRUE, FALSE, FALSE, FALSE, "none")
        ELSE IF k \in des /\ k \in view THEN
               IF (s.eq /\ s.la) \/ s.del THEN s                                            \* already matches / pending deletion
               ELSE IF m = "InPlace" THEN [s EXCEPT !.eq = TRUE, !.la = TRUE]
               ELSE IF m = "Recreate" THEN NoSlot
               ELSE s                                                                       \* OnDelete / unset: left alone
        ELSE IF k \in des /\ ~s.live THEN S("P", TRUE, TRUE, TRUE, FALSE, kd = "decorator", "none")  \* create
        ELSE s]
SyncFn(sl, kd, m, pg, sc) == SyncFn0(sl, kd, m, pg, sc)
\* ---- fixpoint oracle (independent of the step function) ---------------------------------
\* least fixpoint of D |-> Desired(D) reached from the owned set
RECURSIVE FixFrom(_, _, _)
FixFrom(pg, D, n) == IF n = 0 \/ Desired(pg, D) = D THEN D ELSE FixFrom(pg, Desired(pg, D), n - 1)
Fix(pg) == FixFrom(pg, {}, Len(Slots) + 1)
\* the statement's precondition: no foreign object occupies a desired child's name (an object
\* that the parent cannot own: foreign-owned, non-matching orphan, or a released look-alike),
\* and no child is stuck in deletion
Occupied(sl, kd, sc, k) == LET s == Claimed(sl, kd, sc)[k] IN s.live /\ ~Owned(k, Claimed(sl, kd, sc), kd, sc)
Precond(sl, kd, pg, sc) == /\ pg # "badlabel"
                           /\ \A k \in Fix(pg) : ~Occupied(sl, kd, sc, k)
                           /\ \A k \in Names : sl[k].live => ~sl[k].del
AtFixS(sl, kd, m, pg, sc) ==
  /\ Claimed(sl, kd, sc) = sl                    \* nothing left to adopt or release
  /\ View(sl, kd, sc) = Fix(pg)
  \* (dynamic apply records the desired state in the last-applied annotation; server-side apply strips that record)
  /\ Updatable(m) => \A k \in Fix(pg) : sl[k].eq /\ (IF m = "SSA" THEN ~sl[k].la ELSE sl[k].la)
RECURSIVE SyncsNeeded(_, _, _, _, _, _)
SyncsNeeded(sl, kd, m, pg, sc, n) == IF n = 0 \/ SyncFn(sl, kd, m, pg, sc) = sl THEN 0
                                     ELSE 1 + SyncsNeeded(SyncFn(sl, kd, m, pg, sc), kd, m, pg, sc, n - 1)

Init ==
  /\ kind \in Kinds /\ method \in Methods /\ prog \in Progs /\ scope \in Scopes /\ gensel \in GenSels
  /\ (kind = "decorator" => ~gensel /\ method # "SSA")        \* decorators always use dynamic apply
  /\ slots \in [Names -> Arche(kind)]
  \* an owned, matching look-alike of the first child in ANOTHER namespace: a namespaced parent must neither
  \* see nor touch it (C03)
  /\ lookalike \in BOOLEAN /\ (lookalike => scope \in {"NsNs", "NsCm"})
  /\ nsync = 0 /\ wrote = TRUE /\ init0 = slots
Sync ==
  /\ nsync < 8
  /\ slots' = IF Rejected(kind, prog, gensel) THEN Claimed(slots, kind, scope) ELSE SyncFn(slots, kind, method, prog, scope)
  /\ wrote' = (slots' # slots)
  /\ nsync' = nsync + 1
  /\ UNCHANGED <<kind, method, prog, scope, gensel, lookalike, init0>>
Next == Sync
Spec == Init /\ [][Next]_vars /\ WF_vars(Sync)

\* ---- properties (design level) ----------------------------------------------------------
Pre == Precond(init0, kind, prog, scope)
C01_Converges == Pre => <>[](AtFixS(slots, kind, method, prog, scope))
C01_Quiet == [][(Pre /\ AtFixS(slots, kind, method, prog, scope)) => slots' = slots]_vars
C01_Linear == (Pre /\ nsync >= 2 * Len(Slots) + 2) => AtFixS(slots, kind, method, prog, scope)
\* only objects the parent owns are changed by a sync (sanity link to C02)
C02_OnlyOwned == [][\A k \in Names : slots'[k] # slots[k] =>
                      (Owned(k, Claimed(slots, kind, scope), kind, scope) \/ ~slots[k].live
                       \/ (kind = "composite" /\ slots[k].ctrl \in {"none", "P"}))]_vars

Emit == nsync = 0 =>
  PrintT("SCN|" \o ToJson([slots |-> slots, kind |-> kind, method |-> method, prog |-> prog, scope |-> scope, gensel |-> gensel, lookalike |-> lookalike,
                           pre |-> Pre, fix |-> Fix(prog),
                           syncs |-> SyncsNeeded(slots, kind, method, prog, scope, 8),
                           order |-> Slots]))
=============================================================================
