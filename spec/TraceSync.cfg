SPECIFICATION Spec
CHECK_DEADLOCK FALSE
POSTCONDITION TraceAccepted
INVARIANT Axioms
INVARIANT C01_QuietAfterQuiet
INVARIANT C01_Bounded
INVARIANT C02_WriteSafe
INVARIANT C02_WriteSafeObserved
INVARIANT C02_DeleteUidPrecond
INVARIANT C02_BornOwned
INVARIANT C03_ViewExact
INVARIANT C03_NsDefault
INVARIANT C04_AdoptOnlyIf
INVARIANT C04_ReleaseDue
INVARIANT C04_ReleaseShape
INVARIANT C04_OthersKept
INVARIANT C04_OneController
INVARIANT C04_DyingParentPassive
INVARIANT C04_LabelGate
INVARIANT C04_GeneratedLabel
INVARIANT C06_Method
INVARIANT C06_DeletingNoWrite
INVARIANT C06_EqualNoWrite
INVARIANT C06_UndesiredDeletedBackground
INVARIANT C06_Complete
INVARIANT C10_FinBeforeChild
INVARIANT C10_NoFinOnDying
INVARIANT C10_HookChoice
INVARIANT C10_RemoveOnlyFinalized
INVARIANT C10_LeftoverRemoved
INVARIANT C10_DyingNoTouch
INVARIANT C10_StillReconciled
INVARIANT C11_StatusBody
INVARIANT C11_ViaSubresource
INVARIANT C11_SkipEqual
INVARIANT C11_RetryFresh
INVARIANT C11_UidGuard
INVARIANT C11_Written
INVARIANT C12_NoPanic
INVARIANT C12_ErrorRequeues
INVARIANT C12_429After
INVARIANT C12_OthersProceed
INVARIANT C12_Recovers
INVARIANT C13_NoPanic
INVARIANT X01_QueueDiscipline
INVARIANT X02_ResyncAfter
INVARIANT X03_NonRollingAtOnce
INVARIANT C13_RejectedNoWrites
INVARIANT C13_HookErrNoWrites
INVARIANT C16_OnlyNamedKeys
INVARIANT C16_StatusRule
INVARIANT C16_FinalizerOnly
INVARIANT C16_SpecUntouched
INVARIANT C16_NoOpNoRequest
INVARIANT C16_Selected
INVARIANT C16_Applied
INVARIANT C16_AttachmentsOwnedMarked
INVARIANT C17_CacheFrozen
INVARIANT C17_HookSeesDelivered
INVARIANT C07_OneMove
INVARIANT C07_LatestAsIs
INVARIANT C07_HookOrder
INVARIANT C07_Gate
INVARIANT C07_OldStay
INVARIANT C07_NonRevNow
INVARIANT C07_Cond
INVARIANT C08_NoNeedlessWait
INVARIANT C08_Done
INVARIANT C09_RevisionsFirst
INVARIANT C09_OneClaim
INVARIANT C09_NotAhead
INVARIANT C09_RecordedFirst
INVARIANT Vacuity
