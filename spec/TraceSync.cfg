SPECIFICATION Spec
CHECK_DEADLOCK FALSE
POSTCONDITION TraceAccepted
INVARIANT Axioms
INVARIANT C02_WriteSafe
INVARIANT C02_WriteSafeObserved
INVARIANT C02_DeleteUidPrecond
INVARIANT C02_BornOwned
INVARIANT C04_AdoptOnlyIf
INVARIANT C04_ReleaseShape
INVARIANT C04_OthersKept
INVARIANT C04_OneController
INVARIANT C04_DyingParentPassive
INVARIANT C04_LabelGate
INVARIANT C04_GeneratedLabel
INVARIANT C17_CacheFrozen
