------------------------------- MODULE Own -------------------------------
(* Ownership model: the claim + manage + status part of a composite sync at API-request  *)
(* granularity (pkg/controller/composite/controller.go claimChildren, the ControllerRef *)
(* manager, AtomicUpdate, common.ManageChildren, updateParentStatus), one or two        *)
(* controllers whose parents' selectors overlap, an environment that deletes, recreates,*)
(* re-owns and relabels children and deletes/replaces parents, and informer caches that *)
(* lag behind the store.                                                                *)
(*                                                                                     *)
(* Used three ways:                                                                     *)
(*  1. MC_Own*.cfg   exhaustive check of the C02 / C04 invariants on the model (full    *)
(*                   interleaving);                                                     *)
(*  2. Beh_Own*.cfg  the same model carrying a history variable, with partial-order     *)
(*                   reduction; every maximal behaviour is printed as a replayable      *)
(*                   scenario (S->I conformance);                                        *)
(*  3. the request predictions in the printed scenarios are compared with what the real *)
(*     code did (model drift).                                                          *)
(* Pure local computation is folded into the preceding request step (operator Adv): one *)
(* action = one REST request, as the implementation's linearization points.             *)
EXTENDS Integers, Sequences, FiniteSets, TLC, Json

CONSTANTS KidSeq,      \* child name slots in canonical order, e.g. <<"a","b">>
          Actors,      \* {"A"} or {"A","B"}; A syncs parent "p", B syncs parent "q"
          EnvBudget,   \* number of environment steps
          Method,      \* "InPlace" | "Recreate" | "OnDelete"
          Recheck,     \* TRUE = code as written (CanAdopt does a live GET); FALSE = mutant
          Beh,         \* TRUE = carry the history, reduce interleavings, emit scenarios
          InitSet,     \* "full" | "small" | "race"
          DesiredSets  \* set of desired-children sets explored per actor

Kids    == { KidSeq[i] : i \in DOMAIN KidSeq }
Pos(k)  == CHOOSE i \in DOMAIN KidSeq : KidSeq[i] = k
MinOf(S) == CHOOSE k \in S : \A j \in S : Pos(k) <= Pos(j)
ParOf   == [a \in {"A", "B"} |-> IF a = "A" THEN "p" ELSE "q"]
PUid0   == [p \in {"p", "q"} |-> IF p = "p" THEN 101 ELSE 102]
Foreign == 900
MatchP(p, lab) == IF p = "p" THEN lab \in {"x", "xy"} ELSE lab \in {"y", "xy"}
DesLab(p) == IF p = "p" THEN "x" ELSE "y"
\* labels after a 3-way merge by parent p: labels recorded as last-applied by the OTHER parent are
\* removed (they are in last-applied and not desired), p's own label is (re)added
DropLab(lab, p) == IF p = "q" THEN (IF lab = "xy" THEN "x" ELSE IF lab = "y" THEN "none" ELSE lab)
                   ELSE (IF lab = "xy" THEN "y" ELSE IF lab = "x" THEN "none" ELSE lab)
AddLab(lab, p)  == IF p = "p" THEN (IF lab = "y" THEN "xy" ELSE IF lab = "none" THEN "x" ELSE lab)
                   ELSE (IF lab = "x" THEN "xy" ELSE IF lab = "none" THEN "y" ELSE lab)
NewLab(o, p) == AddLab(IF o.la = 101 /\ p = "q" THEN DropLab(o.lab, "p")
                       ELSE IF o.la = 102 /\ p = "p" THEN DropLab(o.lab, "q") ELSE o.lab, p)

NoKid == [live |-> FALSE, uid |-> 0, rv |-> 0, ctrl |-> 0, extra |-> FALSE, lab |-> "none", deleting |-> FALSE, v |-> "v1", la |-> 0]
NoPar == [live |-> FALSE, uid |-> 0, deleting |-> FALSE, rv |-> 0, st |-> FALSE]

VARIABLES store, par, cache, pcache, uidc, rvc, pc, loc, budget, des, viol, init0, hist
vars == <<store, par, cache, pcache, uidc, rvc, pc, loc, budget, des, viol, init0, hist>>

Loc0 == [obs |-> [k \in Kids |-> NoKid], me |-> NoPar, todo |-> {}, mine |-> {}, cur |-> NoKid, curp |-> NoPar, k |-> "",
         rechecked |-> FALSE, canAdopt |-> FALSE, err |-> FALSE, dels |-> {}, ups |-> {}, merr |-> FALSE]

\* la = uid of the parent whose desired state the last-applied annotation records (0 = none)
Kid(c, x, lb, d, v) == [live |-> TRUE, uid |-> 0, rv |-> 1, ctrl |-> c, extra |-> x, lab |-> lb, deleting |-> d, v |-> v, la |-> IF c \in {101, 102} THEN c ELSE 0]
Arche ==
  CASE InitSet = "full"  -> {NoKid, Kid(101, FALSE, "x", FALSE, "v1"), Kid(101, FALSE, "x", FALSE, "old"),
                             Kid(101, FALSE, "none", FALSE, "v1"), Kid(0, FALSE, "x", FALSE, "v1"),
                             Kid(0, FALSE, "x", TRUE, "v1"), Kid(0, FALSE, "none", FALSE, "v1"),
                             Kid(Foreign, FALSE, "x", FALSE, "v1"), Kid(101, TRUE, "x", FALSE, "old"),
                             Kid(0, TRUE, "x", FALSE, "old")}
    [] InitSet = "small" -> {NoKid, Kid(101, FALSE, "x", FALSE, "old"), Kid(0, FALSE, "x", FALSE, "v1"),
                             Kid(Foreign, FALSE, "x", FALSE, "v1"), Kid(101, TRUE, "none", FALSE, "v1"),
                             Kid(0, FALSE, "x", TRUE, "v1")}
    [] InitSet = "race"  -> {NoKid, Kid(0, FALSE, "xy", FALSE, "v1"), Kid(101, FALSE, "xy", FALSE, "old"),
                             Kid(102, TRUE, "xy", FALSE, "v1")}

Init ==
  /\ \E f \in [Kids -> Arche] : store = [k \in Kids |-> IF f[k].live THEN [f[k] EXCEPT !.uid = Pos(k)] ELSE NoKid]
  /\ par = [p \in {"p", "q"} |-> [live |-> TRUE, uid |-> PUid0[p], deleting |-> FALSE, rv |-> 1, st |-> FALSE]]
  /\ cache = store /\ pcache = par
  /\ uidc = 10 /\ rvc = 1
  /\ pc = [a \in Actors |-> "idle"] /\ loc = [a \in Actors |-> Loc0]
  /\ budget = EnvBudget
  /\ des \in [Actors -> DesiredSets]
  /\ viol = {}
  /\ init0 = store
  /\ hist = <<>>

H(e) == IF Beh THEN Append(hist, e) ELSE hist

\* ---------------------------------------------------------------------------------------
\* local computation between two requests (ClaimObject decision table, hook, diffing)
\* ---------------------------------------------------------------------------------------
Me(a) == loc[a].me.uid
\* state reached from the claim loop: returns [pc, loc]
RECURSIVE AdvClaim(_, _)
AdvClaim(a, l) ==
  IF l.todo = {} THEN
     IF l.err THEN [pc |-> "done", loc |-> l]                                 \* claim error aborts the sync
     ELSE \* hook answers des[a]; compute delete and upsert work lists
          \* (a parent pending deletion without finalize hook has no child touched: C10)
          [pc |-> "mdel", loc |-> [l EXCEPT !.dels = IF l.me.deleting THEN {} ELSE { k \in l.mine : k \notin des[a] /\ ~l.obs[k].deleting },
                                            !.ups  = IF l.me.deleting THEN {} ELSE des[a]]]
  ELSE LET k == MinOf(l.todo)  o == l.obs[k]  p == ParOf[a]
           l1 == [l EXCEPT !.todo = @ \ {k}, !.k = k] IN
       IF o.ctrl # 0 THEN
          IF o.ctrl # l.me.uid THEN AdvClaim(a, l1)                           \* owned by someone else: ignore
          ELSE IF MatchP(p, o.lab) THEN AdvClaim(a, [l1 EXCEPT !.mine = @ \cup {k}])
          ELSE IF l.me.deleting THEN AdvClaim(a, l1)
          ELSE [pc |-> "relGet", loc |-> l1]
       ELSE IF l.me.deleting \/ ~MatchP(p, o.lab) \/ o.deleting THEN AdvClaim(a, l1)
       ELSE IF Recheck /\ ~l.rechecked THEN [pc |-> "recheck", loc |-> l1]
       ELSE IF Recheck /\ ~l.canAdopt THEN AdvClaim(a, [l1 EXCEPT !.err = TRUE])
       ELSE [pc |-> "adoptGet", loc |-> l1]
RECURSIVE AdvManage(_, _, _)
AdvManage(a, phase, l) ==
  IF phase = "mdel" THEN
     IF l.dels = {} THEN AdvManage(a, "mup", l)
     ELSE [pc |-> "mdelReq", loc |-> [l EXCEPT !.k = MinOf(l.dels), !.dels = @ \ {MinOf(l.dels)}]]
  ELSE IF l.ups = {} THEN [pc |-> "stGet", loc |-> l]
  ELSE LET k == MinOf(l.ups)  o == l.obs[k]  l1 == [l EXCEPT !.k = k, !.ups = @ \ {k}] IN
       IF k \in l.mine THEN
          IF (o.v = "v1" /\ o.la = l.me.uid) \/ o.deleting \/ Method = "OnDelete" THEN AdvManage(a, "mup", l1)
          ELSE IF Method = "InPlace" THEN [pc |-> "mupPut", loc |-> l1]
          ELSE [pc |-> "mupDel", loc |-> l1]
       ELSE [pc |-> "mupCreate", loc |-> l1]
Adv(a, st) == IF st.pc = "claim" THEN LET r == AdvClaim(a, st.loc) IN
                                       IF r.pc = "mdel" THEN AdvManage(a, "mdel", r.loc) ELSE r
              ELSE IF st.pc \in {"mdel", "mup"} THEN AdvManage(a, st.pc, st.loc)
              ELSE st
Go(a, newpc, newloc) == LET r == Adv(a, [pc |-> newpc, loc |-> newloc]) IN
                        /\ pc' = [pc EXCEPT ![a] = r.pc] /\ loc' = [loc EXCEPT ![a] = r.loc]

\* target of the actor's pending request (for the partial-order reduction)
OnParent(a) == pc[a] \in {"recheck", "stGet", "stPut"}
OnKid(a, k) == pc[a] \in {"adoptGet", "adoptPut", "relGet", "relPut", "mdelReq", "mupPut", "mupDel", "mupCreate"} /\ loc[a].k = k
Running(a)  == pc[a] \notin {"idle", "done"}

\* ---------------------------------------------------------------------------------------
\* API server (E1-E3)
\* ---------------------------------------------------------------------------------------
PutCode(k, read, twoCtrl) == IF ~store[k].live THEN 404
                             ELSE IF store[k].uid # read.uid \/ store[k].rv # read.rv THEN 409
                             ELSE IF twoCtrl THEN 422 ELSE 200
DelCode(k, uid) == IF ~store[k].live THEN 404 ELSE IF store[k].uid # uid THEN 409 ELSE 200
Bump(o) == [o EXCEPT !.rv = rvc + 1]
Quiet == UNCHANGED <<store, par, cache, pcache, uidc, rvc, budget, des, viol, init0>>
Req(a, verb, kind, name, code) == [t |-> "req", a |-> a, verb |-> verb, kind |-> kind, name |-> name, code |-> code]

\* ---------------------------------------------------------------------------------------
\* controller actions (one per request)
\* ---------------------------------------------------------------------------------------
Start(a) ==
  /\ pc[a] = "idle"
  /\ LET me == pcache[ParOf[a]] IN
     IF ~me.live THEN pc' = [pc EXCEPT ![a] = "done"] /\ UNCHANGED loc
     ELSE Go(a, "claim", [Loc0 EXCEPT !.obs = cache, !.me = me, !.todo = { k \in Kids : cache[k].live }])
  /\ hist' = H([t |-> "sync", a |-> a])
  /\ Quiet

RecheckGet(a) ==
  /\ pc[a] = "recheck" /\ Quiet
  /\ LET live == par[ParOf[a]]
         ok == live.live /\ live.uid = Me(a) /\ ~live.deleting IN
     /\ hist' = H(Req(a, "get", "Parent", ParOf[a], IF live.live THEN 200 ELSE 404))
     /\ IF ok THEN Go(a, "adoptGet", [loc[a] EXCEPT !.rechecked = TRUE, !.canAdopt = TRUE])
        ELSE Go(a, "claim", [loc[a] EXCEPT !.rechecked = TRUE, !.canAdopt = FALSE, !.err = TRUE])

AdoptGet(a) ==
  /\ pc[a] = "adoptGet" /\ Quiet
  /\ LET k == loc[a].k  cur == store[k] IN
     /\ hist' = H(Req(a, "get", "Thing", k, IF cur.live THEN 200 ELSE 404))
     /\ IF ~cur.live \/ cur.uid # loc[a].obs[k].uid THEN Go(a, "claim", loc[a])       \* NotFound: ignored
        ELSE Go(a, "adoptPut", [loc[a] EXCEPT !.cur = cur])

AdoptPut(a) ==
  /\ pc[a] = "adoptPut"
  /\ LET k == loc[a].k  read == loc[a].cur
         twoCtrl == read.ctrl # 0 /\ read.ctrl # Me(a)       \* addOwnerReference appends a 2nd controller
         code == PutCode(k, read, twoCtrl)  pre == store[k] IN
     /\ hist' = H(Req(a, "update", "Thing", k, code))
     /\ IF code = 200
          THEN /\ store' = [store EXCEPT ![k] = Bump([@ EXCEPT !.ctrl = Me(a)])] /\ rvc' = rvc + 1
               /\ viol' = viol \cup (IF pre.ctrl # 0 /\ pre.ctrl # Me(a) THEN {"C04_OneController"} ELSE {})
                               \cup (IF ~loc[a].rechecked THEN {"C04_AdoptOnlyIf_recheck"} ELSE {})
                               \cup (IF ~MatchP(ParOf[a], loc[a].obs[k].lab) \/ loc[a].obs[k].deleting \/ loc[a].obs[k].ctrl # 0
                                       THEN {"C04_AdoptOnlyIf_child"} ELSE {})
                               \cup (IF store'[k].extra # pre.extra THEN {"C04_OthersKept"} ELSE {})
                               \cup (IF ~MatchP(ParOf[a], pre.lab) THEN {"C02_AdoptStale(literal)"} ELSE {})
               /\ Go(a, "claim", [loc[a] EXCEPT !.mine = @ \cup {k}])
          ELSE /\ UNCHANGED <<store, rvc, viol>>
               /\ IF code = 409 THEN Go(a, "adoptGet", loc[a])
                  ELSE IF code = 404 THEN Go(a, "claim", loc[a])
                  ELSE Go(a, "claim", [loc[a] EXCEPT !.err = TRUE])                       \* 422: error, requeue
     /\ UNCHANGED <<par, cache, pcache, uidc, budget, des, init0>>

RelGet(a) ==
  /\ pc[a] = "relGet" /\ Quiet
  /\ LET k == loc[a].k  cur == store[k] IN
     /\ hist' = H(Req(a, "get", "Thing", k, IF cur.live THEN 200 ELSE 404))
     /\ IF ~cur.live \/ cur.uid # loc[a].obs[k].uid THEN Go(a, "claim", loc[a])
        ELSE Go(a, "relPut", [loc[a] EXCEPT !.cur = cur])

RelPut(a) ==
  /\ pc[a] = "relPut"
  /\ LET k == loc[a].k  read == loc[a].cur  code == PutCode(k, read, FALSE)  pre == store[k] IN
     /\ hist' = H(Req(a, "update", "Thing", k, code))
     /\ IF code = 200
          THEN /\ store' = [store EXCEPT ![k] = Bump([@ EXCEPT !.ctrl = IF read.ctrl = Me(a) THEN 0 ELSE read.ctrl])]
               /\ rvc' = rvc + 1
               /\ viol' = viol \cup (IF store'[k].extra # pre.extra \/ (pre.ctrl # Me(a) /\ store'[k].ctrl # pre.ctrl)
                                       THEN {"C04_OthersKept"} ELSE {})
               /\ Go(a, "claim", loc[a])
          ELSE /\ UNCHANGED <<store, rvc, viol>>
               /\ IF code = 409 THEN Go(a, "relGet", loc[a]) ELSE Go(a, "claim", loc[a])
     /\ UNCHANGED <<par, cache, pcache, uidc, budget, des, init0>>

\* delete with UID precondition (delete phase, or Recreate strategy)
DoDelete(a, next) ==
  LET k == loc[a].k  seen == loc[a].obs[k]  code == DelCode(k, seen.uid)  pre == store[k] IN
  /\ hist' = H(Req(a, "delete", "Thing", k, code))
  /\ IF code = 200
       THEN /\ store' = [store EXCEPT ![k] = IF pre.deleting THEN pre ELSE NoKid]      \* a finalizer holds a terminating child
            /\ viol' = viol \cup (IF pre.ctrl # Me(a) /\ ~pre.deleting THEN {"C02_WriteSafe(literal)"} ELSE {})
                            \cup (IF seen.ctrl # Me(a) /\ ~(k \in loc[a].mine) THEN {"C02_WriteSafeObserved"} ELSE {})
       ELSE UNCHANGED <<store, viol>>
  /\ Go(a, next, [loc[a] EXCEPT !.merr = @ \/ code = 409])
  /\ UNCHANGED <<par, cache, pcache, uidc, rvc, budget, des, init0>>
MdelReq(a) == pc[a] = "mdelReq" /\ DoDelete(a, "mdel")
MupDel(a)  == pc[a] = "mupDel" /\ DoDelete(a, "mup")

MupPut(a) ==
  /\ pc[a] = "mupPut"
  /\ LET k == loc[a].k  seen == loc[a].obs[k]  code == PutCode(k, seen, FALSE)  pre == store[k] IN
     /\ hist' = H(Req(a, "update", "Thing", k, code))
     /\ IF code = 200
          THEN /\ store' = [store EXCEPT ![k] = Bump([@ EXCEPT !.v = "v1", !.la = Me(a), !.lab = NewLab(seen, ParOf[a])])] /\ rvc' = rvc + 1
               /\ viol' = viol \cup (IF pre.ctrl # Me(a) THEN {"C02_WriteSafe(literal)"} ELSE {})
          ELSE UNCHANGED <<store, rvc, viol>>
     /\ Go(a, "mup", loc[a])
  /\ UNCHANGED <<par, cache, pcache, uidc, budget, des, init0>>

MupCreate(a) ==
  /\ pc[a] = "mupCreate"
  /\ LET k == loc[a].k  code == IF store[k].live THEN 409 ELSE 201 IN
     /\ hist' = H(Req(a, "create", "Thing", k, code))
     /\ IF code = 201
          THEN /\ store' = [store EXCEPT ![k] = [live |-> TRUE, uid |-> uidc, rv |-> rvc + 1, ctrl |-> Me(a), extra |-> FALSE,
                                                 lab |-> DesLab(ParOf[a]), deleting |-> FALSE, v |-> "v1", la |-> Me(a)]]
               /\ uidc' = uidc + 1 /\ rvc' = rvc + 1
          ELSE UNCHANGED <<store, uidc, rvc>>
     /\ Go(a, "mup", loc[a])
  /\ UNCHANGED <<par, cache, pcache, budget, des, viol, init0>>

StGet(a) ==
  /\ pc[a] = "stGet" /\ Quiet
  /\ LET p == ParOf[a]  cur == par[p] IN
     /\ hist' = H(Req(a, "get", "Parent", p, IF cur.live THEN 200 ELSE 404))
     /\ IF ~cur.live \/ cur.uid # Me(a) \/ cur.st THEN pc' = [pc EXCEPT ![a] = "done"] /\ UNCHANGED loc
        ELSE pc' = [pc EXCEPT ![a] = "stPut"] /\ loc' = [loc EXCEPT ![a].curp = cur]
StPut(a) ==
  /\ pc[a] = "stPut"
  /\ LET p == ParOf[a]  read == loc[a].curp  cur == par[p]
         code == IF ~cur.live THEN 404 ELSE IF cur.uid # read.uid \/ cur.rv # read.rv THEN 409 ELSE 200 IN
     /\ hist' = H(Req(a, "updateStatus", "Parent", p, code))
     /\ IF code = 200 THEN par' = [par EXCEPT ![p].st = TRUE, ![p].rv = rvc + 1] /\ rvc' = rvc + 1
        ELSE UNCHANGED <<par, rvc>>
     /\ pc' = [pc EXCEPT ![a] = IF code = 409 THEN "stGet" ELSE "done"] /\ UNCHANGED loc
  /\ UNCHANGED <<store, cache, pcache, uidc, budget, des, viol, init0>>

Ctl(a) == \/ Start(a) \/ RecheckGet(a) \/ AdoptGet(a) \/ AdoptPut(a) \/ RelGet(a) \/ RelPut(a)
          \/ MdelReq(a) \/ MupDel(a) \/ MupPut(a) \/ MupCreate(a) \/ StGet(a) \/ StPut(a)

\* ---------------------------------------------------------------------------------------
\* environment
\* ---------------------------------------------------------------------------------------
AllIdle == \A a \in Actors : pc[a] = "idle"
\* reduction (Beh only): an environment step on an object commutes with every request that
\* does not touch it, so it is explored only right before a request on that object, or
\* before any sync has started (cache staleness)
\* Two actors (Beh only): a request on the actor's own parent, and the cache read that starts
\* a sync, are independent of everything the other actor does, so they are taken eagerly
\* (ample set = that one actor); only requests on children are interleaved both ways.
IdleSet  == { a \in Actors : pc[a] = "idle" }
ParPend  == { a \in Actors : Running(a) /\ OnParent(a) }
FirstOf(S) == IF "A" \in S THEN "A" ELSE "B"
Ample == IF ~Beh THEN Actors
         ELSE IF IdleSet # {} THEN {FirstOf(IdleSet)}
         ELSE IF ParPend # {} THEN {FirstOf(ParPend)}
         ELSE Actors
KidEnabled(k) == ~Beh \/ AllIdle \/ (IdleSet = {} /\ ParPend = {} /\ \E a \in Actors : OnKid(a, k))
ParEnabled(p) == ~Beh \/ AllIdle \/ (IdleSet = {} /\ \E a \in Ample : ParOf[a] = p /\ OnParent(a))
EnvKid(k, op, o) ==
  /\ store' = [store EXCEPT ![k] = o]
  /\ hist' = H([t |-> "env", op |-> op, kind |-> "Thing", name |-> k, obj |-> o])
  /\ UNCHANGED <<par, cache, pcache, pc, loc, des, viol, init0>>
EnvDeleteKid(k)   == store[k].live /\ ~store[k].deleting /\ EnvKid(k, "delete", NoKid) /\ UNCHANGED <<uidc, rvc>>
\* (the look-alike that replaces a child under its name may or may not carry the labels the selector wants)
EnvRecreateKid(k, c, lb) ==
  /\ EnvKid(k, IF store[k].live THEN "recreate" ELSE "create",
            [live |-> TRUE, uid |-> uidc, rv |-> rvc + 1, ctrl |-> c, extra |-> FALSE, lab |-> lb, deleting |-> FALSE, v |-> "v1", la |-> 0])
  /\ uidc' = uidc + 1 /\ rvc' = rvc + 1
EnvSetCtrl(k, c)  == /\ store[k].live /\ store[k].ctrl # c
                     /\ EnvKid(k, "setowners", Bump([store[k] EXCEPT !.ctrl = c])) /\ rvc' = rvc + 1 /\ UNCHANGED uidc
EnvRelabel(k, lb) == /\ store[k].live /\ store[k].lab # lb
                     /\ EnvKid(k, "relabel", Bump([store[k] EXCEPT !.lab = lb])) /\ rvc' = rvc + 1 /\ UNCHANGED uidc
EnvPar(p, op, o) ==
  /\ par' = [par EXCEPT ![p] = o]
  /\ hist' = H([t |-> "env", op |-> op, kind |-> "Parent", name |-> p, obj |-> o])
  /\ UNCHANGED <<store, cache, pcache, pc, loc, des, viol, init0>>
\* somebody deletes the child while a finalizer holds it: it stays, pending deletion
EnvTerminate(k)   == /\ store[k].live /\ ~store[k].deleting
                     /\ EnvKid(k, "terminate", Bump([store[k] EXCEPT !.deleting = TRUE])) /\ rvc' = rvc + 1 /\ UNCHANGED uidc
EnvParentDeleting(p) == par[p].live /\ ~par[p].deleting
                        /\ EnvPar(p, "pdelete", [par[p] EXCEPT !.deleting = TRUE, !.rv = rvc + 1]) /\ rvc' = rvc + 1 /\ UNCHANGED uidc
EnvParentReplace(p)  == par[p].live
                        /\ EnvPar(p, "preplace", [live |-> TRUE, uid |-> uidc, deleting |-> FALSE, rv |-> rvc + 1, st |-> FALSE])
                        /\ uidc' = uidc + 1 /\ rvc' = rvc + 1
Env ==
  /\ budget > 0 /\ budget' = budget - 1
  /\ \E a \in Actors : pc[a] # "done"
  /\ \/ \E k \in Kids : KidEnabled(k) /\ ( \/ EnvDeleteKid(k)
                                           \/ \E c \in {0, Foreign}, lb \in {"xy", "none"} : EnvRecreateKid(k, c, lb)
                                           \/ \E c \in {0, Foreign} : EnvSetCtrl(k, c)
                                           \/ \E lb \in {"none", "xy"} : EnvRelabel(k, lb)
                                           \/ EnvTerminate(k) )
     \/ \E p \in { ParOf[a] : a \in Actors } : ParEnabled(p) /\ (EnvParentDeleting(p) \/ EnvParentReplace(p))
Deliver ==
  /\ (cache # store \/ pcache # par) /\ \E a \in Actors : pc[a] = "idle"
  /\ (Beh => AllIdle)
  /\ cache' = store /\ pcache' = par
  /\ hist' = H([t |-> "deliver"])
  /\ UNCHANGED <<store, par, uidc, rvc, pc, loc, budget, des, viol, init0>>

\* Beh: canonical actor order for commuting requests is NOT imposed (two actors' requests
\* on the same object are exactly what we want to interleave); a running actor simply
\* proceeds.
Next == (\E a \in Ample : Ctl(a)) \/ Env \/ Deliver
Spec == Init /\ [][Next]_vars

Terminal == \A a \in Actors : pc[a] = "done"

\* ---------------------------------------------------------------------------------------
\* properties (design level)
\* ---------------------------------------------------------------------------------------
C04_OneController == "C04_OneController" \notin viol
C04_OthersKept    == "C04_OthersKept" \notin viol
C04_AdoptChild    == "C04_AdoptOnlyIf_child" \notin viol
C04_AdoptRecheck  == "C04_AdoptOnlyIf_recheck" \notin viol
C02_Observed      == "C02_WriteSafeObserved" \notin viol
C02_Literal       == "C02_WriteSafe(literal)" \notin viol
TypeOK == /\ \A k \in Kids : store[k].live => store[k].uid > 0
          /\ budget \in 0..EnvBudget

\* ---------------------------------------------------------------------------------------
\* scenario emission (Beh)
\* ---------------------------------------------------------------------------------------
Emit == (Beh /\ Terminal) =>
          PrintT("SCN|" \o ToJson([init |-> init0, des |-> des, hist |-> hist, method |-> Method,
                                    actors |-> Actors, final |-> store, viol |-> viol]))
=============================================================================
