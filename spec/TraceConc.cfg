SPECIFICATION Spec
CHECK_DEADLOCK FALSE
POSTCONDITION TraceAccepted
INVARIANT C17_NoRace
INVARIANT C17_Serial
