SPECIFICATION Spec
CONSTANTS
  NN = 1
  Kind = "composite"
  Pal <- MCPal
  Allowed <- Al_t1
  MaxLen = 5
  Fixed <- FxNone
  Mut = "none"
  Beh = TRUE
  MxAll = FALSE
CHECK_DEADLOCK FALSE
INVARIANTS EmitPal EmitVar Emit
