---------------------------- MODULE Customize ----------------------------
(* Related objects of the customize hook (C15; also the "related" clause of C14).        *)
(*                                                                                     *)
(* Pure operators only (no constants, no variables), so that the bounded models          *)
(* (MC_Customize, MC_Triggers) and the trace specifications (TraceCustomize,             *)
(* TraceTriggers) evaluate the SAME definitions.                                         *)
(*                                                                                     *)
(* Two layers, kept apart on purpose:                                                   *)
(*   statement level  RuleErr / HasErr / RuleSelects / Selected   -- what C15 SAYS       *)
(*   code level       CodeErr / CodeSelected (GetRelatedObjects + Convert)               *)
(*                    RuleWakes / Wakes      (matchesRelatedRule, findRelatedParents)    *)
(* The design lemmas (checked by TLC over all bounded rule sets, MC_Customize) connect   *)
(* them:  ~HasErr => CodeSelected = Selected,  HasErr <=> CodeErr,                        *)
(*        o \in Selected => Wakes.                                                       *)
(*                                                                                     *)
(* A rule is a record                                                                    *)
(*   [av, res, kind, hasSel, sel : [ml, me], ns, names]                                   *)
(* exactly as the harness digests the customize hook's answer into the trace             *)
(* (hasSel = the labelSelector key is present and not null, also when it is empty).      *)
(* An object is the projected record of Objects.tla (only live, kind, av, ns, name,      *)
(* labels are read here).  p is the parent, pNs = "the parent resource is namespaced".   *)
EXTENDS Objects

\* ---- typing of a rule (determineSelectionType) ------------------------------------------
HasNsOrNames(r) == r.ns # "" \/ r.names # <<>>
RuleType(r) == IF r.hasSel /\ HasNsOrNames(r) THEN "invalid"
               ELSE IF HasNsOrNames(r) THEN "nsnames" ELSE "labels"

\* =======================================================================================
\* statement level
\* =======================================================================================
\* "a rule that combines both selection styles, or names a foreign namespace for a
\*  namespaced parent, is an error rather than a silent choice"
RuleMixed(r)            == r.hasSel /\ HasNsOrNames(r)
RuleForeignNs(r, p, pNs) == pNs /\ ~r.hasSel /\ r.ns # "" /\ r.ns # p.ns
RuleErr(r, p, pNs)      == RuleMixed(r) \/ RuleForeignNs(r, p, pNs)
HasErr(rules, p, pNs)   == \E i \in DOMAIN rules : RuleErr(rules[i], p, pNs)

OfRule(r, o) == o.live /\ o.kind = r.kind /\ o.av = r.av
NamesOK(r, o) == r.names = <<>> \/ o.name \in Range(r.names)
\* "selected by the rules (by label selector, or by namespace and names)"
RuleSelects(r, o) ==
  /\ OfRule(r, o)
  /\ IF r.hasSel THEN ~HasNsOrNames(r) /\ Matches(r.sel, o.labels)
     ELSE (r.ns = "" \/ o.ns = r.ns) /\ NamesOK(r, o)       \* no selector, no namespace, no names = everything
\* "restricted to the parent's own namespace when the parent is namespaced"
Confined(p, pNs, o) == pNs => o.ns = p.ns
Selected(rules, p, pNs, objs) ==
  { o \in objs : Confined(p, pNs, o) /\ \E i \in DOMAIN rules : RuleSelects(rules[i], o) }

\* =======================================================================================
\* code level: GetRelatedObjects + UniformObjectMap.Convert
\* =======================================================================================
CodeRuleErr(r, p, pNs) ==
  \/ RuleType(r) = "invalid"
  \/ (RuleType(r) = "nsnames" /\ pNs /\ r.ns # "" /\ p.ns # r.ns)
CodeErr(rules, p, pNs) == \E i \in DOMAIN rules : CodeRuleErr(rules[i], p, pNs)
\* what the lister hands back for one rule
CodeList(r, p, pNs, objs) ==
  CASE RuleType(r) = "labels" ->
         \* informer.Lister().Namespace(parentNamespace).List(selector) / Lister().List(selector)
         { o \in objs : OfRule(r, o) /\ (pNs => o.ns = p.ns) /\ (~r.hasSel \/ Matches(r.sel, o.labels)) }
    [] RuleType(r) = "nsnames" ->
         \* listObjects(Everything, rule.Namespace) then the names filter
         { o \in objs : OfRule(r, o) /\ (r.ns # "" => o.ns = r.ns) /\ NamesOK(r, o) }
    [] OTHER -> {}
\* Convert: a namespaced parent keeps only objects of its own namespace (decided on the
\* parent OBJECT's namespace, not on the resource's scope)
CodeConvert(p, objs) == IF p.ns = "" THEN objs ELSE { o \in objs : o.ns = p.ns }
CodeSelected(rules, p, pNs, objs) ==
  CodeConvert(p, UNION { CodeList(rules[i], p, pNs, objs) : i \in DOMAIN rules })

\* =======================================================================================
\* code level: matchesRelatedRule as used by findRelatedParents (errors are skipped)
\* =======================================================================================
RuleWakes(r, p, pNs, o) ==
  /\ o.av = r.av /\ o.kind = r.kind
  /\ CASE RuleType(r) = "labels"  -> ~r.hasSel \/ Matches(r.sel, o.labels)
       [] RuleType(r) = "nsnames" ->
            IF pNs THEN ~(r.ns # "" /\ p.ns # r.ns) /\ p.ns = o.ns /\ NamesOK(r, o)
                   ELSE ~(r.ns # "" /\ o.ns # r.ns) /\ NamesOK(r, o)
       [] OTHER -> FALSE
Wakes(rules, p, pNs, o) == \E i \in DOMAIN rules : RuleWakes(rules[i], p, pNs, o)

\* ---- the customize cache ---------------------------------------------------------------
\* key of the response cache as written: (parent UID, parent generation)
CacheKey(p) == <<p.uid, p.gen>>
=============================================================================
