\* documents the known finding: under the literal reading of C02 the UID-only delete
\* precondition admits a delete of an object the parent no longer controls (expected: violated)
SPECIFICATION Spec
CONSTANTS
  KidSeq <- Kids1
  Actors <- ActorsA
  EnvBudget = 1
  Method = "InPlace"
  Recheck = TRUE
  Beh = FALSE
  InitSet = "small"
  DesiredSets <- AllDesired1
INVARIANTS C02_Literal
CHECK_DEADLOCK FALSE
