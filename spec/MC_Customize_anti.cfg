SPECIFICATION Spec
CONSTANTS
  Pairs = "none"
  Beh = FALSE
INVARIANTS L_WakesOnlySelected
CHECK_DEADLOCK FALSE
