SPECIFICATION Spec
CONSTANTS
  NN = 2
  Kind = "composite"
  Pal <- MCPal
  Allowed <- Al_full
  MaxLen = 5
  Fixed <- FxNoDup
  Mut = "none"
  Beh = FALSE
  MxAll = FALSE
CHECK_DEADLOCK FALSE
INVARIANTS Inv_QuietAfterStop
