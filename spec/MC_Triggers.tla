---------------------------- MODULE MC_Triggers ----------------------------
(* Bounded world for C14: two parent slots, one child slot, one related-object slot, a    *)
(* controller configuration, and every kind of event on every role of object.            *)
(*                                                                                     *)
(*   design level : for every reachable (event, caches, configuration) the handlers AS    *)
(*                  WRITTEN (Triggers!Code) are compared with the statement               *)
(*                  (Triggers!Must / MustNot): D_Complete, D_Sound, D_KeyParses.  The two  *)
(*                  deviations of the code as written are named (Dev...) and exempted;     *)
(*                  the strict variants D_Strict* are violated exactly by them (Fixed =    *)
(*                  FALSE) and hold for the intended behaviour (Fixed = TRUE).             *)
(*   scenarios    : every behaviour (initial world + up to MaxEv events) is printed        *)
(*                  (SCN|json) and replayed on the real controllers; the verdict is        *)
(*                  computed by TraceTriggers from what the real code logged.              *)
EXTENDS Triggers, Json

CONSTANTS MaxEv,     \* events per behaviour
          Focus,     \* subset of {"parent", "child", "related"}
          Kinds,     \* subset of {"composite", "decorator"}
          Width,     \* "wide": every variation of the second parent / initial child / related object;
                     \* "core": a core of them; "narrow": the few needed for sequences of events
          Real,      \* real tombstones (watch gap + relist) are part of the alphabet
          Fixed,     \* model the intended enqueueParentObject instead of the code as written
          Beh

VARIABLES tc, par, ch, rel, rules, n, rvc, uidc, last, hist, w0, focus
vars == <<tc, par, ch, rel, rules, n, rvc, uidc, last, hist, w0, focus>>

FAll    == {"parent", "child", "related"}
FParent == {"parent"}
FChild  == {"child"}
FRel    == {"related"}
KBoth   == {"composite", "decorator"}

\* ---- objects -----------------------------------------------------------------------------------
NoSel == [ml |-> <<>>, me |-> <<>>]
Dead  == [live |-> FALSE, kind |-> "", av |-> "", ns |-> "", name |-> "", uid |-> "", rv |-> 0, gen |-> 0,
          labels |-> <<>>, ann |-> <<>>, owners |-> <<>>, fins |-> <<>>, deleting |-> FALSE, sel |-> NoSel, role |-> "-"]
PAV == "verif.example/v1"
FinName(kind) == IF kind = "composite" THEN "metacontroller.io/compositecontroller-cc" ELSE "metacontroller.io/decoratorcontroller-dc"
PName(i) == IF i = 1 THEN "p1" ELSE "p2"
\* roles of a parent: M matches the controller's selector, U does not, F does not but carries the finalizer
MkParent(cfg, i, role, selv, ns, uid, rv) ==
  [live |-> TRUE, kind |-> cfg.pkind, av |-> PAV, ns |-> ns, name |-> PName(i), uid |-> uid, rv |-> rv, gen |-> 1,
   labels |-> ("sel" :> (IF role = "M" THEN "on" ELSE "off")), ann |-> <<>>, owners |-> <<>>,
   fins |-> IF role = "F" THEN <<cfg.fin>> ELSE <<>>, deleting |-> FALSE,
   sel |-> [ml |-> ("app" :> selv), me |-> <<>>], role |-> role]
Ref(kind, av, name, uid, ctrl) == [uid |-> uid, kind |-> kind, name |-> name, av |-> av, ctrl |-> ctrl]

\* roles of the child; owner data refer to the CURRENT parents (a later re-creation of the parent
\* makes the reference stale by itself)
ChildRoles == {"ownP1", "ownP2", "orphanA", "orphanB", "orphanNone", "orphanUid", "foreign", "wrongUid", "wrongKind",
               "wrongGroup", "plainOwner"}
CoreChildRoles == {"ownP1", "orphanA", "orphanNone", "foreign", "wrongUid", "wrongKind"}
OtherKind(k) == IF k = "Parent" THEN "NoStatus" ELSE "Parent"
ChildLabels(role, ps) ==
  CASE role \in {"orphanB"} -> ("app" :> "b")
    [] role = "orphanNone" -> <<>>
    [] role = "orphanUid" -> ("controller-uid" :> ps[1].uid)
    [] OTHER -> ("app" :> "a")
ChildOwners(cfg, role, ps) ==
  CASE role = "ownP1"     -> <<Ref(cfg.pkind, PAV, "p1", ps[1].uid, TRUE)>>
    [] role = "ownP2"     -> <<Ref(cfg.pkind, PAV, "p2", ps[2].uid, TRUE)>>
    [] role = "foreign"   -> <<Ref("Deployment", "apps/v1", "d", "dep-1", TRUE)>>
    [] role = "wrongUid"  -> <<Ref(cfg.pkind, PAV, "p1", "stale-uid", TRUE)>>
    [] role = "wrongKind" -> <<Ref(OtherKind(cfg.pkind), PAV, "p1", ps[1].uid, TRUE)>>
    [] role = "wrongGroup" -> <<Ref(cfg.pkind, "other.example/v1", "p1", ps[1].uid, TRUE)>>
    [] role = "plainOwner" -> <<Ref(cfg.pkind, PAV, "p1", ps[1].uid, FALSE)>>
    [] OTHER -> <<>>
MkChild(cfg, role, ps, cfin, rv) ==
  [live |-> TRUE, kind |-> "Thing", av |-> PAV, ns |-> "ns1", name |-> "c", uid |-> "c-1", rv |-> rv, gen |-> 1,
   labels |-> ChildLabels(role, ps), ann |-> <<>>, owners |-> ChildOwners(cfg, role, ps),
   fins |-> IF cfin THEN <<"other.example/keep">> ELSE <<>>, deleting |-> FALSE, sel |-> NoSel, role |-> role]
RoleOK(role, ps) == (role = "ownP2" => ps[2].live) /\ (role \in (ChildRoles \ {"orphanA", "orphanB", "orphanNone", "foreign", "ownP2"}) => ps[1].live)

\* related object variants
RelVars == { [ns |-> ns, name |-> nm, lab |-> lb] : ns \in {"ns1", "ns2"}, nm \in {"ra", "rb"}, lb \in {"1", "2"} }
CoreRelVars == { v \in RelVars : v.name = "ra" }
MkRel(v, rv) ==
  [live |-> TRUE, kind |-> "ConfigMap", av |-> "v1", ns |-> v.ns, name |-> v.name, uid |-> "r-" \o v.ns \o "-" \o v.name, rv |-> rv, gen |-> 0,
   labels |-> ("r" :> v.lab), ann |-> <<>>, owners |-> <<>>, fins |-> <<>>, deleting |-> FALSE, sel |-> NoSel, role |-> "related"]
\* customize rules menu (what the hook returns, per parent)
RuleL1   == [av |-> "v1", res |-> "configmaps", kind |-> "ConfigMap", hasSel |-> TRUE, sel |-> [ml |-> ("r" :> "1"), me |-> <<>>], ns |-> "", names |-> <<>>]
RuleNA   == [av |-> "v1", res |-> "configmaps", kind |-> "ConfigMap", hasSel |-> FALSE, sel |-> NoSel, ns |-> "", names |-> <<"ra">>]
RuleNB   == [av |-> "v1", res |-> "configmaps", kind |-> "ConfigMap", hasSel |-> FALSE, sel |-> NoSel, ns |-> "", names |-> <<"rb">>]
RuleNS1  == [av |-> "v1", res |-> "configmaps", kind |-> "ConfigMap", hasSel |-> FALSE, sel |-> NoSel, ns |-> "ns1", names |-> <<>>]
RuleMenu == { [id |-> "L1", p1 |-> <<RuleL1>>, p2 |-> <<RuleL1>>], [id |-> "NA", p1 |-> <<RuleNA>>, p2 |-> <<RuleNB>>],
              [id |-> "NS1", p1 |-> <<RuleNS1>>, p2 |-> <<RuleL1>>], [id |-> "L1NA", p1 |-> <<RuleL1, RuleNA>>, p2 |-> <<>>] }

\* ---- configurations ----------------------------------------------------------------------------
MkCfg(kind, scope, genSel, ign, cust) ==
  [kind |-> kind, pkind |-> IF scope = "ns" THEN "Parent" ELSE "CParent", pav |-> PAV, pNs |-> scope = "ns",
   genSel |-> genSel, ignoreStatus |-> ign, fin |-> FinName(kind),
   csel |-> [ml |-> ("sel" :> "on"), me |-> <<>>], casel |-> NoSel,
   childKinds |-> <<"Thing">>, relKinds |-> IF cust THEN <<"ConfigMap">> ELSE <<>>, customize |-> cust]

P2Vars == { [role |-> r, selv |-> s, ns |-> ns] : r \in {"absent", "M", "U", "F"}, s \in {"a", "b"}, ns \in {"ns1", "ns2"} }
P2Default == [role |-> "M", selv |-> "a", ns |-> "ns1"]
P2Core == { P2Default, [role |-> "absent", selv |-> "a", ns |-> "ns1"], [role |-> "M", selv |-> "b", ns |-> "ns1"],
            [role |-> "M", selv |-> "a", ns |-> "ns2"], [role |-> "U", selv |-> "a", ns |-> "ns1"] }
P2Narrow == { P2Default, [role |-> "absent", selv |-> "a", ns |-> "ns1"] }
C0Of  == IF Width = "wide" THEN ChildRoles ELSE IF Width = "core" THEN CoreChildRoles ELSE {"ownP1", "orphanA"}
R0Of  == IF Width = "wide" THEN RelVars ELSE IF Width = "core" THEN CoreRelVars ELSE { v \in RelVars : v.name = "ra" /\ v.ns = "ns1" /\ v.lab = "1" }
RMOf  == IF Width = "narrow" THEN { m \in RuleMenu : m.id \in {"L1", "NA"} } ELSE RuleMenu
P2Of(f, scope) ==
  LET S == IF f = "parent" THEN P2Narrow ELSE IF Width = "wide" THEN P2Vars ELSE IF Width = "core" THEN P2Core ELSE P2Narrow
  IN { v \in S : (scope = "cluster" => v.ns = "ns1") /\ (v.role = "absent" => v.selv = "a" /\ v.ns = "ns1") }

InitWorld(f, kind, scope, genSel, ign, p1r, p2, c0, cfin, r0, rm) ==
  LET cfg == MkCfg(kind, scope, genSel, ign, f = "related")
      pns(x) == IF scope = "ns" THEN x ELSE ""
      ps == [i \in {1, 2} |-> IF i = 1 THEN MkParent(cfg, 1, p1r, "a", pns("ns1"), "p1-1", 1)
                              ELSE IF p2.role = "absent" THEN [Dead EXCEPT !.role = "M", !.sel = [ml |-> ("app" :> p2.selv), me |-> <<>>], !.ns = pns(p2.ns)]
                              ELSE MkParent(cfg, 2, p2.role, p2.selv, pns(p2.ns), "p2-1", 2)]
  IN /\ tc = cfg /\ par = ps
     /\ ch = IF c0 = "-" THEN Dead ELSE MkChild(cfg, c0, ps, cfin, 3)
     /\ rel = IF r0.name = "-" THEN Dead ELSE MkRel(r0, 4)
     /\ rules = [i \in {1, 2} |-> IF f = "related" THEN (IF i = 1 THEN rm.p1 ELSE rm.p2) ELSE <<>>]
     /\ focus = f
     /\ w0 = [p1 |-> p1r, p2 |-> p2, c0 |-> c0, cfin |-> cfin, r0 |-> r0, rm |-> rm.id, focus |-> f]

NoRel == [ns |-> "-", name |-> "-", lab |-> "-"]
NoRM  == [id |-> "-", p1 |-> <<>>, p2 |-> <<>>]
Init ==
  /\ n = 0 /\ rvc = 10 /\ uidc = 1 /\ hist = <<>>
  /\ last = [has |-> FALSE, ev |-> [type |-> "none", old |-> Dead, new |-> Dead], parents |-> {}, must |-> {}, mustnot |-> {}, code |-> {}]
  /\ \E f \in Focus, kind \in Kinds, scope \in {"ns", "cluster"}, p1r \in {"M", "U", "F"} :
       \/ /\ f = "parent"
          /\ \E ign \in BOOLEAN : InitWorld(f, kind, scope, FALSE, ign, p1r, P2Default, "-", FALSE, NoRel, NoRM)
       \/ /\ f = "child"
          /\ \E genSel \in (IF kind = "composite" THEN BOOLEAN ELSE {FALSE}), p2 \in P2Of(f, scope), cfin \in (IF Width = "narrow" THEN {FALSE} ELSE BOOLEAN),
                c0 \in ({"-"} \cup C0Of) :
               /\ (c0 = "ownP2" => p2.role # "absent") /\ (c0 = "-" => ~cfin) /\ (c0 = "orphanUid" => genSel)
               /\ InitWorld(f, kind, scope, genSel, FALSE, p1r, p2, c0, cfin, NoRel, NoRM)
       \/ /\ f = "related"
          /\ \E p2 \in P2Of(f, scope), rm \in RMOf, r0 \in ({NoRel} \cup R0Of) :
               InitWorld(f, kind, scope, FALSE, FALSE, p1r, p2, "-", FALSE, r0, rm)

\* ---- one event --------------------------------------------------------------------------------
Parents == { par[i] : i \in { j \in {1, 2} : par[j].live } }
Asked == [k \in { CacheKey(par[i]) : i \in { j \in {1, 2} : par[j].live } } |->
            rules[CHOOSE i \in {1, 2} : par[i].live /\ CacheKey(par[i]) = k]]
AllIds(ps, q) == { Id(p) : p \in ps } \cup QueuedAny(q)

\* e = the event, ps = parent cache when it is handled
Judge(e, ps, asked) ==
  LET q == Code(tc, e, ps, asked, Fixed)
      U == AllIds(ps, q) \cup (IF IsParentEv(tc, e) THEN {Id(Obj(e))} ELSE {})
  IN [has |-> TRUE, ev |-> e, parents |-> ps, must |-> Must(tc, e, ps, asked),
      mustnot |-> MustNot(tc, e, ps, asked, U), code |-> q]

Step(op, e, par2, ch2, rel2, newUid) ==
  /\ n < MaxEv /\ n' = n + 1 /\ rvc' = rvc + 1 /\ uidc' = IF newUid THEN uidc + 1 ELSE uidc
  /\ par' = par2 /\ ch' = ch2 /\ rel' = rel2
  /\ hist' = Append(hist, op)
  /\ LET ps2 == { par2[i] : i \in { j \in {1, 2} : par2[j].live } }
         asked2 == [k \in { CacheKey(p) : p \in ps2 } |-> rules[CHOOSE i \in {1, 2} : par2[i].live /\ CacheKey(par2[i]) = k]]
     IN last' = Judge(e, ps2, asked2)
  /\ UNCHANGED <<tc, rules, w0, focus>>

Ev(t, o, nw) == [type |-> t, old |-> o, new |-> nw]
Bump(o) == [o EXCEPT !.rv = rvc + 1]

\* -- parent events (slot i)
PCreate(i) ==
  /\ ~par[i].live
  /\ LET nw == MkParent(tc, i, par[i].role, par[i].sel.ml["app"], par[i].ns, PName(i) \o "-" \o ToString(uidc + 1), rvc + 1)
     IN Step([op |-> "pcreate", i |-> i, role |-> par[i].role], Ev("add", Dead, nw), [par EXCEPT ![i] = nw], ch, rel, TRUE)
PUpdate(i, what) ==
  /\ par[i].live
  /\ LET o == par[i]
         nw == CASE what = "relabel" -> [Bump(o) EXCEPT !.labels = ("sel" :> (IF o.labels["sel"] = "on" THEN "off" ELSE "on")),
                                                        !.role = IF o.labels["sel"] = "on" THEN (IF o.fins = <<>> THEN "U" ELSE "F") ELSE "M"]
                 [] what = "status" -> Bump(o)
                 [] what = "spec"   -> [Bump(o) EXCEPT !.gen = @ + 1]
                 [] what = "ann"    -> [Bump(o) EXCEPT !.ann = IF @ = <<>> THEN ("t" :> "x") ELSE <<>>]
     IN Step([op |-> "p" \o what, i |-> i], Ev("update", o, nw), [par EXCEPT ![i] = nw], ch, rel, FALSE)
PDelete(i) ==
  /\ par[i].live /\ ~par[i].deleting
  /\ LET o == par[i] IN
     IF o.fins = <<>>
     THEN Step([op |-> "pdelete", i |-> i], Ev("delete", Bump(o), Dead), [par EXCEPT ![i] = [o EXCEPT !.live = FALSE]], ch, rel, FALSE)
     ELSE LET nw == [Bump(o) EXCEPT !.deleting = TRUE]
          IN Step([op |-> "pdelete", i |-> i], Ev("update", o, nw), [par EXCEPT ![i] = nw], ch, rel, FALSE)
PDropFin(i) ==
  /\ par[i].live /\ par[i].fins # <<>>
  /\ LET o == par[i]  nw == [Bump(o) EXCEPT !.fins = <<>>, !.role = IF o.labels["sel"] = "on" THEN "M" ELSE "U"] IN
     IF o.deleting
     THEN Step([op |-> "pdropfin", i |-> i], Ev("delete", nw, Dead), [par EXCEPT ![i] = [nw EXCEPT !.live = FALSE]], ch, rel, FALSE)
     ELSE Step([op |-> "pdropfin", i |-> i], Ev("update", o, nw), [par EXCEPT ![i] = nw], ch, rel, FALSE)
\* hand-made tombstone of the cached object / resync replay: the world does not change
PTomb(i)   == par[i].live /\ Step([op |-> "ptomb", i |-> i], Ev("tombstone", par[i], Dead), par, ch, rel, FALSE)
PResync(i) == par[i].live /\ Step([op |-> "presync", i |-> i], Ev("resync", par[i], par[i]), par, ch, rel, FALSE)
\* real tombstone: the object is deleted during a watch gap, the relist reports it
PRelist(i) == /\ Real /\ par[i].live /\ par[i].fins = <<>>
              /\ Step([op |-> "prelist", i |-> i], Ev("tombstone", par[i], Dead), [par EXCEPT ![i] = [par[i] EXCEPT !.live = FALSE]], ch, rel, FALSE)
\* a watch gap during which something else of the resource disappears: the relist replays the
\* cached objects to the handlers as updates with an unchanged resourceVersion (real resync replay)
PGap(i) == Real /\ par[i].live /\ Step([op |-> "pgap", i |-> i], Ev("resync", par[i], par[i]), par, ch, rel, FALSE)
ParentEvent(i) ==
  \/ PGap(i)
  \/ PCreate(i) \/ (\E w \in {"relabel", "status", "spec", "ann"} : PUpdate(i, w))
  \/ PDelete(i) \/ PDropFin(i) \/ PTomb(i) \/ PResync(i) \/ PRelist(i)
\* parent events that change what the caches hold (used as set-up before child / related events)
ParentSetup(i) == PCreate(i) \/ PUpdate(i, "relabel") \/ PUpdate(i, "spec") \/ PDelete(i)

\* -- child events
CRoles == IF Width = "wide" THEN ChildRoles ELSE IF Width = "core" THEN CoreChildRoles \cup {"ownP2", "orphanB", "orphanUid"}
          ELSE {"ownP1", "orphanA", "orphanNone", "wrongUid"}
CCreate(role) ==
  /\ ~ch.live /\ RoleOK(role, par) /\ (role = "orphanUid" => tc.genSel)
  /\ LET nw == MkChild(tc, role, par, FALSE, rvc + 1)
     IN Step([op |-> "ccreate", role |-> role], Ev("add", Dead, nw), par, nw, rel, FALSE)
CSet(role) ==
  /\ ch.live /\ ~ch.deleting /\ role # ch.role /\ RoleOK(role, par) /\ (role = "orphanUid" => tc.genSel)
  /\ LET nw == [Bump(ch) EXCEPT !.labels = ChildLabels(role, par), !.owners = ChildOwners(tc, role, par), !.role = role]
     IN Step([op |-> "cset", role |-> role], Ev("update", ch, nw), par, nw, rel, FALSE)
CTouch ==
  /\ ch.live
  /\ LET nw == [Bump(ch) EXCEPT !.ann = IF @ = <<>> THEN ("t" :> "x") ELSE <<>>]
     IN Step([op |-> "ctouch"], Ev("update", ch, nw), par, nw, rel, FALSE)
CDelete ==
  /\ ch.live /\ ~ch.deleting
  /\ IF ch.fins = <<>>
     THEN Step([op |-> "cdelete"], Ev("delete", Bump(ch), Dead), par, [ch EXCEPT !.live = FALSE], rel, FALSE)
     ELSE LET nw == [Bump(ch) EXCEPT !.deleting = TRUE] IN Step([op |-> "cdelete"], Ev("update", ch, nw), par, nw, rel, FALSE)
CDropFin ==
  /\ ch.live /\ ch.fins # <<>>
  /\ LET nw == [Bump(ch) EXCEPT !.fins = <<>>] IN
     IF ch.deleting THEN Step([op |-> "cdropfin"], Ev("delete", nw, Dead), par, [nw EXCEPT !.live = FALSE], rel, FALSE)
     ELSE Step([op |-> "cdropfin"], Ev("update", ch, nw), par, nw, rel, FALSE)
CTomb   == ch.live /\ Step([op |-> "ctomb"], Ev("tombstone", ch, Dead), par, ch, rel, FALSE)
CResync == ch.live /\ Step([op |-> "cresync"], Ev("resync", ch, ch), par, ch, rel, FALSE)
CRelist == Real /\ ch.live /\ ch.fins = <<>> /\ Step([op |-> "crelist"], Ev("tombstone", ch, Dead), par, [ch EXCEPT !.live = FALSE], rel, FALSE)
CGap    == Real /\ ch.live /\ Step([op |-> "cgap"], Ev("resync", ch, ch), par, ch, rel, FALSE)
ChildEvent == CGap \/ (\E r \in CRoles : CCreate(r) \/ CSet(r)) \/ CTouch \/ CDelete \/ CDropFin \/ CTomb \/ CResync \/ CRelist

\* -- related-object events
RCreate(v) == ~rel.live /\ LET nw == MkRel(v, rvc + 1) IN Step([op |-> "rcreate", v |-> v], Ev("add", Dead, nw), par, ch, nw, FALSE)
RRelabel == /\ rel.live
            /\ LET nw == [Bump(rel) EXCEPT !.labels = ("r" :> (IF rel.labels["r"] = "1" THEN "2" ELSE "1"))]
               IN Step([op |-> "rrelabel"], Ev("update", rel, nw), par, ch, nw, FALSE)
RTouch  == rel.live /\ LET nw == [Bump(rel) EXCEPT !.ann = IF @ = <<>> THEN ("t" :> "x") ELSE <<>>] IN Step([op |-> "rtouch"], Ev("update", rel, nw), par, ch, nw, FALSE)
RDelete == rel.live /\ Step([op |-> "rdelete"], Ev("delete", Bump(rel), Dead), par, ch, [rel EXCEPT !.live = FALSE], FALSE)
RRelist == Real /\ rel.live /\ Step([op |-> "rrelist"], Ev("tombstone", rel, Dead), par, ch, [rel EXCEPT !.live = FALSE], FALSE)
RelEvent == (\E v \in R0Of : RCreate(v)) \/ RRelabel \/ RTouch \/ RDelete \/ RRelist

\* the LAST event of a behaviour is one of the focus; earlier ones may also re-arrange the parents
LastOne == n = MaxEv - 1
Next ==
  \/ (focus = "parent" /\ \E i \in {1, 2} : ((i = 1 \/ ~LastOne) /\ ParentEvent(i)) \/ PCreate(i))
  \/ (focus = "child" /\ (ChildEvent \/ (~LastOne /\ \E i \in {1, 2} : ParentSetup(i))))
  \/ (focus = "related" /\ (RelEvent \/ (~LastOne /\ \E i \in {1, 2} : ParentSetup(i))))
Spec == Init /\ [][Next]_vars

\* ---- design level -----------------------------------------------------------------------------
DevKey(x)      == Sig_C14_DecoratorTombstoneKey(tc, last.ev, x)
DevUnfilt(x)   == Sig_C14_ParentTombstoneUnfiltered(tc, last.ev, x)
D_Complete     == \A x \in Missing(last.must, last.code) : DevKey(x)
D_Sound        == \A x \in Forbidden(last.mustnot, last.code) : DevUnfilt(x)
D_KeyParses    == \A x \in Unparsed(last.code) : DevKey(x.id)
D_StrictComplete  == Missing(last.must, last.code) = {}
D_StrictSound     == Forbidden(last.mustnot, last.code) = {}
D_StrictKeyParses == Unparsed(last.code) = {}
\* anti-vacuity of the oracle itself: some behaviour demands a key, some forbids one
D_NeverMust    == last.must = {}
D_NeverMustNot == last.mustnot = {}

\* ---- scenario output -------------------------------------------------------------------------
SetToSeq(S) == LET RECURSIVE f(_) f(T) == IF T = {} THEN <<>> ELSE LET x == CHOOSE y \in T : TRUE IN <<x>> \o f(T \ {x}) IN f(S)
Emit == (Beh /\ n = MaxEv) =>
  PrintT("SCN|" \o ToJson([kind |-> tc.kind, scope |-> IF tc.pNs THEN "ns" ELSE "cluster", genSel |-> tc.genSel,
                            ignoreStatus |-> tc.ignoreStatus, customize |-> tc.customize, w0 |-> w0, hist |-> hist,
                            must |-> SetToSeq(last.must), mustnot |-> SetToSeq(last.mustnot)]))
=============================================================================
