SPECIFICATION Spec
CONSTANTS
  KidSeq <- Kids2
  Actors <- ActorsA
  EnvBudget = 1
  Method = "InPlace"
  Recheck = TRUE
  Beh = TRUE
  InitSet = "full"
  DesiredSets <- AllDesired
INVARIANTS Emit
CHECK_DEADLOCK FALSE
