SPECIFICATION Spec
CONSTANTS
  MaxSteps = 12
  FinProgs <- FAll
  Kinds <- KBoth
  Beh = FALSE
INVARIANTS C10_FinBeforeChild C10_NoFinOnDying C10_HookChoice C10_RemoveOnlyFinalized C10_DyingNoTouch
PROPERTIES C10_Drains
CHECK_DEADLOCK FALSE
