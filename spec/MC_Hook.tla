------------------------------- MODULE MC_Hook -------------------------------
(* Bounded instances of HookTransport.tla for property C19:                            *)
(*   family "seq"   the sequential matrix (priming call / cache state x main call over  *)
(*                  status x ETag header x Retry-After form x body class x mode x ETag   *)
(*                  on/off x key relation, x probing call that reveals what was cached)  *)
(*   family "conc2" a priming call, then TWO concurrent calls with the same cache key    *)
(*   family "conc3" a priming call, then THREE concurrent calls with the same cache key  *)
(* The MC_Hook_*.cfg files check the invariants exhaustively (Record = FALSE), the       *)
(* Beh_Hook_*.cfg files print every maximal behaviour as a scenario (Record = TRUE).    *)
EXTENDS HookTransport, Json

Modes  == {"strict", "loose"}
Calls3 == 1..3
Calls4 == 1..4
PhaseSeq == <<1, 2, 3>>          \* strictly one after the other
PhaseP2  == <<1, 2, 2>>          \* priming call, then two concurrent calls
PhaseP3  == <<1, 2, 2, 2>>       \* priming call, then three concurrent calls
PhaseP2Q == <<1, 2, 2, 3>>       \* priming call, two concurrent calls, probing call

\* ---------------------------------------------------------------------------------------
\* family "seq"
\* ---------------------------------------------------------------------------------------
PrimeAnswers == {SkipAns} \cup { Fix(200, 1, NoRA, B(1, cls)) : cls \in Classes }
                \cup { Fix(200, 0, NoRA, B(1, "valid")),      \* 200 without ETag: nothing to cache
                       Fix(500, 1, NoRA, B(1, "valid")) }     \* an error WITH ETag must not be cached
OtherStatuses == {201, 202, 204, 206, 302, 400, 404, 410, 500, 503}
RAForms == { NoRA, RA("int", 0), RA("int", 7), RA("date", 1), RA("date", 30),
             RA("junk", 0), RA("junk", 1), RA("junk", 2), RA("date", -5), RA("int", -3) }
MainAnswers ==
       { Fix(200, e, ra, B(2, cls)) : e \in {0, 2}, ra \in {NoRA, RA("int", 5)}, cls \in Classes }
  \cup { Fix(st, e, NoRA, B(2, cls)) : st \in {304, 412}, e \in {0, 2}, cls \in {"empty", "valid"} }
  \cup { Fix(429, 0, ra, B(2, cls)) : ra \in RAForms, cls \in {"empty", "valid"} }
  \cup { Fix(st, e, NoRA, B(2, cls)) : st \in OtherStatuses, e \in {0, 2}, cls \in {"empty", "valid"} }
  \cup { Fix(429, 2, RA("int", 7), B(2, "valid")), Fix(503, 0, RA("int", 5), B(2, "valid")),
         Fix(0, 0, NoRA, NoBody), Fix(1, 0, NoRA, NoBody) }
\* the quick matrix leaves out what only repeats a dimension already covered
MainAnswersQ ==
  { a \in MainAnswers : /\ a.st \notin {202, 206, 410}
                        /\ (a.st = 200 /\ a.ra.form # "none") => a.body.cls \in {"valid", "unknown"}
                        /\ (a.st \notin {0, 1, 200, 304, 412, 429, 404, 500}) => a.body.cls = "valid" }
ProbeAnswers == {SkipAns, Cond(3, B(3, "valid"))}

SeqParams ==
       { [etagOn |-> TRUE, mode |-> m, keys |-> <<k1, "k", "k">>, exp |-> IF k1 = "k" THEN 1 ELSE 0] : m \in Modes, k1 \in Keys }
  \cup { [etagOn |-> FALSE, mode |-> m, keys |-> <<"k", "k", "k">>, exp |-> 0] : m \in Modes }
AnsSeqOver(main, c, p) ==
  CASE c = 1 -> IF ~p.etagOn THEN {SkipAns, Fix(200, 1, NoRA, B(1, "valid"))}
                ELSE IF p.keys[1] # "k" THEN {Fix(200, 1, NoRA, B(1, "valid"))}
                ELSE PrimeAnswers
    [] c = 2 -> main
    [] OTHER -> IF p.etagOn THEN ProbeAnswers ELSE {SkipAns}
AnsSeq(c, p)  == AnsSeqOver(MainAnswers, c, p)
AnsSeqQ(c, p) == AnsSeqOver(MainAnswersQ, c, p)

\* ---------------------------------------------------------------------------------------
\* family "conc2" / "conc3": body ids are 10*call+j, so a body used by the wrong call shows
\* ---------------------------------------------------------------------------------------
ConcPrime == {SkipAns, Fix(200, 1, NoRA, B(1, "valid")), Fix(200, 1, NoRA, B(1, "unknown"))}
ConcAnsFull(c) ==
  { Fix(200, c + 1, NoRA, B(10 * c, "valid")),        \* new content, own ETag
    Fix(200, 2, NoRA, B(10 * c + 1, "valid")),        \* new content under an ETag another call may use too
    Fix(200, 0, NoRA, B(10 * c + 2, "valid")),        \* no ETag header
    Fix(200, c + 1, NoRA, B(10 * c + 3, "unknown")),
    Fix(200, c + 1, NoRA, B(10 * c + 4, "badjson")),
    Fix(304, 0, NoRA, EmptyBody), Fix(412, 0, NoRA, EmptyBody),
    Fix(304, 0, NoRA, B(10 * c + 7, "valid")),         \* a sloppy hook that sends a body along with its 304
    Fix(500, c + 1, NoRA, B(10 * c + 5, "valid")),
    Fix(429, 0, RA("int", 3), EmptyBody),
    WB(1, B(1, "valid")) }                            \* well-behaved hook, content unchanged since priming
ConcAnsSmall(c) ==
  { Fix(200, c + 1, NoRA, B(10 * c, "valid")), Fix(200, c + 1, NoRA, B(10 * c + 3, "unknown")),
    Fix(304, 0, NoRA, EmptyBody), WB(1, B(1, "valid")) }
ConcAnsTiny(c) ==
  { Fix(200, c + 1, NoRA, B(10 * c, "valid")), Fix(304, 0, NoRA, EmptyBody), WB(1, B(1, "valid")) }

SameKeys(n) == [i \in 1..n |-> "k"]
Conc2Params ==
       { [etagOn |-> TRUE, mode |-> m, keys |-> SameKeys(3), exp |-> 1] : m \in Modes }
  \cup { [etagOn |-> FALSE, mode |-> "loose", keys |-> SameKeys(3), exp |-> 0] }
Conc2ParamsLoose == { p \in Conc2Params : p.mode = "loose" }
Conc2ParamsStrict == { p \in Conc2Params : p.mode = "strict" }
AnsConc2(c, p) ==
  IF c = 1 THEN (IF p.etagOn THEN ConcPrime ELSE {SkipAns})
  ELSE IF p.mode = "strict" \/ ~p.etagOn THEN ConcAnsSmall(c) ELSE ConcAnsFull(c)
\* two concurrent calls about DIFFERENT parents must not see each other's entry
Conc2KeyParams == { [etagOn |-> TRUE, mode |-> "loose", keys |-> <<"k", "k", k3>>, exp |-> 0] : k3 \in Keys \ {"k"} }
AnsConc2Key(c, p) ==
  IF c = 1 THEN {Fix(200, 1, NoRA, B(1, "valid"))}
  ELSE {Fix(200, c + 1, NoRA, B(10 * c, "valid")), Fix(304, 0, NoRA, EmptyBody), Cond(1, B(10 * c + 6, "valid"))}

Conc3Params  == { [etagOn |-> TRUE, mode |-> "loose", keys |-> SameKeys(4), exp |-> 0] }
Conc3ParamsX == { [etagOn |-> TRUE, mode |-> m, keys |-> SameKeys(4), exp |-> 1] : m \in Modes }
AnsConc3(c, p)  == IF c = 1 THEN {Fix(200, 1, NoRA, B(1, "valid"))} ELSE ConcAnsTiny(c)
AnsConc3S(c, p) == IF c = 1 THEN {SkipAns, Fix(200, 1, NoRA, B(1, "valid"))} ELSE ConcAnsSmall(c)
AnsConc3F(c, p) == IF c = 1 THEN {SkipAns, Fix(200, 1, NoRA, B(1, "valid"))} ELSE ConcAnsFull(c)

\* expiry while calls are in flight (between the If-None-Match and the 304)
XflParams == { [etagOn |-> TRUE, mode |-> "loose", keys |-> SameKeys(3), exp |-> 1] }
AnsXfl(c, p) ==
  IF c = 1 THEN {Fix(200, 1, NoRA, B(1, "valid"))}
  ELSE ConcAnsTiny(c) \cup {Fix(304, 0, NoRA, B(10 * c + 7, "valid")), Fix(412, 0, NoRA, EmptyBody)}

\* priming call, two concurrent calls, then a probing call that shows what the race left cached
Conc2QParams == { [etagOn |-> TRUE, mode |-> "loose", keys |-> SameKeys(4), exp |-> 0] }
AnsConc2Q(c, p) ==
  CASE c = 1 -> {Fix(200, 1, NoRA, B(1, "valid"))}
    [] c = 4 -> {Cond(9, B(49, "valid"))}
    [] OTHER -> ConcAnsTiny(c)

\* ---------------------------------------------------------------------------------------
\* behaviour emission: one line per maximal behaviour
\* ---------------------------------------------------------------------------------------
Scn == [par |-> par, phase |-> Phase, variant |-> Variant,
        calls |-> [c \in Calls |-> [key |-> KeyOf(c), prog |-> prog[c], inm |-> inm[c], resp |-> resp[c],
                                    out |-> out[c], want |-> want[c]]],
        sched |-> hist]
Emit == Terminal => PrintT("SCN|" \o ToJson(Scn))
=============================================================================
