------------------------------ MODULE Requeue ------------------------------
(* Work-queue discipline of one sync (processNextWorkItem + the requeue requests a sync makes):  *)
(*   - error            => AddRateLimited (back-off), no Forget                                  *)
(*   - success          => Forget, no AddRateLimited                                             *)
(*   - an accepted hook answer with resyncAfterSeconds > 0 => AddAfter(that delay), whatever the  *)
(*     outcome of the reconcile phase; with several live parent revisions (rolling update) the    *)
(*     SMALLEST POSITIVE value of all revisions' answers wins; zero / negative values ask nothing *)
(*   - hook answer 429 (composite) => AddAfter(Retry-After), success                              *)
(*   - a failed hook call => no AddAfter at all                                                   *)
(* (composite/controller.go processNextWorkItem 320-335, 555-562, 625-628;                       *)
(*  controller_revision.go "Aggregate resyncAfterSeconds"; decorator/controller.go 312-327, 603-606) *)
EXTENDS Integers, Sequences, FiniteSets, TLC, Json

CONSTANTS Kinds,      \* subset of {"composite", "rolling", "decorator"}
          Resyncs,    \* set of [txt |-> <JSON text of resyncAfterSeconds>, ms |-> <delay asked for, 0 = none>]
          Outcomes    \* subset of {"ok", "hook500", "hook429", "apiErr", "outage"}   (outage: the hook fails for a dozen syncs
                      \* in a row and then recovers: every failed sync is requeued with back-off, the work is never dropped)

NoR == [txt |-> "none", ms |-> 0]
VARIABLES kind, r1, r2, outcome
vars == <<kind, r1, r2, outcome>>
Init == /\ kind \in Kinds /\ outcome \in Outcomes
        /\ r1 \in Resyncs
        /\ r2 \in (IF kind = "rolling" THEN Resyncs ELSE {NoR})      \* the answer for the OLD revision
Next == UNCHANGED vars
Spec == Init /\ [][Next]_vars

Pos(S)   == { x.ms : x \in { y \in S : y.ms > 0 } }
Min(S)   == CHOOSE m \in S : \A n \in S : m <= n
Asked    == IF Pos({r1, r2}) = {} THEN {} ELSE {Min(Pos({r1, r2}))}
Result   == CASE outcome = "ok"      -> "ok"
              [] outcome = "hook429" -> IF kind = "decorator" THEN "error" ELSE "ok"
              [] OTHER               -> "error"
After    == CASE outcome \in {"hook500", "outage"} -> {}
              [] outcome = "hook429" -> IF kind = "decorator" THEN {} ELSE {7000}
              [] OTHER               -> Asked
Final    == IF Result = "ok" THEN "Forget" ELSE "AddRateLimited"
\* design level: the smallest positive request wins and nothing is asked when nobody asks
X02_MinPositive == /\ (Asked # {} => \A x \in Pos({r1, r2}) : Min(Asked) <= x)
                   /\ (Asked = {} <=> (r1.ms <= 0 /\ r2.ms <= 0))
Emit == PrintT("SCN|" \o ToJson([kind |-> kind, r1 |-> r1, r2 |-> r2, outcome |-> outcome,
                                 result |-> Result, after |-> After, final |-> Final]))
=============================================================================
