---------------------------- MODULE MC_Informers ----------------------------
(* Bounded instances of Informers.tla.  MC_Informers_*.cfg: exhaustive, history hidden   *)
(* by VIEW.  MC_Informers_mut_*.cfg: anti-vacuity (a seeded deviation of the model must  *)
(* violate the named clause).  Beh_Informers_*.cfg: behaviour enumeration for replay.    *)
EXTENDS Informers
=============================================================================
