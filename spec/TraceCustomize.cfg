SPECIFICATION CSpec
CHECK_DEADLOCK FALSE
POSTCONDITION TraceAccepted
INVARIANT Axioms
INVARIANT C15_Exact
INVARIANT C15_ExactOff
INVARIANT C15_Errors
INVARIANT C15_Once
INVARIANT C15_Wakes
INVARIANT C13_NoPanic
