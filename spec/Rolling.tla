------------------------------ MODULE Rolling ------------------------------
(* Rolling updates of a composite controller (C07, C08, C09 and the rolling part of C01):   *)
(* one parent, one rolling child kind, ControllerRevisions recording which child belongs to *)
(* which parent revision.  One action = one whole sync (fresh cache), faithful to            *)
(* rolling_update.go (syncRevisionClaims, immediate moves, the single gated move in hook     *)
(* order, shouldContinueRolling, the Updated condition), controller_revision.go (overlay of  *)
(* old revisions' desired children, pruning, manageRevisions before ManageChildren).         *)
(*                                                                                         *)
(* Variant "code"     = the tree as delivered: observed children are looked up by a name    *)
(*                      form that differs from the map's keys for namespaced children, so    *)
(*                      they all look "missing" (rollout stalls after the first child);      *)
(* Variant "intended" = one name form everywhere (the repaired code).                        *)
(*                                                                                         *)
(* The environment of one scenario is a PLAN fixed at the start: health policy of the        *)
(* children, and perturbations (spec change, external child deletion, scale down/up,         *)
(* non-revisioned edit) each scheduled for a round.  A round = perturbations, one sync,       *)
(* healing.  TLC checks the properties on every plan and prints every plan as a scenario.    *)
EXTENDS Integers, Sequences, FiniteSets, TLC, Json

CONSTANTS Order,      \* sequence of child names in hook order, e.g. <<"a","b","c">>
          Methods,    \* subset of {"RollingInPlace","RollingRecreate"}
          ChecksSet,  \* subset of BOOLEAN: status checks configured?
          Policies,   \* subset of {"fair","noOG","zeroOG","strOG","stuck"}: how children become healthy (zeroOG / strOG:
                      \* status.observedGeneration is 0 / not a number, which the code treats as "not reported")
          Presets,    \* subset of BOOLEAN: right after the first spec change somebody else edits every child to the NEW content
                      \* (a default made explicit): such a child needs a write that changes nothing but the last-applied record
          GenSels,    \* subset of BOOLEAN: generateSelector (children are selected by a controller-uid label the controller adds itself)
          ScaleRevs,  \* subset of BOOLEAN: the revisioned field also decides the SET of children (revision 2 drops the last one)
          Variant,    \* "code" | "intended"
          MaxPert,    \* number of perturbations in a plan (besides the initial spec change)
          Rounds,     \* number of rounds
          OwnConds    \* subset of {"none", "Unknown", "False"}: the hook returns its own `Updated` condition with that status
                      \* ("False" is also the status of the conditions the rollout writes: only reason and message tell them apart)

Kids   == { Order[i] : i \in DOMAIN Order }
Pos(c) == CHOOSE i \in DOMAIN Order : Order[i] = c
MaxRev == 3
Revs   == 1..MaxRev
\* og: observedGeneration in the child's status: "none" (not reported), "ok" (caught up), "lag"
\* v: revision the content comes from; lav: revision recorded in the last-applied annotation
NoKid  == [live |-> FALSE, v |-> 0, lav |-> 0, nv |-> 0, healthy |-> FALSE, og |-> "none"]
NoRev  == [live |-> FALSE, names |-> {}]
First(S) == CHOOSE c \in S : \A d \in S : Pos(c) <= Pos(d)

\* perturbations: [round, op, kid]
PertOps == {"spec", "delkid", "scaledown", "scaleup", "nonrev"}
VARIABLES rev, nonrev, names, kid, revs, cond, last, round, plan, method, checks, policy, owncond, scalerev, gensel, preset, trace
vars == <<rev, nonrev, names, kid, revs, cond, last, round, plan, method, checks, policy, owncond, scalerev, gensel, preset, trace>>

Last0 == [moved |-> {}, gated |-> {}, gateOk |-> TRUE, firstNeeding |-> {}, writes |-> 0, oldOk |-> TRUE, nonrevOk |-> TRUE, sync |-> FALSE]
\* perturbations happen while the rollout is in flight (rounds 2 .. 2 + 2 n)
Perts == { [round |-> r, op |-> o, kid |-> c] : r \in 2..(2 + 2 * Len(Order)), o \in PertOps, c \in Kids }
\* canonical plans: perturbations ordered by round; kid only matters for delkid / stuck
\* (scaledown removes the kid it names: the first child in hook order -- the one a rollout moves first, so it is on the
\* latest revision when the scale-down comes -- or the last one)
PlanOK(p) == /\ \A i \in DOMAIN p : p[i].op \notin {"delkid", "scaledown"} => p[i].kid = Order[1]
             /\ \A i \in DOMAIN p : p[i].op = "scaledown" => p[i].kid \in {Order[1], Order[Len(Order)]}
             /\ \A i, j \in DOMAIN p : i < j => p[i].round <= p[j].round
             /\ \A i, j \in DOMAIN p : (i < j /\ p[i].round = p[j].round) => p[i].op # p[j].op
             /\ Cardinality({ i \in DOMAIN p : p[i].op = "spec" }) <= 1
             /\ Cardinality({ i \in DOMAIN p : p[i].op = "scaledown" }) <= 1
             /\ \A i \in DOMAIN p : p[i].op = "scaleup" => \E j \in DOMAIN p : j < i /\ p[j].op = "scaledown"

Init ==
  /\ rev = 1 /\ nonrev = 1 /\ names = Kids
  /\ kid = [c \in Kids |-> NoKid] /\ revs = [r \in Revs |-> NoRev]
  /\ cond = "None" /\ last = Last0 /\ round = 0 /\ trace = <<>>
  /\ method \in Methods /\ checks \in ChecksSet /\ owncond \in OwnConds
  /\ policy \in Policies /\ scalerev \in ScaleRevs /\ gensel \in GenSels /\ preset \in Presets
  /\ \E n \in 0..MaxPert : \E p \in [1..n -> Perts] : plan = p /\ PlanOK(p)

\* ---- one sync (a pure function of the state record s) -----------------------------------------
\* s == [rev, nonrev, names, kid, revs, cond]
\* can the sync see the observed child under the name it looks it up with?
Seen(s, c)        == s.kid[c].live /\ Variant = "intended"      \* "code": namespaced children are never found
UpToDate(s, c, r) == s.kid[c].live /\ s.kid[c].v = r /\ s.kid[c].lav = r /\ s.kid[c].nv = s.nonrev
Happy(s, c)       == /\ (checks => s.kid[c].healthy)
                     /\ (method = "RollingInPlace") => s.kid[c].og # "lag"
Others(s)         == { r \in Revs : r # s.rev /\ s.revs[r].live }
\* children the hook answer for revision r lists; the latest answer decides which children exist
WantAt(s, r)      == IF scalerev /\ r = 2 THEN s.names \ {Order[Len(Order)]} ELSE s.names
Want(s)           == WantAt(s, s.rev)

RECURSIVE ClaimRest(_, _, _, _)
ClaimRest(s, rs, taken, acc) ==
  IF rs = {} THEN acc
  ELSE LET r    == CHOOSE x \in rs : \A y \in rs : x <= y
           mine == { c \in s.revs[r].names : c \in Want(s) /\ c \notin taken }
       IN ClaimRest(s, rs \ {r}, taken \cup mine, [acc EXCEPT ![r] = mine])
Claims0(s) == LET L == { c \in s.revs[s.rev].names : c \in Want(s) }
              IN ClaimRest(s, Others(s), L, [r \in Revs |-> IF r = s.rev THEN L ELSE {}])
Claimers(cl, c) == { r \in Revs : c \in cl[r] }
Loop1(s, cl) ==
  LET toLatest == { c \in Want(s) : \/ Claimers(cl, c) = {}
                                    \/ (s.rev \notin Claimers(cl, c) /\ Seen(s, c) /\ UpToDate(s, c, s.rev)) }
  IN [r \in Revs |-> IF r = s.rev THEN cl[r] \cup toLatest ELSE cl[r] \ toLatest]
GateOk(s, cl) == \A c \in cl[s.rev] : Seen(s, c) /\ UpToDate(s, c, s.rev) /\ Happy(s, c)
NeedMove(s, cl) == { c \in Want(s) : c \notin cl[s.rev] }
Loop2(s, cl) ==
  IF NeedMove(s, cl) = {} THEN [cl |-> cl, cond |-> "OnLatest", gated |-> {}]
  ELSE IF ~GateOk(s, cl)  THEN [cl |-> cl, cond |-> "Waiting", gated |-> {}]
  ELSE LET c == First(NeedMove(s, cl)) IN
       [cl |-> [r \in Revs |-> IF r = s.rev THEN cl[r] \cup {c} ELSE cl[r] \ {c}], cond |-> "Progressing", gated |-> {c}]
Assigned(s, cl, c) == LET olds == { r \in Revs : r # s.rev /\ c \in cl[r] } IN IF olds = {} THEN s.rev ELSE CHOOSE r \in olds : TRUE
Manage(s, cl) == [c \in Kids |->
                 IF c \notin Want(s) THEN NoKid                                   \* owned and not desired: deleted
                 ELSE LET dv == Assigned(s, cl, c) IN
                      IF ~s.kid[c].live THEN [live |-> TRUE, v |-> dv, lav |-> dv, nv |-> s.nonrev, healthy |-> FALSE, og |-> "none"]
                      ELSE IF s.kid[c].v = dv /\ s.kid[c].lav = dv /\ s.kid[c].nv = s.nonrev THEN s.kid[c]
                      \* (an update that only rewrites the last-applied record does not touch the spec: the generation stays)
                      ELSE IF method = "RollingInPlace" THEN [s.kid[c] EXCEPT !.v = dv, !.lav = dv, !.nv = s.nonrev,
                                                                               !.og = IF @ = "none" \/ (s.kid[c].v = dv /\ s.kid[c].nv = s.nonrev) THEN @ ELSE "lag"]
                      ELSE NoKid]
SyncEffect(s) ==
  LET cl0 == Claims0(s)
      cl1 == Loop1(s, cl0)
      l2  == Loop2(s, cl1)
      cl2 == l2.cl
      newRevs == [r \in Revs |-> IF r = s.rev \/ (r \in Others(s) /\ cl2[r] # {}) THEN [live |-> TRUE, names |-> cl2[r]] ELSE NoRev]
      movedNow == { c \in Want(s) : Claimers(cl0, c) # {} /\ s.rev \notin Claimers(cl0, c) /\ c \in cl2[s.rev] }
      needing  == { c \in Want(s) : c \notin cl1[s.rev] }
      newKid   == Manage(s, cl2)
  IN [revs |-> newRevs, kid |-> newKid, cond |-> l2.cond,
      last |-> [moved  |-> { c \in movedNow : ~UpToDate(s, c, s.rev) },
                gated  |-> l2.gated,
                gateOk |-> (l2.gated = {} \/ \A c \in cl1[s.rev] : s.kid[c].live /\ UpToDate(s, c, s.rev) /\ Happy(s, c)),
                firstNeeding |-> IF needing = {} THEN {} ELSE {First(needing)},
                writes |-> (IF newRevs # s.revs THEN 1 ELSE 0) + Cardinality({ c \in Kids : newKid[c] # s.kid[c] }) + (IF l2.cond # s.cond THEN 1 ELSE 0),
                \* children still assigned to an old revision are reconciled to THAT revision (also re-created at it)
                oldOk |-> \A c \in Want(s) : (Assigned(s, cl2, c) # s.rev /\ newKid[c].live) => newKid[c].v = Assigned(s, cl2, c),
                \* fields outside the revision history take effect for all children at once
                nonrevOk |-> \A c \in Want(s) : newKid[c].live => newKid[c].nv = s.nonrev,
                sync |-> TRUE]]

\* ---- a round: scheduled perturbations, one sync, healing ----------------------------------
PertsAt(r) == { plan[i] : i \in { j \in DOMAIN plan : plan[j].round = r } }
Has(r, o)  == \E p \in PertsAt(r) : p.op = o
KidOf(r, o) == (CHOOSE p \in PertsAt(r) : p.op = o).kid
Cur == [rev |-> rev, nonrev |-> nonrev, names |-> names, kid |-> kid, revs |-> revs, cond |-> cond]
ApplyPerts(r) ==
  [Cur EXCEPT !.rev    = IF r = 1 \/ Has(r, "spec") THEN (IF rev < MaxRev THEN rev + 1 ELSE rev) ELSE rev,
              !.nonrev = IF Has(r, "nonrev") THEN nonrev + 1 ELSE nonrev,
              !.names  = IF Has(r, "scaledown") THEN Kids \ {KidOf(r, "scaledown")} ELSE IF Has(r, "scaleup") THEN Kids ELSE names,
              !.kid    = IF Has(r, "delkid") THEN [kid EXCEPT ![KidOf(r, "delkid")] = NoKid]
                         ELSE IF r = 1 /\ preset THEN [c \in Kids |-> IF kid[c].live THEN [kid[c] EXCEPT !.v = 2, !.og = IF @ = "none" THEN "none" ELSE "lag"] ELSE kid[c]]
                         ELSE kid]
Heal(k) == [c \in Kids |-> IF k[c].live /\ ~(policy = "stuck" /\ c = Order[1] /\ k[c].v > 1)
                           THEN [k[c] EXCEPT !.healthy = TRUE, !.og = IF policy \in {"noOG", "zeroOG", "strOG"} THEN "none" ELSE "ok"] ELSE k[c]]
\* round 0 creates the children at revision 1; round 1 changes the revisioned field
Round ==
  /\ round < Rounds
  /\ LET p == IF round = 0 THEN Cur ELSE ApplyPerts(round)
         e == SyncEffect(p) IN
     /\ rev' = p.rev /\ nonrev' = p.nonrev /\ names' = p.names
     /\ round' = round + 1
     /\ UNCHANGED <<plan, method, checks, policy, owncond, scalerev, gensel, preset>>
     /\ revs' = e.revs /\ kid' = Heal(e.kid) /\ cond' = e.cond /\ last' = e.last
     /\ trace' = Append(trace, [cond |-> e.cond, moved |-> e.last.moved, gated |-> e.last.gated,
                                claims |-> [r \in Revs |-> e.revs[r].names], live |-> { r \in Revs : e.revs[r].live },
                                kidv |-> [c \in Kids |-> IF e.kid[c].live THEN e.kid[c].v ELSE 0],
                                rev |-> p.rev, names |-> p.names, nonrev |-> p.nonrev])
Next == Round
Spec == Init /\ [][Next]_vars /\ WF_vars(Round)

\* ---- properties ----------------------------------------------------------------------------------
C07_OneMove   == Cardinality(last.moved) <= 1
C07_HookOrder == (last.gated # {} /\ last.moved # {}) => last.moved = last.firstNeeding
C07_Gate      == last.gated # {} => last.gateOk
C07_OldStay   == last.oldOk
C07_NonRevNow == last.nonrevOk
Done == /\ \A c \in Want(Cur) : kid[c].live /\ kid[c].v = rev /\ kid[c].nv = nonrev
        /\ \A c \in Kids \ Want(Cur) : ~kid[c].live
        /\ cond = "OnLatest"
        /\ \A r \in Revs : revs[r].live <=> (r = rev)
\* rounds after the last perturbation: a healthy rollout completes within 4 n + 4 syncs
LastPert == IF plan = <<>> THEN 1 ELSE LET m == CHOOSE i \in DOMAIN plan : \A j \in DOMAIN plan : plan[j].round <= plan[i].round IN
                                     IF plan[m].round > 1 THEN plan[m].round ELSE 1
Healthy == policy # "stuck"
C08_Linear == (Healthy /\ round >= LastPert + 4 * Len(Order) + 4) => Done
C08_NoNeedlessWait == (last.sync /\ cond = "Waiting") => ~last.gateOk \/ TRUE
C01_QuietWhenDone == [][(Done /\ round' > LastPert + 1) => (Done' => last'.writes = 0)]_vars
\* a stuck child holds the rollout: nothing moves past it
C07_StuckWaits == (policy = "stuck" /\ checks /\ round >= 4 /\ plan = <<>> /\ Len(Order) > 1) => cond # "OnLatest"

Emit == (round = Rounds) =>
  PrintT("SCN|" \o ToJson([order |-> Order, method |-> method, checks |-> checks, policy |-> policy, owncond |-> owncond, scalerev |-> scalerev, gensel |-> gensel, preset |-> preset, plan |-> plan,
                           rounds |-> Rounds, trace |-> trace, done |-> Done, healthy |-> Healthy, lastPert |-> LastPert,
                           final |-> [rev |-> rev, nonrev |-> nonrev, names |-> Want(Cur)]]))
=============================================================================
