---------------------------- MODULE Informers ----------------------------
(* Shared dynamic informers of metacontroller (pkg/dynamic/informer): the factory with   *)
(* its reference counts, subscriptions (ResourceInformer), per-subscription handler      *)
(* lists inside the one sharedEventHandler of an underlying informer, add-time replay,   *)
(* per-handler resync timers, fan-out, remove, close.                          [C18]     *)
(*                                                                                       *)
(* Two layers are kept apart on purpose:                                                 *)
(*   specification level ("ghost"): which subscriptions are open, which handlers were    *)
(*       added / removed by whom, what the API server stores.  Driven by the operations  *)
(*       only; this is what the property talks about.                                    *)
(*   code level: refCount / sharedInformers of the factory, the informer object (its     *)
(*       generation, whether it runs, its cache), the handler map of the                 *)
(*       sharedEventHandler keyed by subscription, running timers -- transcribed from    *)
(*       factory.go / informer.go AS WRITTEN.                                            *)
(* An OBSERVATION is what can be seen from outside after an operation has settled:       *)
(* active WATCHes and LIST calls per resource at the server, what every open             *)
(* subscription's lister shows, what every handler received during the step, what        *)
(* removed handlers received after their removal, which entitled handlers a later event  *)
(* does not reach.  The property clauses P_* are predicates over (ghost state, last      *)
(* operation, observation).  The model checks them on the observation derived from the   *)
(* code-level state (ModelObs); TraceInformers.tla checks the SAME predicates on the     *)
(* observation recorded from the real code.                                              *)
EXTENDS Integers, Sequences, FiniteSets, TLC, Json

CONSTANTS NS,      \* subscriber slots 1..NS
          NR,      \* resources 1..NR
          NO,      \* object names per resource 1..NO
          MaxOps,  \* bound on the length of an operation sequence
          MaxH,    \* bound on the number of handlers added in a sequence
          Ticks,   \* BOOLEAN: resync-timer ticks are schedulable steps (exhaustive configs)
          Beh,     \* BOOLEAN: behaviour enumeration (history in the state, canonical forms)
          Mut,     \* "none" = the code as written; other values: seeded deviations (anti-vacuity)
          AddEv    \* BOOLEAN: also the composed operations "addev" (an object event arriving WHILE a handler is being added)
                   \* and "remev" (a subscriber removing its handlers WHILE an event is being broadcast)

Slots == 1..NS
Res   == 1..NR
Objs  == 1..NO

VARIABLES
  \* ---- specification level
  st,       \* slot -> "none" | "open" | "closed"      state of the slot's (latest) subscription
  sres,     \* slot -> resource of that subscription (0 = none yet)
  hinfo,    \* handler id -> [slot, r, own, removed]   (a sequence: ids are 1..Len)
  store,    \* resource -> object -> resourceVersion (0 = absent)     the API server
  rvc,      \* last resourceVersion handed out
  usedO,    \* resource -> objects that ever existed (canonical forms of Beh only)
  \* ---- code level
  fRef,     \* factory.refCount[key]
  fShared,  \* key \in DOMAIN factory.sharedInformers
  inf,      \* resource -> [gen, running, cache]: the sharedResourceInformer created last
  sgen,     \* slot -> generation of the informer its ResourceInformer points at
  reg,      \* slot -> handler ids under this subscription's key in that informer's handler map
  timers,   \* handler ids whose private resync goroutine runs
  lists,    \* resource -> LIST calls issued so far
  \* ---- last step (write-only; hidden by the VIEW of the exhaustive configs)
  lop,      \* the operation just performed, with the facts of its pre-state the clauses need
  recv,     \* handler id -> events delivered to it during the step
  \* ---- environment: the resource (0 = none) that discovery does not serve yet; it becomes discoverable after a
  \* subscribe to it has failed
  late,
  \* ---- control
  n, hist

ghost == <<st, sres, hinfo, store, rvc, usedO>>
code  == <<fRef, fShared, inf, sgen, reg, timers, lists>>
vars  == <<st, sres, hinfo, store, rvc, usedO, fRef, fShared, inf, sgen, reg, timers, lists, lop, recv, late, n, hist>>
View  == <<st, sres, hinfo, store, rvc, usedO, fRef, fShared, inf, sgen, reg, timers, lists, late, n>>

Range(f) == { f[i] : i \in DOMAIN f }
Zero     == [o \in Objs |-> 0]
Hs       == DOMAIN hinfo
Ev(k, o, rv, orv) == [k |-> k, o |-> o, rv |-> rv, orv |-> orv]
\* the resync of eventHandler.resync(): OnUpdate(obj, obj) for everything in the cache
CacheSeq(c) == LET os == SelectSeq([i \in 1..NO |-> i], LAMBDA o : c[o] > 0)
               IN [i \in 1..Len(os) |-> Ev("upd", os[i], c[os[i]], c[os[i]])]

NoOp == [t |-> "init", s |-> 0, r |-> 0, o |-> 0, own |-> FALSE, h |-> 0, rv |-> 0, orv |-> 0,
         last |-> FALSE, first |-> FALSE, lb |-> 0, cached |-> Zero]
Op(t, s, r, o, own, h, rv) == [t |-> t, s |-> s, r |-> r, o |-> o, own |-> own, h |-> h, rv |-> rv]
Lop(p, r, orv, last, first, lb, cached) ==
  [t |-> p.t, s |-> p.s, r |-> r, o |-> p.o, own |-> p.own, h |-> p.h, rv |-> p.rv, orv |-> orv,
   last |-> last, first |-> first, lb |-> lb, cached |-> cached]

\* ---- specification-level notions ------------------------------------------------------
Open(r)     == { s \in Slots : st[s] = "open" /\ sres[s] = r }
SlotHs(s)   == { h \in Hs : hinfo[h].slot = s /\ ~hinfo[h].removed }
\* a handler the statement entitles to events: added on a subscription that is still open,
\* not removed.  (About handlers of a CLOSED subscription that were never removed the
\* statement says nothing: they are neither required nor forbidden to receive.)
Entitled(h) == ~hinfo[h].removed /\ st[hinfo[h].slot] = "open"

\* ---- initial values -------------------------------------------------------------------
st0    == [s \in Slots |-> "none"]
sres0  == [s \in Slots |-> 0]
store0 == [r \in Res |-> Zero]
usedO0 == [r \in Res |-> {}]
fRef0  == [r \in Res |-> 0]
fSh0   == [r \in Res |-> FALSE]
inf0   == [r \in Res |-> [gen |-> 0, running |-> FALSE, cache |-> Zero]]
sgen0  == [s \in Slots |-> 0]
reg0   == [s \in Slots |-> <<>>]
lists0 == [r \in Res |-> 0]

Init == /\ st = st0 /\ sres = sres0 /\ hinfo = <<>> /\ store = store0 /\ rvc = 0 /\ usedO = usedO0
        /\ fRef = fRef0 /\ fShared = fSh0 /\ inf = inf0 /\ sgen = sgen0 /\ reg = reg0
        /\ timers = {} /\ lists = lists0 /\ lop = NoOp /\ recv = <<>> /\ n = 0 /\ hist = <<>>
        /\ late \in (IF AddEv THEN {0, NR} ELSE {0})

\* ---- which operations make sense (the protocol of the API) ----------------------------
\* Subscribe on a slot without a live subscription and without leftover handlers; add a
\* handler only through an open subscription; close only an open subscription (a second
\* Close of the same ResourceInformer is API misuse and not part of the statement);
\* RemoveEventHandlers on an open subscription, or after Close while handlers are left.
Canon(p) ==
  CASE p.t = "sub"  -> /\ (st[p.s] = "none" => \A s2 \in Slots : s2 < p.s => st[s2] # "none")
                       /\ (inf[p.r].gen = 0 => \A r2 \in Res : r2 < p.r => inf[r2].gen > 0)
    [] p.t \in {"addev", "remev"} -> (p.o \notin usedO[sres[p.s]] => \A o2 \in Objs : o2 < p.o => o2 \in usedO[sres[p.s]])
    [] p.t = "oadd" -> /\ (p.r = 1 \/ inf[p.r].gen > 0)
                       /\ (p.o \notin usedO[p.r] => \A o2 \in Objs : o2 < p.o => o2 \in usedO[p.r])
    [] OTHER -> TRUE

Pre(p) ==
  /\ CASE p.t = "sub"   -> p.s \in Slots /\ p.r \in Res /\ st[p.s] \in {"none", "closed"} /\ SlotHs(p.s) = {} /\ p.r # late
       \* a subscribe to the resource discovery does not know yet: it fails and leaves nothing behind; the resource becomes
       \* discoverable right afterwards
       [] p.t = "subx"  -> p.s \in Slots /\ p.r \in Res /\ p.r = late /\ st[p.s] \in {"none", "closed"} /\ SlotHs(p.s) = {}
                           /\ (Beh => (st[p.s] = "none" => \A s2 \in Slots : s2 < p.s => st[s2] # "none"))
       [] p.t = "add"   -> p.s \in Slots /\ st[p.s] = "open" /\ Len(hinfo) < MaxH /\ p.h = Len(hinfo) + 1
       [] p.t = "addev" -> /\ p.s \in Slots /\ st[p.s] = "open" /\ Len(hinfo) < MaxH /\ p.h = Len(hinfo) + 1
                           /\ p.o \in Objs /\ p.rv > rvc
       \* the broadcast in flight is held up inside a handler of ANOTHER open subscription of the same informer
       [] p.t = "remev" -> /\ p.s \in Slots /\ st[p.s] = "open" /\ SlotHs(p.s) # {} /\ p.o \in Objs /\ p.rv > rvc
                           /\ inf[sres[p.s]].running /\ sgen[p.s] = inf[sres[p.s]].gen
                           /\ \E s2 \in Slots \ {p.s} : st[s2] = "open" /\ sres[s2] = sres[p.s] /\ sgen[s2] = sgen[p.s] /\ SlotHs(s2) # {}
       [] p.t = "rem"   -> p.s \in Slots /\ (st[p.s] = "open" \/ (st[p.s] = "closed" /\ SlotHs(p.s) # {}))
       [] p.t = "close" -> p.s \in Slots /\ st[p.s] = "open"
       [] p.t = "oadd"  -> p.r \in Res /\ p.o \in Objs /\ store[p.r][p.o] = 0 /\ p.rv > rvc
       [] p.t = "oupd"  -> p.r \in Res /\ p.o \in Objs /\ store[p.r][p.o] > 0 /\ p.rv > rvc
       [] p.t = "odel"  -> p.r \in Res /\ p.o \in Objs /\ store[p.r][p.o] > 0 /\ p.rv > rvc
       [] p.t = "tick"  -> p.h \in timers
       [] p.t = "final" -> TRUE
       [] OTHER -> FALSE
  /\ (Beh => Canon(p))

\* ---- code-level helpers ---------------------------------------------------------------
\* handlers the sharedEventHandler of resource r's current informer broadcasts to
Fan(r) == UNION { Range(reg[s]) : s \in { x \in Slots : st[x] # "none" /\ sres[x] = r /\ sgen[x] = inf[r].gen } }
Quiet  == [h \in Hs |-> <<>>]

\* ---- the operations -------------------------------------------------------------------
\* SharedInformerFactory.Resource
DoSub(p) ==
  LET r == p.r  s == p.s IN
  /\ st' = [st EXCEPT ![s] = "open"] /\ sres' = [sres EXCEPT ![s] = r]
  /\ UNCHANGED <<hinfo, store, rvc, usedO, timers>>
  /\ IF fShared[r]
       THEN /\ fRef' = [fRef EXCEPT ![r] = @ + 1]
            /\ sgen' = [sgen EXCEPT ![s] = inf[r].gen]
            /\ UNCHANGED <<fShared, inf, lists>>
       ELSE /\ inf' = [inf EXCEPT ![r] = [gen |-> @.gen + 1, running |-> TRUE, cache |-> store[r]]]
            /\ lists' = [lists EXCEPT ![r] = @ + 1]
            /\ fShared' = [fShared EXCEPT ![r] = TRUE]
            /\ fRef' = [fRef EXCEPT ![r] = 1]
            /\ sgen' = [sgen EXCEPT ![s] = inf[r].gen + 1]
  /\ reg' = [reg EXCEPT ![s] = <<>>]
  /\ recv' = Quiet
  /\ lop' = Lop(p, r, 0, FALSE, Open(r) = {}, lists[r], Zero)

\* ResourceInformer.Close -> closeFn
DoClose(p) ==
  LET s == p.s  r == sres[s]  count == fRef[r] - 1
      keep == CASE Mut = "neverStop" -> count >= 0
                [] Mut = "stopEarly" -> count > 1
                [] OTHER             -> count > 0
  IN
  /\ st' = [st EXCEPT ![s] = "closed"]
  /\ UNCHANGED <<sres, hinfo, store, rvc, usedO, sgen, reg, timers, lists>>
  /\ IF keep
       THEN fRef' = [fRef EXCEPT ![r] = count] /\ UNCHANGED <<fShared, inf>>
       ELSE /\ inf' = [inf EXCEPT ![r].running = FALSE]           \* close(stopCh)
            /\ fRef' = [fRef EXCEPT ![r] = 0]                     \* delete(f.refCount, key)
            /\ fShared' = [fShared EXCEPT ![r] = (Mut = "keepShared")]  \* delete(f.sharedInformers, key)
  /\ recv' = Quiet
  /\ lop' = Lop(p, r, 0, Open(r) = {s}, FALSE, lists[r], Zero)

\* informerWrapper.AddEventHandler[WithResyncPeriod] -> sharedEventHandler.addHandler
DoAdd(p) ==
  LET s == p.s  r == sres[s]  h == p.h
      c == IF sgen[s] = inf[r].gen THEN inf[r].cache ELSE Zero
  IN
  /\ hinfo' = Append(hinfo, [slot |-> s, r |-> r, own |-> p.own, removed |-> FALSE])
  /\ reg' = [reg EXCEPT ![s] = Append(@, h)]
  /\ timers' = IF p.own THEN timers \cup {h} ELSE timers    \* resyncPeriod < relistPeriod
  /\ recv' = [i \in 1..h |-> IF i = h /\ Mut # "noReplay" THEN CacheSeq(c) ELSE <<>>]
  /\ UNCHANGED <<st, sres, store, rvc, usedO, fRef, fShared, inf, sgen, lists>>
  /\ lop' = Lop(p, r, 0, FALSE, FALSE, lists[r], store[r])

\* An object event reaches the shared handler WHILE addHandler runs (it arrives during the new handler's replay).
\* addHandler holds the write lock of the shared handler from the registration to the end of the replay, so the
\* notification waits and is then broadcast to every registered handler, the new one included: the composition
\* "add ; event".  (A replay outside the lock, before the registration, would lose the event for the new handler.)
DoAddEv(p) ==
  LET s == p.s  r == sres[s]  h == p.h  o == p.o
      c == IF sgen[s] = inf[r].gen THEN inf[r].cache ELSE Zero
      e == IF store[r][o] = 0 THEN Ev("add", o, p.rv, 0) ELSE Ev("upd", o, p.rv, store[r][o])
  IN
  /\ hinfo' = Append(hinfo, [slot |-> s, r |-> r, own |-> p.own, removed |-> FALSE])
  /\ reg' = [reg EXCEPT ![s] = Append(@, h)]
  /\ timers' = IF p.own THEN timers \cup {h} ELSE timers
  /\ store' = [store EXCEPT ![r][o] = p.rv]
  /\ rvc' = p.rv
  /\ usedO' = IF Beh THEN [usedO EXCEPT ![r] = @ \cup {o}] ELSE usedO
  /\ inf' = IF inf[r].running THEN [inf EXCEPT ![r].cache[o] = p.rv] ELSE inf
  /\ recv' = [i \in 1..h |-> IF i = h THEN (IF Mut # "noReplay" THEN CacheSeq(c) ELSE <<>>) \o <<e>>
                             ELSE IF inf[r].running /\ i \in Fan(r) THEN <<e>> ELSE <<>>]
  /\ UNCHANGED <<st, sres, fRef, fShared, sgen, lists>>
  /\ lop' = Lop(p, r, store[r][o], FALSE, FALSE, lists[r], store[r])

\* RemoveEventHandlers is called WHILE an event is being broadcast (the broadcast is inside another subscriber's
\* handler).  The broadcast holds the read lock of the shared handler until every handler has been called, so the removal
\* waits: the composition "event ; rem" -- the handlers being removed still get the event BEFORE the removal returns, and
\* nothing afterwards.  (A broadcast over a snapshot taken under the lock would call them after the removal returned.)
DoRemEv(p) ==
  LET s == p.s  r == sres[s]  o == p.o
      e == IF store[r][o] = 0 THEN Ev("add", o, p.rv, 0) ELSE Ev("upd", o, p.rv, store[r][o])
      same == { x \in Slots : st[x] # "none" /\ sres[x] = r /\ sgen[x] = sgen[s] }
  IN
  /\ store' = [store EXCEPT ![r][o] = p.rv]
  /\ rvc' = p.rv
  /\ usedO' = IF Beh THEN [usedO EXCEPT ![r] = @ \cup {o}] ELSE usedO
  /\ inf' = IF inf[r].running THEN [inf EXCEPT ![r].cache[o] = p.rv] ELSE inf
  /\ recv' = [h \in Hs |-> IF inf[r].running /\ h \in Fan(r) THEN <<e>> ELSE <<>>]
  /\ hinfo' = [h \in Hs |-> IF hinfo[h].slot = s THEN [hinfo[h] EXCEPT !.removed = TRUE] ELSE hinfo[h]]
  /\ CASE Mut = "removeAll"   -> /\ reg' = [x \in Slots |-> IF x \in same THEN <<>> ELSE reg[x]]
                                 /\ timers' = timers \ UNION { Range(reg[x]) : x \in same }
       [] Mut = "keepHandler" -> reg' = reg /\ timers' = timers \ Range(reg[s])
       [] OTHER               -> reg' = [reg EXCEPT ![s] = <<>>] /\ timers' = timers \ Range(reg[s])
  /\ UNCHANGED <<st, sres, fRef, fShared, sgen, lists>>
  /\ lop' = Lop(p, r, store[r][o], FALSE, FALSE, lists[r], Zero)

\* informerWrapper.RemoveEventHandlers -> sharedEventHandler.removeHandlers
DoRem(p) ==
  LET s == p.s  r == sres[s]
      same == { x \in Slots : st[x] # "none" /\ sres[x] = r /\ sgen[x] = sgen[s] }
  IN
  /\ hinfo' = [h \in Hs |-> IF hinfo[h].slot = s THEN [hinfo[h] EXCEPT !.removed = TRUE] ELSE hinfo[h]]
  /\ CASE Mut = "removeAll"   -> /\ reg' = [x \in Slots |-> IF x \in same THEN <<>> ELSE reg[x]]
                                 /\ timers' = timers \ UNION { Range(reg[x]) : x \in same }
       [] Mut = "keepHandler" -> reg' = reg /\ timers' = timers \ Range(reg[s])
       [] OTHER               -> reg' = [reg EXCEPT ![s] = <<>>] /\ timers' = timers \ Range(reg[s])
  /\ recv' = Quiet
  /\ UNCHANGED <<st, sres, store, rvc, usedO, fRef, fShared, inf, sgen, lists>>
  /\ lop' = Lop(p, r, 0, FALSE, FALSE, lists[r], Zero)

\* an object event at the API server, delivered through the WATCH of a running informer
DoObj(p) ==
  LET r == p.r  o == p.o
      nv == IF p.t = "odel" THEN 0 ELSE p.rv
      e  == CASE p.t = "oadd" -> Ev("add", o, p.rv, 0)
              [] p.t = "oupd" -> Ev("upd", o, p.rv, store[r][o])
              [] p.t = "odel" -> Ev("del", o, p.rv, 0)
  IN
  /\ store' = [store EXCEPT ![r][o] = nv]
  /\ rvc' = p.rv
  /\ usedO' = IF Beh THEN [usedO EXCEPT ![r] = @ \cup {o}] ELSE usedO
  /\ inf' = IF inf[r].running THEN [inf EXCEPT ![r].cache[o] = nv] ELSE inf
  /\ recv' = [h \in Hs |-> IF inf[r].running /\ h \in Fan(r) THEN <<e>> ELSE <<>>]
  /\ UNCHANGED <<st, sres, hinfo, fRef, fShared, sgen, reg, timers, lists>>
  /\ lop' = Lop(p, r, store[r][o], FALSE, FALSE, lists[r], Zero)

\* a tick of the private resync goroutine of handler p.h (eventHandler.start)
DoTick(p) ==
  LET h == p.h  s == hinfo[h].slot  r == hinfo[h].r
      c == IF sgen[s] = inf[r].gen THEN inf[r].cache ELSE Zero
  IN
  /\ recv' = [i \in Hs |-> IF i = h THEN CacheSeq(c) ELSE <<>>]
  /\ UNCHANGED <<ghost, code>>
  /\ lop' = Lop(p, r, 0, FALSE, FALSE, lists[r], Zero)

\* end of a concurrent run (TraceInformers only): nothing happens, the state is observed
DoFinal(p) == /\ recv' = Quiet /\ UNCHANGED <<ghost, code>>
              /\ lop' = Lop(p, 0, 0, FALSE, FALSE, 0, Zero)

\* ---- what the PROPERTY expects after the step (declarative; printed with every Beh step)
StepEvent == CASE lop.t = "oadd" -> <<Ev("add", lop.o, lop.rv, 0)>>
               [] lop.t \in {"addev", "remev"} -> IF lop.orv = 0 THEN <<Ev("add", lop.o, lop.rv, 0)>> ELSE <<Ev("upd", lop.o, lop.rv, lop.orv)>>
               [] lop.t = "oupd" -> <<Ev("upd", lop.o, lop.rv, lop.orv)>>
               [] lop.t = "odel" -> <<Ev("del", lop.o, lop.rv, 0)>>
               [] OTHER -> <<>>
\* the real (non-replay) events an entitled handler must receive in this step, in order
MustReal(h) == IF lop.t \in {"oadd", "oupd", "odel", "addev", "remev"} /\ hinfo[h].r = lop.r THEN StepEvent ELSE <<>>
\* objects a handler added in this step must get replayed
MustReplay(h) == IF lop.t \in {"add", "addev"} /\ h = lop.h THEN { o \in Objs : lop.cached[o] > 0 } ELSE {}
ExpW == [r \in Res |-> IF Open(r) # {} THEN 1 ELSE 0]
Expect ==
  [op    |-> [t |-> lop.t, s |-> lop.s, r |-> lop.r, o |-> lop.o, own |-> lop.own, h |-> lop.h],
   w     |-> ExpW,
   ent   |-> { h \in Hs : Entitled(h) },
   must  |-> [h \in Hs |-> IF Entitled(h)
                             THEN [i \in DOMAIN MustReal(h) |-> [k |-> MustReal(h)[i].k, o |-> MustReal(h)[i].o]]
                             ELSE <<>>],
   rep   |-> [h \in Hs |-> MustReplay(h)],
   first |-> lop.first, last |-> lop.last]

Do(p) ==
  /\ Pre(p)
  /\ \/ p.t = "sub"   /\ DoSub(p)
     \/ p.t = "close" /\ DoClose(p)
     \/ p.t = "add"   /\ DoAdd(p)
     \/ p.t = "addev" /\ DoAddEv(p)
     \/ p.t = "remev" /\ DoRemEv(p)
     \/ p.t = "rem"   /\ DoRem(p)
     \/ p.t \in {"oadd", "oupd", "odel"} /\ DoObj(p)
     \/ p.t = "tick"  /\ DoTick(p)
     \/ p.t = "final" /\ DoFinal(p)
     \/ p.t = "subx"  /\ recv' = Quiet /\ UNCHANGED <<ghost, code>>           \* nothing changes, the state is observed
                       /\ lop' = Lop(p, p.r, 0, FALSE, FALSE, lists[p.r], Zero)
  /\ late' = IF p.t = "subx" THEN 0 ELSE late
  /\ n' = n + 1
  /\ hist' = IF Beh THEN Append(hist, Expect') ELSE hist

Ops ==
  {Op("sub", s, r, 0, FALSE, 0, 0) : s \in Slots, r \in Res}
  \cup {Op("add", s, 0, 0, own, Len(hinfo) + 1, 0) : s \in Slots, own \in BOOLEAN}
  \cup {Op(t, s, 0, 0, FALSE, 0, 0) : t \in {"rem", "close"}, s \in Slots}
  \cup {Op(t, 0, r, o, FALSE, 0, rvc + 1) : t \in {"oadd", "oupd", "odel"}, r \in Res, o \in Objs}
  \cup (IF Ticks THEN {Op("tick", 0, 0, 0, FALSE, h, 0) : h \in timers} ELSE {})
  \cup (IF AddEv THEN {Op("addev", s, 0, o, own, Len(hinfo) + 1, rvc + 1) : s \in Slots, o \in Objs, own \in BOOLEAN} ELSE {})
  \cup (IF AddEv THEN {Op("remev", s, 0, o, FALSE, 0, rvc + 1) : s \in Slots, o \in Objs} ELSE {})
  \cup (IF AddEv THEN {Op("subx", s, NR, 0, FALSE, 0, 0) : s \in Slots} ELSE {})

Next == n < MaxOps /\ \E p \in Ops : Do(p)
Spec == Init /\ [][Next]_vars

\* =======================================================================================
\* Observation derived from the code-level state
\* =======================================================================================
Reached(h) == LET r == hinfo[h].r IN inf[r].running /\ h \in Fan(r)
ModelObs ==
  [has    |-> TRUE,
   w      |-> [r \in Res |-> IF inf[r].running THEN 1 ELSE 0],
   lists  |-> lists,
   lister |-> [s \in Slots |-> IF st[s] = "open" /\ sgen[s] = inf[sres[s]].gen THEN inf[sres[s]].cache ELSE Zero],
   recv   |-> recv,
   \* (what the handlers removed by "remev" received in that step came BEFORE the removal returned)
   late   |-> [h \in Hs |-> IF hinfo[h].removed /\ ~(lop.t = "remev" /\ hinfo[h].slot = lop.s) THEN Len(recv[h]) ELSE 0],
   miss   |-> { h \in Hs : Entitled(h) /\ ~Reached(h) }]
ModelValid(r, o, rv) == o \in Objs /\ rv > 0 /\ rv <= rvc

\* =======================================================================================
\* The property, clause by clause, over (ghost state, lop, observation ob)
\* =======================================================================================
\* one underlying informer runs (one WATCH, caches current) while >= 1 subscription is open;
\* none otherwise
P_Running(ob) == ob.has => \A r \in Res :
  IF Open(r) # {} THEN ob.w[r] = 1 /\ \A s \in Open(r) : ob.lister[s] = store[r]
  ELSE ob.w[r] = 0
\* it is stopped when the last subscription closes
P_StopOnLast(ob) == (ob.has /\ lop.t = "close" /\ lop.last) => ob.w[lop.r] = 0
\* a subscription arriving when none is open starts a fresh (new LIST), working one;
\* lb = LIST calls seen before the step
P_Fresh(ob, lb) == (ob.has /\ lop.t = "sub" /\ lop.first) =>
  /\ ob.lists[lop.r] > lb /\ ob.w[lop.r] = 1 /\ ob.lister[lop.s] = store[lop.r]
\* replay of everything cached when the handler is added (OnUpdate(o,o) as the code does;
\* an OnAdd(o) would satisfy the statement as well)
IsResync(e) == e.k = "upd" /\ e.orv = e.rv
IsReplayOf(e, o, rv) == e.o = o /\ e.rv = rv /\ (e.k = "add" \/ IsResync(e))
P_Replay(ob) == (ob.has /\ lop.t \in {"add", "addev"}) =>
  \A o \in MustReplay(lop.h) : \E i \in DOMAIN ob.recv[lop.h] : IsReplayOf(ob.recv[lop.h][i], o, lop.cached[o])
\* every later event, exactly as the server produced it, in order; resync replays
\* (OnUpdate(o,o) of a version the object had) may come in any number; a later event
\* reaches it (miss)
Real(seq, h) == SelectSeq(seq, LAMBDA e :
  /\ ~IsResync(e)
  /\ ~(lop.t \in {"add", "addev"} /\ h = lop.h /\ e.k = "add" /\ e.o \in Objs /\ lop.cached[e.o] = e.rv))
P_Complete(ob, Valid(_, _, _)) == ob.has => \A h \in Hs : Entitled(h) =>
  /\ h \notin ob.miss
  /\ Real(ob.recv[h], h) = MustReal(h)
  /\ \A i \in DOMAIN ob.recv[h] : IsResync(ob.recv[h][i]) => Valid(hinfo[h].r, ob.recv[h][i].o, ob.recv[h][i].rv)
\* nothing after its subscription removed it
P_Silent(ob) == ob.has => \A h \in Hs : hinfo[h].removed => ob.late[h] = 0
\* removing one subscriber's handlers or closing its subscription never affects another
P_Isolation(ob) == (ob.has /\ lop.t \in {"rem", "close", "remev"}) =>
  /\ \A h \in Hs : (Entitled(h) /\ hinfo[h].slot # lop.s) => h \notin ob.miss
  /\ \A s \in Slots : (st[s] = "open" /\ s # lop.s) => ob.w[sres[s]] = 1 /\ ob.lister[s] = store[sres[s]]

\* ---- design-level statements on the model ---------------------------------------------
\* (action properties over the step's primed state: recv/lop are hidden by the VIEW, and
\* TLC evaluates action properties on every transition, also those into known states)
TypeOK == /\ n \in 0..MaxOps /\ DOMAIN recv = Hs
          /\ \A r \in Res : fRef[r] >= 0 /\ (fShared[r] <=> fRef[r] > 0) /\ (inf[r].running => fShared[r])
          /\ timers \subseteq Hs
Inv_Running          == P_Running(ModelObs)
C18_RunningIffSubscribed == [][P_Running(ModelObs)']_vars
C18_StopOnLast       == [][P_StopOnLast(ModelObs)']_vars
C18_FreshAfterRestart == [][P_Fresh(ModelObs, lop.lb)']_vars
C18_Replay           == [][P_Replay(ModelObs)']_vars
C18_Complete         == [][P_Complete(ModelObs, ModelValid)']_vars
C18_Silent           == [][P_Silent(ModelObs)']_vars
C18_Isolation        == [][P_Isolation(ModelObs)']_vars
\* the private timers die with removal (what makes C18_Silent hold for "own" handlers)
C18_TimersOfLiveHandlers == \A h \in timers : ~hinfo[h].removed

\* ---- scenario emission (Beh) ----------------------------------------------------------
Emit == (Beh /\ n = MaxOps) =>
          PrintT("SCN|" \o ToJson([ns |-> NS, nr |-> NR, no |-> NO, steps |-> hist,
                                   late |-> \E i \in DOMAIN hist : hist[i].op.t = "subx"]))
=============================================================================
