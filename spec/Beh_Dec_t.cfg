SPECIFICATION Spec
CONSTANTS
  EnvBudget = 2
  Beh = TRUE
  StatusSubs <- SubBoth
  Selections <- SelAll
  SelStyles <- StyAll
INVARIANTS Emit
CHECK_DEADLOCK FALSE
