---------------------------- MODULE TraceSync ----------------------------
(* Trace specification for every sync-level property.                                  *)
(*                                                                                     *)
(* One ndjson line = one step.  The trace is what the REAL controller code did while   *)
(* the harness replayed a TLC-generated scenario against the simulated API server.     *)
(*   - environment / server part is STRICT: the logged pre-state of every request must *)
(*     be the state this spec has reconstructed (continuity) and the logged outcome    *)
(*     must obey the API-server axioms E1..E5 of K8s.tla (else: BROKEN machinery);     *)
(*   - controller requests are admitted freely; every PROPERTY is a named reporting    *)
(*     monitor evaluated in the state BEFORE the event is applied, i.e. against the    *)
(*     store's pre-state, as the properties' observe_at clauses say.                   *)
(* A monitor that fails prints <<"MONITOR", property, name, scenario, line, facts>> and*)
(* the run continues, so one pass reports every violation of a batch of traces.        *)
EXTENDS Objects, Json, IOUtils

Trace == ndJsonDeserialize(IOEnv.VERIF_TRACE)
N     == Len(Trace)

VARIABLES l,      \* next trace line
          store,  \* Key -> projected object, as reconstructed from the trace
          cfg,    \* configuration of the current scenario (Reset event)
          ctx     \* actor -> context of its current sync
vars == <<l, store, cfg, ctx>>

Key(e) == <<e.kind, e.ns, e.name>>
ObjKey(o) == <<o.kind, o.ns, o.name>>
Lookup(f, k) == IF k \in DOMAIN f THEN f[k] ELSE AbsentObj

EmptySel == [ml |-> <<>>, me |-> <<>>]
NoResp == [children |-> <<>>, status |-> <<>>, hasStatus |-> FALSE, finalized |-> FALSE, resync |-> "0",
           labels |-> <<>>, annotations |-> <<>>, wellFormed |-> FALSE]
NoCtx == [active |-> FALSE, sid |-> 0, key |-> "", parent |-> AbsentObj, sel |-> EmptySel, selOK |-> FALSE,
          marker |-> "", obs |-> <<>>, seen |-> <<>>, rechecked |-> FALSE, nHooks |-> 0, resp |-> NoResp,
          hookParent |-> AbsentObj, finalizing |-> FALSE, hookCode |-> 0, gateBad |-> FALSE,
          childWrites |-> 0, childWritesAfterHook |-> 0, revWritesAfterChild |-> 0, revFailed |-> FALSE,
          childAfterRevFail |-> 0, finPut |-> "none", faults |-> 0, hookFail |-> FALSE,
          statusPuts |-> 0, lastParentGet |-> AbsentObj, conflictSeen |-> FALSE, failedReqs |-> <<>>]

E      == Trace[l]
HasE   == l <= N
IsEv(k) == HasE /\ E.ev = k

\* ---- scenario configuration ----------------------------------------------------------
ChildRes    == { cfg.children[i].res : i \in DOMAIN cfg.children }
ChildKinds  == { KindOfRes(r) : r \in ChildRes }
ParentKind  == IF "parentRes" \in DOMAIN cfg THEN KindOfRes(cfg.parentRes) ELSE "Parent"
IsDecorator == "kind" \in DOMAIN cfg /\ cfg.kind = "decorator"
GenSel      == "genSel" \in DOMAIN cfg /\ cfg.genSel
MethodOf(kind) ==
  LET is == { i \in DOMAIN cfg.children : KindOfRes(cfg.children[i].res) = kind }
  IN IF is = {} THEN "-" ELSE LET i == CHOOSE j \in is : TRUE IN
       IF "method" \in DOMAIN cfg.children[i] THEN cfg.children[i].method ELSE "-"
AnyRolling == \E i \in DOMAIN cfg.children : "method" \in DOMAIN cfg.children[i]
                 /\ cfg.children[i].method \in {"RollingRecreate", "RollingInPlace"}

\* ---- event classification ------------------------------------------------------------
Accepted(e)   == e.code >= 200 /\ e.code < 300
WriteVerbs    == {"update", "updateStatus", "jsonpatch", "apply", "delete", "patch", "create"}
IsChildReq(e) == e.kind \in ChildKinds
IsRevReq(e)   == e.kind = "ControllerRevision"
IsOwnedKind(e) == IsChildReq(e) \/ IsRevReq(e)
InSync(e)     == e.a \in DOMAIN ctx /\ ctx[e.a].active
C             == ctx[E.a]
PUid          == C.parent.uid
Observed(c, k) == IF k \in DOMAIN c.seen THEN c.seen[k] ELSE Lookup(c.obs, k)
ReqE == IsEv("Req") /\ InSync(E)

\* ---- reporting ------------------------------------------------------------------------
\* (a single string cannot be line-wrapped by TLC's pretty printer)
ReportS(prop, name, sig, facts) == PrintT("MONITOR|" \o prop \o "|" \o name \o "|" \o sig \o "|" \o E.sc \o "|" \o ToString(E.i) \o "|" \o ToJson(facts))
Report(prop, name, facts) == ReportS(prop, name, "-", facts)
Broken(what, facts)       == PrintT("BROKEN|" \o what \o "|" \o E.sc \o "|" \o ToString(E.i) \o "|" \o ToJson(facts))

\* =======================================================================================
\* Simulator conformance (environment axioms) -- strict part
\* =======================================================================================
TouchesStore == IsEv("Req") \/ IsEv("Env")
Continuity ==
  TouchesStore => (E.pre = Lookup(store, Key(E)) \/ Broken("continuity", <<Key(E), E.pre.rv, Lookup(store, Key(E)).rv>>))
AxiomRejectKeeps ==
  (IsEv("Req") /\ (~Accepted(E) \/ E.verb = "get")) => (E.post = E.pre \/ Broken("E-reject-keeps-state", Key(E)))
AxiomStaleRV ==
  (IsEv("Req") /\ E.verb \in {"update", "updateStatus"} /\ E.injected = -1 /\ E.pre.live /\ E.opt.rv # ""
     /\ E.body.uid \in {"", E.pre.uid})
  => ((ToString(E.pre.rv) = E.opt.rv) <=> Accepted(E)) \/ E.code \in {400, 404, 405, 422} \/ Broken("E1-stale-rv", <<Key(E), E.code>>)
AxiomUidPrecond ==
  (IsEv("Req") /\ E.verb = "delete" /\ E.injected = -1 /\ E.pre.live /\ E.opt.precondUid # "" /\ E.opt.precondUid # E.pre.uid)
  => (E.code = 409 \/ Broken("E2-uid-precondition", Key(E)))
AxiomCreateExisting ==
  (IsEv("Req") /\ E.verb = "create" /\ E.injected = -1 /\ E.pre.live) => (E.code = 409 \/ Broken("E1-create-existing", Key(E)))
AxiomOneController ==
  (TouchesStore /\ E.post.live) => (Cardinality(Controllers(E.post)) <= 1 \/ Broken("E3-one-controller", Key(E)))
AxiomIdentity ==
  (IsEv("Req") /\ Accepted(E) /\ E.pre.live /\ E.post.live /\ E.verb # "create")
  => ((E.post.uid = E.pre.uid /\ E.post.rv >= E.pre.rv) \/ Broken("E5-identity", Key(E)))
AxiomStatusSub ==
  (IsEv("Req") /\ Accepted(E) /\ E.verb = "updateStatus" /\ E.post.live)
  => (NoStatus(E.post) = NoStatus(E.pre) \/ Broken("E4-status-only", Key(E)))
AxiomInjected ==
  (IsEv("Req") /\ E.injected > 0) => (E.code = E.injected \/ Broken("fault-injection", Key(E)))
Axioms == /\ Continuity /\ AxiomRejectKeeps /\ AxiomStaleRV /\ AxiomUidPrecond /\ AxiomCreateExisting
          /\ AxiomOneController /\ AxiomIdentity /\ AxiomStatusSub /\ AxiomInjected

\* =======================================================================================
\* C02 -- only controlled objects are modified or deleted
\* =======================================================================================
MarkerKey == "metacontroller.k8s.io/decorator-controller"
HasMarker(o, c) == c.marker = "" \/ (MarkerKey \in DOMAIN o.ann /\ o.ann[MarkerKey] = c.marker)
\* the ownership edit that adopts a matching orphan: nothing but our reference is added
IsAdoption(e, c) ==
  /\ e.verb = "update" /\ e.pre.live /\ e.pre.ctrl = "" /\ e.post.live /\ e.post.ctrl = c.parent.uid
  /\ NoOwners(e.post) = NoOwners(e.pre)
  /\ OthersOf(e.post, c.parent.uid) = e.pre.owners
IsRelease(e, c) ==
  /\ e.verb = "update" /\ e.pre.live /\ e.pre.ctrl = c.parent.uid /\ e.post.live /\ e.post.ctrl # c.parent.uid
\* an accepted write that modifies or deletes an existing object (a PUT that changes nothing is
\* answered 200 without a new resourceVersion and modifies nothing)
ChildWrite(e) == IsOwnedKind(e) /\ e.verb \in (WriteVerbs \ {"create"}) /\ e.pre.live /\ e.post # e.pre

\* literal reading: controlled at the instant the server accepts the write
C02_WriteSafe ==
  (ReqE /\ ChildWrite(E) /\ Accepted(E))
  => \/ (E.pre.ctrl = PUid /\ HasMarker(E.pre, C))
     \/ (IsAdoption(E, C) /\ C.selOK /\ Matches(C.sel, E.pre.labels))
     \/ ReportS("C02", "C02_WriteSafe",
                \* known-finding signature: a delete pinned to the observed UID lands on an object whose
                \* controller reference was changed after (or unseen by) the observation
                IF E.verb = "delete" /\ Observed(C, Key(E)).live /\ Observed(C, Key(E)).uid = E.pre.uid
                   /\ Observed(C, Key(E)).ctrl = PUid /\ E.opt.precondUid = E.pre.uid
                THEN "Sig_C02_UidOnlyDelete"
                \* known-finding signature: an adoption decided on the cached labels lands on an orphan
                \* that was relabelled after (or unseen by) that observation
                ELSE IF IsAdoption(E, C) /\ C.selOK /\ Lookup(C.obs, Key(E)).live /\ Lookup(C.obs, Key(E)).uid = E.pre.uid
                        /\ Matches(C.sel, Lookup(C.obs, Key(E)).labels) /\ ~Matches(C.sel, E.pre.labels)
                THEN "Sig_C02_AdoptStaleLabels" ELSE "-",
                <<E.verb, Key(E), "ctrl", E.pre.ctrl, "parent", PUid,
                  "obsCtrl", Observed(C, Key(E)).ctrl, "obsUid", Observed(C, Key(E)).uid, "uid", E.pre.uid>>)
\* what the mechanisms guarantee: controlled in the version the actor observed AND the
\* request can only land on that identity (uid precondition / uid+rv in the body)
Pinned(e, o) == \/ (e.verb = "delete" /\ e.opt.precondUid = o.uid)
                \/ (e.verb \in {"update", "updateStatus"} /\ e.body.uid = o.uid /\ e.opt.rv # "")
C02_WriteSafeObserved ==
  (ReqE /\ ChildWrite(E) /\ Accepted(E))
  => LET o == Observed(C, Key(E)) IN
     \/ (o.live /\ o.ctrl = PUid /\ HasMarker(o, C) /\ Pinned(E, o))
     \/ (IsAdoption(E, C) /\ o.live /\ o.ctrl = "" /\ Pinned(E, o))
     \/ Report("C02", "C02_WriteSafeObserved", <<E.verb, Key(E), "obsCtrl", o.ctrl, "parent", PUid, "precond", E.opt.precondUid, "obsUid", o.uid>>)
C02_DeleteUidPrecond ==
  (ReqE /\ IsOwnedKind(E) /\ E.verb = "delete")
  => \/ (E.opt.precondUid # "" /\ (Key(E) \in DOMAIN C.obs => E.opt.precondUid = C.obs[Key(E)].uid))
     \/ Report("C02", "C02_DeleteUidPrecond", <<Key(E), E.opt.precondUid>>)
C02_BornOwned ==
  (ReqE /\ IsOwnedKind(E) /\ Accepted(E) /\ ~E.pre.live /\ E.post.live /\ E.verb \in {"create", "apply"})
  => \/ (E.post.ctrl = PUid /\ HasMarker(E.post, C))
     \/ Report("C02", "C02_BornOwned", <<E.verb, Key(E), "ctrl", E.post.ctrl>>)

\* =======================================================================================
\* C04 -- adoption, release and creation obey the ControllerRef rules
\* =======================================================================================
C04_AdoptOnlyIf ==
  (ReqE /\ IsOwnedKind(E) /\ Accepted(E) /\ E.pre.live /\ E.pre.ctrl = "" /\ E.post.live /\ E.post.ctrl = PUid /\ E.verb = "update")
  => LET o == Lookup(C.obs, Key(E)) IN
     \/ (/\ C.rechecked /\ ~C.parent.deleting
         /\ o.live /\ o.ctrl = "" /\ ~o.deleting /\ C.selOK /\ Matches(C.sel, o.labels))
     \/ Report("C04", "C04_AdoptOnlyIf", <<Key(E), "rechecked", C.rechecked, "parentDeleting", C.parent.deleting,
                                           "obsLive", o.live, "obsCtrl", o.ctrl, "obsDeleting", o.deleting>>)
C04_ReleaseShape ==
  (ReqE /\ IsOwnedKind(E) /\ Accepted(E) /\ IsRelease(E, C))
  => LET o == Lookup(C.obs, Key(E)) IN
     \/ (/\ E.post.owners = OthersOf(E.pre, PUid) /\ NoOwners(E.post) = NoOwners(E.pre)
         /\ ~C.parent.deleting /\ o.live /\ C.selOK /\ ~Matches(C.sel, o.labels))
     \/ Report("C04", "C04_ReleaseShape", <<Key(E), E.pre.owners, E.post.owners>>)
C04_OthersKept ==
  (ReqE /\ IsOwnedKind(E) /\ Accepted(E) /\ E.pre.live /\ E.post.live /\ E.verb \in {"update", "apply", "jsonpatch"})
  => \/ OthersOf(E.post, PUid) = OthersOf(E.pre, PUid)
     \/ Report("C04", "C04_OthersKept", <<Key(E), E.pre.owners, E.post.owners>>)
C04_OneController ==
  \A k \in DOMAIN store : Cardinality(Controllers(store[k])) <= 1
C04_DyingParentPassive ==
  (ReqE /\ IsOwnedKind(E) /\ C.parent.deleting /\ E.verb = "update" /\ E.pre.live /\ E.body.live)
  => \/ E.body.owners = E.pre.owners
     \/ Report("C04", "C04_DyingParentPassive", <<Key(E)>>)
\* a desired child that would not match the selector: nothing is written, the sync errs
C04_LabelGate ==
  /\ (ReqE /\ IsChildReq(E) /\ C.gateBad /\ C.nHooks = 1 /\ E.verb \in WriteVerbs)
       => (IsAdoption(E, C) \/ IsRelease(E, C) \/ C.nHooks = 0
           \/ Report("C04", "C04_LabelGate", <<"write after rejected response", E.verb, Key(E)>>))
  /\ (IsEv("SyncEnd") /\ E.a \in DOMAIN ctx /\ ctx[E.a].gateBad /\ ctx[E.a].nHooks = 1)
       => (E.result = "error" \/ Report("C04", "C04_LabelGate", <<"no error", E.result>>))
C04_GeneratedLabel ==
  (ReqE /\ IsChildReq(E) /\ GenSel /\ ~IsDecorator /\ E.verb = "create" /\ Accepted(E))
  => \/ ("controller-uid" \in DOMAIN E.post.labels /\ E.post.labels["controller-uid"] = PUid)
     \/ Report("C04", "C04_GeneratedLabel", <<Key(E), E.post.labels>>)

\* =======================================================================================
\* C17(a) -- shared caches stay read-only
\* =======================================================================================
C17_CacheFrozen ==
  ((IsEv("SyncEnd") \/ IsEv("Deliver")) /\ E.fpDiff # <<>>) => Report("C17", "C17_CacheFrozen", E.fpDiff)

\* =======================================================================================
\* state update
\* =======================================================================================
StoreOfK(objs) == [k \in { ObjKey(objs[i]) : i \in DOMAIN objs } |->
                     objs[CHOOSE i \in DOMAIN objs : ObjKey(objs[i]) = k]]
\* responses whose children would not satisfy the selector (label invariant)
RespBad(c, resp) == ~IsDecorator /\ ~GenSel /\ c.selOK
                    /\ \E i \in DOMAIN resp.children : ~Matches(c.sel, resp.children[i].labels)

Put(e) == IF e.post = e.pre THEN store ELSE (Key(e) :> e.post) @@ store

CtxAfterReq(c, e) ==
  LET isParentGet == e.verb = "get" /\ e.kind = ParentKind /\ e.name = c.parent.name /\ e.ns = c.parent.ns
      childMut    == IsChildReq(e) /\ e.verb \in WriteVerbs /\ ~IsAdoption(e, c) /\ ~IsRelease(e, c)
      revMut      == IsRevReq(e) /\ e.verb \in WriteVerbs /\ ~IsAdoption(e, c) /\ ~IsRelease(e, c)
  IN [c EXCEPT
        !.rechecked = @ \/ (isParentGet /\ Accepted(e) /\ e.got.uid = c.parent.uid /\ ~e.got.deleting),
        !.seen = IF e.verb = "get" /\ Accepted(e) THEN (Key(e) :> e.got) @@ @
                 ELSE IF e.verb \in {"update", "updateStatus", "create", "apply", "jsonpatch"} /\ Accepted(e) /\ e.post.live
                      THEN (Key(e) :> e.post) @@ @      \* the response of an accepted write is an observation too
                 ELSE @,
        !.lastParentGet = IF isParentGet /\ Accepted(e) THEN e.got ELSE @,
        !.childWrites = IF childMut THEN @ + 1 ELSE @,
        !.childWritesAfterHook = IF childMut /\ c.nHooks > 0 THEN @ + 1 ELSE @,
        !.revWritesAfterChild = IF revMut /\ c.childWrites > 0 THEN @ + 1 ELSE @,
        !.revFailed = @ \/ (revMut /\ ~Accepted(e)),
        !.childAfterRevFail = IF childMut /\ c.revFailed THEN @ + 1 ELSE @,
        !.faults = IF e.injected # -1 THEN @ + 1 ELSE @,
        !.conflictSeen = @ \/ (e.code = 409),
        !.statusPuts = IF e.kind = ParentKind /\ e.verb \in {"update", "updateStatus"} THEN @ + 1 ELSE @,
        !.failedReqs = IF ~Accepted(e) THEN Append(@, <<e.verb, e.kind, e.name, e.code>>) ELSE @ ]

CtxAfterHook(c, e) ==
  IF e.hook = "customize" THEN c
  ELSE [c EXCEPT !.nHooks = @ + 1,
                 !.resp = IF e.code = 200 THEN e.resp ELSE @,
                 !.hookParent = e.req.parent,
                 !.finalizing = e.req.finalizing,
                 !.hookCode = e.code,
                 !.hookFail = @ \/ e.code # 200,
                 !.gateBad = @ \/ (e.code = 200 /\ RespBad(c, e.resp))]

NewCtx(e) ==
  [NoCtx EXCEPT !.active = TRUE, !.sid = e.sid, !.key = e.key, !.parent = e.parent,
                !.sel = IF "sel" \in DOMAIN e THEN e.sel ELSE EmptySel,
                !.selOK = IF "selOK" \in DOMAIN e THEN e.selOK ELSE FALSE,
                !.marker = IF "marker" \in DOMAIN e THEN e.marker ELSE "",
                !.obs = StoreOfK(e.cache)]

Init == l = 1 /\ store = <<>> /\ cfg = [children |-> <<>>] /\ ctx = <<>>

Next ==
  /\ HasE
  /\ l' = l + 1
  /\ CASE E.ev = "Reset"     -> store' = StoreOfK(E.objs) /\ cfg' = E.cfg /\ ctx' = <<>>
       [] E.ev = "Env"       -> store' = Put(E) /\ UNCHANGED <<cfg, ctx>>
       [] E.ev = "Req"       -> /\ store' = Put(E) /\ UNCHANGED cfg
                                /\ ctx' = IF InSync(E) THEN [ctx EXCEPT ![E.a] = CtxAfterReq(@, E)] ELSE ctx
       [] E.ev = "Hook"      -> /\ UNCHANGED <<store, cfg>>
                                /\ ctx' = IF InSync(E) THEN [ctx EXCEPT ![E.a] = CtxAfterHook(@, E)] ELSE ctx
       [] E.ev = "SyncStart" -> UNCHANGED <<store, cfg>> /\ ctx' = (E.a :> NewCtx(E)) @@ ctx
       [] E.ev = "SyncEnd"   -> /\ UNCHANGED <<store, cfg>>
                                /\ ctx' = IF E.a \in DOMAIN ctx THEN [ctx EXCEPT ![E.a].active = FALSE] ELSE ctx
       [] OTHER              -> UNCHANGED <<store, cfg, ctx>>

Spec == Init /\ [][Next]_vars

\* every line consumed: the spec never gets stuck on an event
TraceAccepted == TLCGet("stats").diameter - 1 = N
=============================================================================
