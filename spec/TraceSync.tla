---------------------------- MODULE TraceSync ----------------------------
(* Trace specification for every sync-level property.                                  *)
(*                                                                                     *)
(* One ndjson line = one step.  The trace is what the REAL controller code did while   *)
(* the harness replayed a TLC-generated scenario against the simulated API server.     *)
(*   - environment / server part is STRICT: the logged pre-state of every request must *)
(*     be the state this spec has reconstructed (continuity) and the logged outcome    *)
(*     must obey the API-server axioms E1..E5 of K8s.tla (else: BROKEN machinery);     *)
(*   - controller requests are admitted freely; every PROPERTY is a named reporting    *)
(*     monitor evaluated in the state BEFORE the event is applied, i.e. against the    *)
(*     store's pre-state, as the properties' observe_at clauses say.                   *)
(* A monitor that fails prints <<"MONITOR", property, name, scenario, line, facts>> and*)
(* the run continues, so one pass reports every violation of a batch of traces.        *)
EXTENDS Objects, Json, IOUtils

Trace == ndJsonDeserialize(IOEnv.VERIF_TRACE)
N     == Len(Trace)

VARIABLES l,      \* next trace line
          store,  \* Key -> projected object, as reconstructed from the trace
          cfg,    \* configuration of the current scenario (Reset event)
          expect, \* property-level expectations TLC printed with the scenario (Reset event)
          ctx     \* actor -> context of its current (or last) sync
vars == <<l, store, cfg, expect, ctx>>

Key(e) == <<e.kind, e.ns, e.name>>
ObjKey(o) == <<o.kind, o.ns, o.name>>
Lookup(f, k) == IF k \in DOMAIN f THEN f[k] ELSE AbsentObj

EmptySel == [ml |-> <<>>, me |-> <<>>]
NoResp == [children |-> <<>>, status |-> <<>>, hasStatus |-> FALSE, finalized |-> FALSE, resync |-> "0",
           labels |-> <<>>, annotations |-> <<>>, wellFormed |-> FALSE]
NoCtx == [active |-> FALSE, sid |-> 0, key |-> "", parent |-> AbsentObj, sel |-> EmptySel, selOK |-> FALSE,
          marker |-> "", obs |-> <<>>, seen |-> <<>>, rechecked |-> FALSE, nHooks |-> 0, resp |-> NoResp,
          hookParent |-> AbsentObj, finalizing |-> FALSE, hookCode |-> 0, gateBad |-> FALSE,
          childWrites |-> 0, childWritesAfterHook |-> 0, revWritesAfterChild |-> 0, revFailed |-> FALSE,
          childAfterRevFail |-> 0, finPut |-> "none", faults |-> 0, hookFail |-> FALSE,
          statusPuts |-> 0, lastParentGet |-> AbsentObj, conflictSeen |-> FALSE, failedReqs |-> <<>>,
          fin |-> "", cur |-> AbsentObj, adopted |-> {}, released |-> {}, issued |-> {}, allFinalized |-> TRUE,
          needFreshGet |-> FALSE, wrote |-> FALSE, childReqs |-> 0, atFix |-> FALSE, fresh |-> FALSE,
          prevQuiet |-> FALSE, hookOK |-> FALSE, nonBenign |-> FALSE, hook429 |-> FALSE, childFault |-> FALSE,
          statusConflict |-> FALSE, parentGone |-> FALSE, claimFail |-> FALSE, revWrites |-> 0,
          hookReq |-> [children |-> <<>>], result |-> "", parentChanged |-> FALSE, parentReqsAfterHook |-> 0,
          store0 |-> <<>>, hookSeq |-> <<>>, okEtags |-> {}, allOK |-> TRUE, statusConflicts |-> 0, finGone |-> FALSE]

E      == Trace[l]
HasE   == l <= N
IsEv(k) == HasE /\ E.ev = k

\* ---- scenario configuration ----------------------------------------------------------
ChildRes    == { cfg.children[i].res : i \in DOMAIN cfg.children }
ChildKinds  == { KindOfRes(r) : r \in ChildRes }
ParentKind  == IF "parentRes" \in DOMAIN cfg THEN KindOfRes(cfg.parentRes) ELSE "Parent"
IsDecorator == "kind" \in DOMAIN cfg /\ cfg.kind = "decorator"
GenSel      == "genSel" \in DOMAIN cfg /\ cfg.genSel
MethodOf(kind) ==
  LET is == { i \in DOMAIN cfg.children : KindOfRes(cfg.children[i].res) = kind }
  IN IF is = {} THEN "-" ELSE LET i == CHOOSE j \in is : TRUE IN
       IF "method" \in DOMAIN cfg.children[i] THEN cfg.children[i].method ELSE "-"
AnyRolling == \E i \in DOMAIN cfg.children : "method" \in DOMAIN cfg.children[i]
                 /\ cfg.children[i].method \in {"RollingRecreate", "RollingInPlace"}

\* ---- event classification ------------------------------------------------------------
Accepted(e)   == e.code >= 200 /\ e.code < 300
WriteVerbs    == {"update", "updateStatus", "jsonpatch", "apply", "delete", "patch", "create"}
IsChildReq(e) == e.kind \in ChildKinds
IsRevReq(e)   == e.kind = "ControllerRevision"
IsOwnedKind(e) == IsChildReq(e) \/ IsRevReq(e)
InSync(e)     == e.a \in DOMAIN ctx /\ ctx[e.a].active
C             == ctx[E.a]
PUid          == C.parent.uid
Observed(c, k) == IF k \in DOMAIN c.seen THEN c.seen[k] ELSE Lookup(c.obs, k)
ReqE == IsEv("Req") /\ InSync(E)

\* ---- reporting ------------------------------------------------------------------------
\* (a single string cannot be line-wrapped by TLC's pretty printer)
ReportS(prop, name, sig, facts) == PrintT("MONITOR|" \o prop \o "|" \o name \o "|" \o sig \o "|" \o E.sc \o "|" \o ToString(E.i) \o "|" \o ToJson(facts))
Report(prop, name, facts) == ReportS(prop, name, "-", facts)
Broken(what, facts)       == PrintT("BROKEN|" \o what \o "|" \o E.sc \o "|" \o ToString(E.i) \o "|" \o ToJson(facts))

\* =======================================================================================
\* Simulator conformance (environment axioms) -- strict part
\* =======================================================================================
TouchesStore == IsEv("Req") \/ IsEv("Env")
Continuity ==
  TouchesStore => (E.pre = Lookup(store, Key(E)) \/ Broken("continuity", <<Key(E), E.pre.rv, Lookup(store, Key(E)).rv>>))
AxiomRejectKeeps ==
  (IsEv("Req") /\ (~Accepted(E) \/ E.verb = "get")) => (E.post = E.pre \/ Broken("E-reject-keeps-state", Key(E)))
AxiomStaleRV ==
  (IsEv("Req") /\ E.verb \in {"update", "updateStatus"} /\ E.injected = -1 /\ E.pre.live /\ E.opt.rv # ""
     /\ E.body.uid \in {"", E.pre.uid})
  => ((ToString(E.pre.rv) = E.opt.rv) <=> Accepted(E)) \/ E.code \in {400, 404, 405, 422} \/ Broken("E1-stale-rv", <<Key(E), E.code>>)
AxiomUidPrecond ==
  (IsEv("Req") /\ E.verb = "delete" /\ E.injected = -1 /\ E.pre.live /\ E.opt.precondUid # "" /\ E.opt.precondUid # E.pre.uid)
  => (E.code = 409 \/ Broken("E2-uid-precondition", Key(E)))
AxiomCreateExisting ==
  (IsEv("Req") /\ E.verb = "create" /\ E.injected = -1 /\ E.pre.live) => (E.code = 409 \/ Broken("E1-create-existing", Key(E)))
AxiomOneController ==
  (TouchesStore /\ E.post.live) => (Cardinality(Controllers(E.post)) <= 1 \/ Broken("E3-one-controller", Key(E)))
AxiomIdentity ==
  (IsEv("Req") /\ Accepted(E) /\ E.pre.live /\ E.post.live /\ E.verb # "create")
  => ((E.post.uid = E.pre.uid /\ E.post.rv >= E.pre.rv) \/ Broken("E5-identity", Key(E)))
AxiomStatusSub ==
  (IsEv("Req") /\ Accepted(E) /\ E.verb = "updateStatus" /\ E.post.live)
  => (NoStatus(E.post) = NoStatus(E.pre) \/ Broken("E4-status-only", Key(E)))
AxiomInjected ==
  (IsEv("Req") /\ E.injected > 0) => (E.code = E.injected \/ Broken("fault-injection", Key(E)))
Axioms == /\ Continuity /\ AxiomRejectKeeps /\ AxiomStaleRV /\ AxiomUidPrecond /\ AxiomCreateExisting
          /\ AxiomOneController /\ AxiomIdentity /\ AxiomStatusSub /\ AxiomInjected

\* =======================================================================================
\* C02 -- only controlled objects are modified or deleted
\* =======================================================================================
MarkerKey == "metacontroller.k8s.io/decorator-controller"
HasMarker(o, c) == c.marker = "" \/ (MarkerKey \in DOMAIN o.ann /\ o.ann[MarkerKey] = c.marker)
\* the ownership edit that adopts a matching orphan: nothing but our reference is added
IsAdoption(e, c) ==
  /\ e.verb = "update" /\ e.pre.live /\ e.pre.ctrl = "" /\ e.post.live /\ e.post.ctrl = c.parent.uid
  /\ NoOwners(e.post) = NoOwners(e.pre)
  /\ OthersOf(e.post, c.parent.uid) = e.pre.owners
IsRelease(e, c) ==
  /\ e.verb = "update" /\ e.pre.live /\ e.pre.ctrl = c.parent.uid /\ e.post.live /\ e.post.ctrl # c.parent.uid
\* an accepted write that modifies or deletes an existing object (a PUT that changes nothing is
\* answered 200 without a new resourceVersion and modifies nothing)
ChildWrite(e) == IsOwnedKind(e) /\ e.verb \in (WriteVerbs \ {"create"}) /\ e.pre.live /\ e.post # e.pre

\* literal reading: controlled at the instant the server accepts the write
C02_WriteSafe ==
  (ReqE /\ ChildWrite(E) /\ Accepted(E))
  => \/ (E.pre.ctrl = PUid /\ HasMarker(E.pre, C))
     \/ (IsAdoption(E, C) /\ C.selOK /\ Matches(C.sel, E.pre.labels))
     \/ ReportS("C02", "C02_WriteSafe",
                \* known-finding signature: a delete pinned to the observed UID lands on an object whose
                \* controller reference was changed after (or unseen by) the observation
                IF E.verb = "delete" /\ Observed(C, Key(E)).live /\ Observed(C, Key(E)).uid = E.pre.uid
                   /\ Observed(C, Key(E)).ctrl = PUid /\ E.opt.precondUid = E.pre.uid
                THEN "Sig_C02_UidOnlyDelete"
                \* known-finding signature: an adoption decided on the cached labels lands on an orphan
                \* that was relabelled after (or unseen by) that observation
                ELSE IF IsAdoption(E, C) /\ C.selOK /\ Lookup(C.obs, Key(E)).live /\ Lookup(C.obs, Key(E)).uid = E.pre.uid
                        /\ Matches(C.sel, Lookup(C.obs, Key(E)).labels) /\ ~Matches(C.sel, E.pre.labels)
                THEN "Sig_C02_AdoptStaleLabels"
                \* known-finding signature: the server-side-apply branch addresses children by NAME with force and without
                \* any uid / resourceVersion condition; here it landed on an object that is not (any more) controlled by the
                \* parent but is not controlled by anybody else either
                ELSE IF E.verb \in {"apply", "jsonpatch"} /\ E.pre.ctrl = ""
                THEN "Sig_C02_SsaByName" ELSE "-",
                <<E.verb, Key(E), "ctrl", E.pre.ctrl, "parent", PUid,
                  "obsCtrl", Observed(C, Key(E)).ctrl, "obsUid", Observed(C, Key(E)).uid, "uid", E.pre.uid>>)
\* what the mechanisms guarantee: controlled in the version the actor observed AND the
\* request can only land on that identity (uid precondition / uid+rv in the body)
Pinned(e, o) == \/ (e.verb = "delete" /\ e.opt.precondUid = o.uid)
                \/ (e.verb \in {"update", "updateStatus"} /\ e.body.uid = o.uid /\ e.opt.rv # "")
C02_WriteSafeObserved ==
  (ReqE /\ ChildWrite(E) /\ Accepted(E))
  => LET o == Observed(C, Key(E)) IN
     \/ (o.live /\ o.ctrl = PUid /\ HasMarker(o, C) /\ Pinned(E, o))
     \/ (IsAdoption(E, C) /\ o.live /\ o.ctrl = "" /\ Pinned(E, o))
     \/ ReportS("C02", "C02_WriteSafeObserved",
                IF E.verb \in {"apply", "jsonpatch"} /\ E.pre.ctrl \in {"", PUid} THEN "Sig_C02_SsaByName" ELSE "-",
                <<E.verb, Key(E), "obsCtrl", o.ctrl, "parent", PUid, "precond", E.opt.precondUid, "obsUid", o.uid>>)
C02_DeleteUidPrecond ==
  (ReqE /\ IsOwnedKind(E) /\ E.verb = "delete")
  => \/ (E.opt.precondUid # "" /\ (Key(E) \in DOMAIN C.obs => E.opt.precondUid = C.obs[Key(E)].uid))
     \/ Report("C02", "C02_DeleteUidPrecond", <<Key(E), E.opt.precondUid>>)
C02_BornOwned ==
  (ReqE /\ IsOwnedKind(E) /\ Accepted(E) /\ ~E.pre.live /\ E.post.live /\ E.verb \in {"create", "apply"})
  => \/ (E.post.ctrl = PUid /\ HasMarker(E.post, C))
     \/ Report("C02", "C02_BornOwned", <<E.verb, Key(E), "ctrl", E.post.ctrl>>)

\* =======================================================================================
\* C04 -- adoption, release and creation obey the ControllerRef rules
\* =======================================================================================
\* an owned child whose labels stopped matching the selector is released (its controller reference removed) by the next
\* sync of a live parent that gets as far as calling its hook
C04_ReleaseDue ==
  (IsEv("SyncEnd") /\ ~IsDecorator /\ E.a \in DOMAIN ctx /\ ctx[E.a].active /\ ctx[E.a].nHooks > 0 /\ ctx[E.a].selOK
     /\ ~ctx[E.a].parent.deleting /\ ctx[E.a].fresh)
  => LET c == ctx[E.a] IN
     \A k \in DOMAIN c.obs :
        (c.obs[k].kind \in ChildKinds /\ c.obs[k].ctrl = c.parent.uid /\ ~Matches(c.sel, c.obs[k].labels)
           /\ (c.parent.ns # "" => c.obs[k].ns = c.parent.ns))
        => \/ k \in c.released
           \/ \E i \in DOMAIN c.failedReqs : c.failedReqs[i][2] = k[1] /\ c.failedReqs[i][3] = k[3]
           \/ ~Lookup(store, k).live \/ Lookup(store, k).ctrl # c.parent.uid \/ Lookup(store, k).uid # c.obs[k].uid
           \/ Report("C04", "C04_ReleaseDue", <<"owned child that no longer matches was not released", k>>)
C04_AdoptOnlyIf ==
  (ReqE /\ IsOwnedKind(E) /\ Accepted(E) /\ E.pre.live /\ E.pre.ctrl = "" /\ E.post.live /\ E.post.ctrl = PUid /\ E.verb = "update")
  => LET o == Lookup(C.obs, Key(E)) IN
     \/ (/\ C.rechecked /\ ~C.parent.deleting
         /\ o.live /\ o.ctrl = "" /\ ~o.deleting /\ C.selOK /\ Matches(C.sel, o.labels))
     \/ Report("C04", "C04_AdoptOnlyIf", <<Key(E), "rechecked", C.rechecked, "parentDeleting", C.parent.deleting,
                                           "obsLive", o.live, "obsCtrl", o.ctrl, "obsDeleting", o.deleting>>)
C04_ReleaseShape ==
  (ReqE /\ IsOwnedKind(E) /\ Accepted(E) /\ IsRelease(E, C))
  => LET o == Lookup(C.obs, Key(E)) IN
     \/ (/\ E.post.owners = OthersOf(E.pre, PUid) /\ NoOwners(E.post) = NoOwners(E.pre)
         /\ ~C.parent.deleting /\ o.live /\ C.selOK /\ ~Matches(C.sel, o.labels))
     \/ Report("C04", "C04_ReleaseShape", <<Key(E), E.pre.owners, E.post.owners>>)
C04_OthersKept ==
  (ReqE /\ IsOwnedKind(E) /\ Accepted(E) /\ E.pre.live /\ E.post.live /\ E.verb \in {"update", "apply", "jsonpatch"})
  => \/ OthersOf(E.post, PUid) = OthersOf(E.pre, PUid)
     \/ Report("C04", "C04_OthersKept", <<Key(E), E.pre.owners, E.post.owners>>)
C04_OneController ==
  \A k \in DOMAIN store : Cardinality(Controllers(store[k])) <= 1
C04_DyingParentPassive ==
  (ReqE /\ IsOwnedKind(E) /\ C.parent.deleting /\ E.verb = "update" /\ E.pre.live /\ E.body.live /\ C.nHooks = 0)
  => \/ E.body.owners = E.pre.owners
     \/ Report("C04", "C04_DyingParentPassive", <<Key(E)>>)
\* a desired child that would not match the selector: nothing is written, the sync errs
C04_LabelGate ==
  /\ (ReqE /\ IsChildReq(E) /\ C.gateBad /\ C.nHooks = 1 /\ E.verb \in WriteVerbs)
       => (IsAdoption(E, C) \/ IsRelease(E, C) \/ C.nHooks = 0
           \/ Report("C04", "C04_LabelGate", <<"write after rejected response", E.verb, Key(E)>>))
  /\ (IsEv("SyncEnd") /\ E.a \in DOMAIN ctx /\ ctx[E.a].gateBad /\ ctx[E.a].nHooks = 1)
       => (E.result = "error" \/ Report("C04", "C04_LabelGate", <<"no error", E.result>>))
C04_GeneratedLabel ==
  (ReqE /\ IsChildReq(E) /\ GenSel /\ ~IsDecorator /\ E.verb = "create" /\ Accepted(E))
  => \/ ("controller-uid" \in DOMAIN E.post.labels /\ E.post.labels["controller-uid"] = PUid)
     \/ Report("C04", "C04_GeneratedLabel", <<Key(E), E.post.labels>>)

\* =======================================================================================
\* helpers over the per-sync context
\* =======================================================================================
\* finalizer-managing configuration
FinOn == "finalize" \in DOMAIN cfg /\ cfg.finalize
HasFin(o, c) == c.fin # "" /\ c.fin \in Range(o.fins)
GCFin(o) == \E f \in Range(o.fins) : f \in {"foregroundDeletion", "orphan"}
\* the parent version the sync works from (cached, or as returned by the finalizer update)
Cur(c) == IF c.cur.live THEN c.cur ELSE c.parent
ParentKeyOf(c) == ObjKey(c.parent)
IsParentReq(e, c) == e.kind = c.parent.kind /\ e.name = c.parent.name /\ e.ns = c.parent.ns
\* controller-level parent selector (CompositeController.spec.parentResource.labelSelector /
\* DecoratorController resource rule: label AND annotation selector)
SelMl(x, f) == IF f \in DOMAIN x THEN x[f] ELSE <<>>
SelMe(x) == IF "matchExpressions" \in DOMAIN x
            THEN [i \in DOMAIN x.matchExpressions |-> [key |-> x.matchExpressions[i].key, op |-> x.matchExpressions[i].operator,
                                                        values |-> IF "values" \in DOMAIN x.matchExpressions[i] THEN x.matchExpressions[i].values ELSE <<>>]]
            ELSE <<>>
CtlSel == IF "parentSel" \in DOMAIN cfg THEN [ml |-> SelMl(cfg.parentSel, "matchLabels"), me |-> SelMe(cfg.parentSel)]
          ELSE IF "dselLabels" \in DOMAIN cfg THEN [ml |-> SelMl(cfg.dselLabels, "matchLabels"), me |-> SelMe(cfg.dselLabels)]
          ELSE EmptySel
CtlAnnSel == IF "dselAnn" \in DOMAIN cfg THEN [ml |-> SelMl(cfg.dselAnn, "matchAnnotations"), me |-> SelMe(cfg.dselAnn)] ELSE EmptySel
CtlMatches(o) == Matches(CtlSel, o.labels) /\ Matches(CtlAnnSel, o.ann)
\* desired children of the (single) hook answer of this sync, by key; namespace defaults to the parent's
DesKey(c, d) == <<d.kind, IF d.ns = "" /\ d.kind \notin {"CThing"} THEN c.parent.ns ELSE d.ns, d.name>>
DesiredKeys(c) == { DesKey(c, c.resp.children[i]) : i \in DOMAIN c.resp.children }
DesiredOf(c, k) == c.resp.children[CHOOSE i \in DOMAIN c.resp.children : DesKey(c, c.resp.children[i]) = k]
\* children the sync treats as owned: observed (cache) owned+matching, plus adopted, minus released
OwnedObs(c) == { k \in DOMAIN c.obs :
                   /\ c.obs[k].kind \in ChildKinds
                   /\ \/ (c.obs[k].ctrl = c.parent.uid /\ HasMarker(c.obs[k], c) /\ (IsDecorator \/ (c.selOK /\ Matches(c.sel, c.obs[k].labels))))
                      \/ k \in c.adopted
                   /\ k \notin c.released
                   /\ (c.parent.ns # "" => c.obs[k].ns = c.parent.ns) }
\* the sync got as far as reconciling children: one hook answer, accepted
\* (scenarios that serve deliberately malformed responses are judged by C13 only)
\* during a rolling update the hook is called once per live parent revision; the answer in force for the parent's status
\* is the one given for the parent as it is (the latest revision; the others are asked about a patched copy)
RespInForce(c) == IF c.nHooks = 1 THEN {c.resp}
                  ELSE { c.hookSeq[i].resp : i \in { j \in DOMAIN c.hookSeq : c.hookSeq[j].code = 200 /\ c.hookSeq[j].parent.fields = c.parent.fields } }
Reached(c) == c.nHooks = 1 /\ c.hookOK /\ ~c.gateBad /\ "shape" \notin DOMAIN expect
ReachedR(c) == /\ c.nHooks >= 1 /\ (c.nHooks > 1 => AnyRolling) /\ c.allOK /\ ~c.gateBad /\ "shape" \notin DOMAIN expect
               /\ RespInForce(c) # {}
\* desired state already reflected by the observed object (3-way merge would be a no-op):
\* last-applied equals desired, and every desired field/label is present with that value
LAOf(d) == [p \in { q \in DOMAIN d.fields : TRUE } |-> d.fields[p]]
SameAsDesired(o, d) ==
  \* (the hook says nothing about metadata the merge treats specially; a last-applied annotation handed back inside the
  \* desired child is not part of the desired state: it is dropped before merging and recording)
  /\ d.owners = <<>> /\ d.fins = <<>> /\ d.rv = 0 /\ d.uid = ""
  /\ SubFn(d.fields, o.fields) /\ SubFn(d.labels, o.labels) /\ SubFn(d.ann, o.ann)
  /\ o.hasLA
  /\ \A p \in DOMAIN d.fields : p \in DOMAIN o.la /\ o.la[p] = d.fields[p]
  \* (a status handed back inside the desired child is recorded with the rest of it)
  /\ \A sp \in DOMAIN d.status : ("status." \o sp) \in DOMAIN o.la /\ o.la["status." \o sp] = d.status[sp]
  /\ \A p \in DOMAIN o.la : \/ p \in DOMAIN d.fields
                            \/ \E sp \in DOMAIN d.status : p = "status." \o sp
                            \/ p \in {"apiVersion", "kind", "metadata.name", "metadata.namespace"}
                            \/ \E lk \in DOMAIN d.labels : p = "metadata.labels." \o lk
                            \/ \E ak \in DOMAIN d.ann : p = "metadata.annotations." \o ak
  /\ \A lk \in DOMAIN d.labels : ("metadata.labels." \o lk) \in DOMAIN o.la
  \* (the namespace of a namespaced child is defaulted from the parent before the desired object is recorded)
  /\ (o.ns = "" <=> "metadata.namespace" \notin DOMAIN o.la)
  \* a desired child that carried nothing but the last-applied annotation is recorded with an EMPTY annotations map
  /\ (d.hasLA /\ d.ann = <<>>) => "metadata.annotations" \in DOMAIN o.la
DiffersInOwned(o, d) == ~SubFn(d.fields, o.fields) \/ ~SubFn(d.labels, o.labels)

\* =======================================================================================
\* C01 -- convergence, then quiescence
\* =======================================================================================
HasExpect(f) == f \in DOMAIN expect
FixKeys == { <<expect.fix[i].kind, expect.fix[i].ns, expect.fix[i].name>> : i \in DOMAIN expect.fix }
FixOf(k) == expect.fix[CHOOSE i \in DOMAIN expect.fix : <<expect.fix[i].kind, expect.fix[i].ns, expect.fix[i].name>> = k]
OwnedNow(st) == { k \in DOMAIN st : st[k].live /\ st[k].kind \in ChildKinds /\ st[k].ctrl = expect.parentUid
                                     /\ (expect.parentNs = "" \/ st[k].ns = expect.parentNs)
                                     /\ (expect.marker = "" \/ (MarkerKey \in DOMAIN st[k].ann /\ st[k].ann[MarkerKey] = expect.marker)) }
\* nothing left to adopt or release (composite): no matching live orphan, no owned non-matching child
ClaimsSettled(st) ==
  "sel" \notin DOMAIN expect
  \/ \A k \in DOMAIN st : (st[k].live /\ st[k].kind \in ChildKinds /\ (expect.parentNs = "" \/ st[k].ns = expect.parentNs))
        => /\ ~(st[k].ctrl = "" /\ ~st[k].deleting /\ Matches(expect.sel, st[k].labels))
           /\ ~(st[k].ctrl = expect.parentUid /\ ~Matches(expect.sel, st[k].labels))
AtFix(st) == /\ OwnedNow(st) = FixKeys
             /\ ClaimsSettled(st)
             /\ expect.updatable => \A k \in FixKeys : SubFn(FixOf(k).fields, st[k].fields) /\ SubFn(FixOf(k).labels, st[k].labels)
\* (the statement asks for SOME state with owned = desired from which syncs are quiet; a sync that
\* still records the last-applied annotation of an adopted child is on its way there, so quiescence is
\* judged from the first sync that changed nothing, and at the end of the bounded run)
C01_QuietAfterQuiet ==
  (ReqE /\ HasExpect("fix") /\ C.prevQuiet /\ C.fresh /\ E.verb # "get" /\ (E.post # E.pre \/ IsChildReq(E)))
  => Report("C01", "C01_Quiet", <<"write after a sync that changed nothing (hot loop)", E.verb, Key(E), E.code>>)
C01_Bounded ==
  (IsEv("End") /\ HasExpect("fix"))
  => \/ (AtFix(store) /\ \A a \in DOMAIN ctx : ~ctx[a].wrote /\ ctx[a].childReqs = 0 /\ ctx[a].result = "ok")
     \/ ReportS("C01", "C01_Bounded",
                \* known-finding signature: the hook hands observed children back verbatim -- resourceVersion included --,
                \* the last-applied record therefore changes with every write, and every write changes the resourceVersion
                IF AtFix(store) /\ \E a \in DOMAIN ctx : \E i \in DOMAIN ctx[a].resp.children : ctx[a].resp.children[i].rv # 0
                THEN "Sig_C01_EchoedResourceVersion"
                \* known-finding signature: the hook's desired child itself lists the parent as a plain (non-controller) owner;
                \* the controller reference is appended next to it, and the two entries with one uid never merge to a stable list
                ELSE IF \E a \in DOMAIN ctx : \E i \in DOMAIN ctx[a].resp.children : \E j \in DOMAIN ctx[a].resp.children[i].owners :
                          ctx[a].resp.children[i].owners[j].uid = expect.parentUid /\ ~ctx[a].resp.children[i].owners[j].ctrl
                THEN "Sig_C01_DesiredPlainOwnerRefToParent"
                \* known-finding signature: an echoing hook under a Recreate strategy: the answer for an observed child (the
                \* object handed back) and for a missing one (built from scratch) are recorded differently, so the child is
                \* deleted and re-created in turn
                ELSE IF (\E i \in DOMAIN cfg.children : "method" \in DOMAIN cfg.children[i] /\ cfg.children[i].method \in {"Recreate", "RollingRecreate"})
                        /\ "echo" \in DOMAIN expect
                THEN "Sig_C01_EchoUnderRecreate" ELSE "-",
                <<"not converged and quiet after the bound", "owned", OwnedNow(store), "fix", FixKeys,
                                        "lastSyncWrote", [a \in DOMAIN ctx |-> ctx[a].wrote], "lastSyncChildRequests", [a \in DOMAIN ctx |-> ctx[a].childReqs],
                                        "result", [a \in DOMAIN ctx |-> ctx[a].result]>>)

\* =======================================================================================
\* C03 -- the hook sees exactly the owned children, in the documented shape
\* =======================================================================================
ApiVersionOfKind(k) == IF k = "ConfigMap" THEN "v1" ELSE "verif.example/v1"
GroupKey(k) == k \o "." \o ApiVersionOfKind(k)
InnerKey(c, o) == IF c.parent.ns = "" /\ o.ns # "" THEN o.ns \o "/" \o o.name ELSE o.name
ExpectedView(c) == [g \in { GroupKey(k) : k \in ChildKinds } |->
                      { <<InnerKey(c, c.obs[k]), c.obs[k].uid>> : k \in { x \in OwnedObs(c) : GroupKey(c.obs[x].kind) = g } }]
SeenView(req) == [g \in DOMAIN req.children |-> { <<n, req.children[g][n].uid>> : n \in DOMAIN req.children[g] }]
HookE == IsEv("Hook") /\ InSync(E) /\ E.hook \in {"sync", "finalize"}
C03_ViewExact ==
  HookE => \/ SeenView(E.req) = ExpectedView(C)
           \/ Report("C03", "C03_ViewExact", <<"sent", SeenView(E.req), "expected", ExpectedView(C)>>)
C03_NsDefault ==
  (ReqE /\ IsChildReq(E) /\ E.verb \in {"create", "apply"} /\ Reached(C) /\ E.kind # "CThing")
  => \/ ~(\E i \in DOMAIN C.resp.children : C.resp.children[i].kind = E.kind /\ C.resp.children[i].name = E.name /\ C.resp.children[i].ns = "")
     \/ C.parent.ns = ""
     \/ E.nsReq = C.parent.ns
     \/ Report("C03", "C03_NsDefault", <<Key(E), E.nsReq, C.parent.ns>>)

\* =======================================================================================
\* C06 -- each child type is changed only by the method its strategy allows
\* =======================================================================================
\* requests on an owned, observed child after the (single, accepted) hook answer, dynamic apply
C06Scope == ReqE /\ IsChildReq(E) /\ Reached(C) /\ ~("apply" \in DOMAIN cfg /\ cfg.apply = "ssa")
            /\ E.verb \in {"update", "delete", "jsonpatch", "apply", "patch"} /\ Key(E) \in OwnedObs(C)
            /\ ~IsAdoption(E, C) /\ ~IsRelease(E, C)
C06_Method ==
  (C06Scope /\ Key(E) \in DesiredKeys(C))
  => LET m == MethodOf(E.kind) IN
     \/ (m \in {"Recreate", "RollingRecreate"} /\ E.verb = "delete")
     \/ (m \in {"InPlace", "RollingInPlace"} /\ E.verb = "update")
     \/ Report("C06", "C06_Method", <<"method", m, "request", E.verb, Key(E)>>)
C06_DeletingNoWrite ==
  /\ (C06Scope /\ C.obs[Key(E)].deleting) => Report("C06", "C06_DeletingNoWrite", <<E.verb, Key(E)>>)
  \* ... nor does a write land on a child that started terminating behind a stale cache (the stale
  \* resourceVersion of an in-place update makes the API server refuse it)
  /\ (ReqE /\ IsChildReq(E) /\ Reached(C) /\ E.verb \in {"update", "apply", "jsonpatch"} /\ Accepted(E) /\ E.pre.live /\ E.pre.deleting
        /\ E.post # E.pre /\ ~("apply" \in DOMAIN cfg /\ cfg.apply = "ssa") /\ ~IsAdoption(E, C) /\ ~IsRelease(E, C))
       => Report("C06", "C06_DeletingNoWrite", <<"accepted", E.verb, Key(E), "on a child pending deletion">>)
C06_EqualNoWrite ==
  (C06Scope /\ Key(E) \in DesiredKeys(C) /\ ~AnyRolling /\ SameAsDesired(C.obs[Key(E)], DesiredOf(C, Key(E))))
  => Report("C06", "C06_EqualNoWrite", <<E.verb, Key(E)>>)
C06_UndesiredDeletedBackground ==
  (C06Scope /\ E.verb = "delete") => (E.opt.propagation = "Background" \/ Report("C06", "C06_UndesiredDeletedBackground", <<Key(E), E.opt.propagation>>))
\* completeness at the end of a sync that reconciled children without any failure:
\* every action the strategy prescribes was actually requested
Issued(c, verb, k) == <<verb, k>> \in c.issued
ManageRan(c) == Reached(c) /\ (~Cur(c).deleting \/ (FinOn /\ HasFin(Cur(c), c) /\ ~c.finGone /\ ~GCFin(Cur(c))))
C06_Complete ==
  (IsEv("SyncEnd") /\ E.a \in DOMAIN ctx /\ ctx[E.a].active /\ ManageRan(ctx[E.a]) /\ ~AnyRolling
     /\ ctx[E.a].failedReqs = <<>> /\ E.result = "ok")
  => LET c == ctx[E.a]
         \* server-side apply: children are created by an apply patch; an existing child is re-applied only when the desired
         \* object changed since the last apply (a process-wide memo), so nothing is demanded for a differing child there
         ssa == "apply" \in DOMAIN cfg /\ cfg.apply = "ssa" IN
     /\ \A k \in OwnedObs(c) : (k \notin DesiredKeys(c) /\ ~c.obs[k].deleting)
            => (Issued(c, "delete", k) \/ Report("C06", "C06_Complete", <<"undesired child not deleted", k>>))
     /\ \A k \in DesiredKeys(c) : (k \notin OwnedObs(c))
            => (Issued(c, "create", k) \/ (ssa /\ Issued(c, "apply", k)) \/ Report("C06", "C06_Complete", <<"missing child not created", k>>))
     /\ \A k \in DesiredKeys(c) : (k \in OwnedObs(c) /\ ~c.obs[k].deleting /\ DiffersInOwned(c.obs[k], DesiredOf(c, k)))
            => LET m == MethodOf(k[1]) IN
               \/ ssa
               \/ m \in {"-", "OnDelete"} \/ m \notin {"Recreate", "InPlace", "RollingRecreate", "RollingInPlace"}
               \/ (m \in {"Recreate", "RollingRecreate"} /\ Issued(c, "delete", k))
               \/ (m \in {"InPlace", "RollingInPlace"} /\ Issued(c, "update", k))
               \/ Report("C06", "C06_Complete", <<"differing child not acted on", m, k>>)

\* =======================================================================================
\* C10 -- finalizer: added first, honoured on deletion, removed only when finalized
\* =======================================================================================
C10_FinBeforeChild ==
  (ReqE /\ IsChildReq(E) /\ FinOn /\ E.verb \in {"create", "apply"} /\ Accepted(E) /\ ~E.pre.live)
  => (HasFin(Cur(C), C) \/ Report("C10", "C10_FinBeforeChild", <<Key(E), Cur(C).fins>>))
C10_NoFinOnDying ==
  (ReqE /\ IsParentReq(E, C) /\ E.verb = "update" /\ Accepted(E) /\ E.pre.deleting /\ ~HasFin(E.pre, C) /\ HasFin(E.post, C))
  => Report("C10", "C10_NoFinOnDying", <<Key(E)>>)
C10_HookChoice ==
  HookE => LET p == E.req.parent
               fz == FinOn /\ (p.deleting \/ ~CtlMatches(p)) IN
           \/ (fz /\ E.hook = "finalize" /\ E.req.finalizing)
           \/ (~fz /\ E.hook = "sync" /\ ~E.req.finalizing)
           \/ Report("C10", "C10_HookChoice", <<"hook", E.hook, "finalizing", E.req.finalizing, "expectedFinalize", fz>>)
C10_RemoveOnlyFinalized ==
  (ReqE /\ IsParentReq(E, C) /\ E.verb = "update" /\ Accepted(E) /\ HasFin(E.pre, C) /\ ~HasFin(E.post, C))
  => \/ ~FinOn
     \/ (C.nHooks > 0 /\ C.hookOK /\ C.allFinalized)
     \/ Report("C10", "C10_RemoveOnlyFinalized", <<Key(E), "hooks", C.nHooks, "allFinalized", C.allFinalized>>)
\* without a finalize hook a leftover finalizer is removed
C10_LeftoverRemoved ==
  (IsEv("SyncEnd") /\ E.a \in DOMAIN ctx /\ ctx[E.a].active /\ ~FinOn /\ HasFin(ctx[E.a].parent, ctx[E.a])
     /\ ctx[E.a].failedReqs = <<>> /\ E.result = "ok")
  => LET c == ctx[E.a] IN
     \/ ~Lookup(store, ParentKeyOf(c)).live \/ Lookup(store, ParentKeyOf(c)).uid # c.parent.uid
     \/ ~HasFin(Lookup(store, ParentKeyOf(c)), c)
     \/ Report("C10", "C10_LeftoverRemoved", <<ParentKeyOf(c)>>)
C10_DyingNoTouch ==
  (ReqE /\ IsChildReq(E) /\ E.verb \in WriteVerbs /\ Cur(C).deleting /\ (~FinOn \/ ~HasFin(Cur(C), C) \/ C.finGone \/ GCFin(Cur(C))))
  => Report("C10", "C10_DyingNoTouch", <<E.verb, Key(E), "fins", Cur(C).fins>>)
\* while finalizing with finalized:false the children are still reconciled to the answer
C10_StillReconciled ==
  (IsEv("SyncEnd") /\ E.a \in DOMAIN ctx /\ ctx[E.a].active /\ ctx[E.a].finalizing /\ ManageRan(ctx[E.a]) /\ ~AnyRolling
     /\ ctx[E.a].failedReqs = <<>> /\ E.result = "ok")
  => LET c == ctx[E.a] IN
     /\ \A k \in OwnedObs(c) : (k \notin DesiredKeys(c) /\ ~c.obs[k].deleting)
            => (Issued(c, "delete", k) \/ Report("C10", "C10_StillReconciled", <<"not deleted while finalizing", k>>))
     /\ \A k \in DesiredKeys(c) : (k \notin OwnedObs(c))
            => (Issued(c, "create", k) \/ Issued(c, "apply", k) \/ Report("C10", "C10_StillReconciled", <<"not created while finalizing", k>>))

\* =======================================================================================
\* C11 -- parent status = hook status + observedGeneration, nothing else
\* =======================================================================================
IsComposite == ~IsDecorator
ExpStatus(c) == ("observedGeneration" :> ToString(c.hookParent.gen)) @@ (CHOOSE r \in RespInForce(c) : TRUE).status
\* rolling syncs add the Updated condition; it is excluded from the comparison there
StatusEq(a, b) == IF AnyRolling
                  THEN \A p \in (DOMAIN a \cup DOMAIN b) :
                          (\E n \in 0..3 : \E f \in {"type", "status", "reason", "message"} : p = "conditions." \o ToString(n) \o "." \o f)
                          \/ (p \in DOMAIN a /\ p \in DOMAIN b /\ a[p] = b[p])
                  ELSE a = b
C11_StatusBody ==
  (ReqE /\ IsComposite /\ IsParentReq(E, C) /\ E.verb \in {"updateStatus", "update"} /\ Accepted(E) /\ E.post.live /\ E.post.status # E.pre.status
     /\ "shape" \notin DOMAIN expect)      \* deliberately malformed answers are judged by C13 only
  => \/ (ReachedR(C) /\ StatusEq(E.post.status, ExpStatus(C)))
     \/ Report("C11", "C11_StatusBody", <<"written", E.post.status, "expected", IF ReachedR(C) THEN ExpStatus(C) ELSE <<>>>>)
C11_ViaSubresource ==
  (ReqE /\ IsComposite /\ IsParentReq(E, C) /\ E.verb = "update" /\ Accepted(E) /\ E.post.live)
  => \/ [NoStatus(E.post) EXCEPT !.fins = <<>>, !.gen = 0] = [NoStatus(E.pre) EXCEPT !.fins = <<>>, !.gen = 0]
     \/ Report("C11", "C11_RestUntouched", <<"main-resource update changed more than finalizers", Key(E)>>)
C11_SkipEqual ==
  (ReqE /\ IsComposite /\ IsParentReq(E, C) /\ E.verb = "updateStatus" /\ C.lastParentGet.live)
  => \/ E.body.status # C.lastParentGet.status
     \/ Report("C11", "C11_SkipEqual", <<"status write although equal", Key(E)>>)
C11_RetryFresh ==
  (ReqE /\ IsComposite /\ IsParentReq(E, C) /\ E.verb = "updateStatus")
  => (~C.needFreshGet \/ Report("C11", "C11_RetryFresh", <<"retried a conflicted status write without a fresh read", Key(E)>>))
C11_UidGuard ==
  (ReqE /\ IsParentReq(E, C) /\ E.verb \in {"updateStatus", "update"} /\ Accepted(E) /\ E.post # E.pre)
  => (E.pre.uid = C.parent.uid \/ Report("C11", "C11_UidGuard", <<"write to a same-named parent with another uid", E.pre.uid, C.parent.uid>>))
\* the status ends up written whenever the sync got as far as reconciling children -- also
\* when reconciling some children failed -- unless the parent is gone/replaced or the write
\* itself met a fault or a conflict (tolerated, C12)
C11_Written ==
  (IsEv("SyncEnd") /\ IsComposite /\ E.a \in DOMAIN ctx /\ ctx[E.a].active /\ ReachedR(ctx[E.a]) /\ ~ctx[E.a].claimFail
     \* a failed ControllerRevision write aborts the sync BEFORE children are reconciled (C09): not "as far as reconciling children"
     /\ ~ctx[E.a].revFailed)
  => LET c == ctx[E.a]  live == Lookup(store, ParentKeyOf(c)) IN
     \/ ~live.live \/ live.uid # c.parent.uid
     \* a conflict on the status write is retried against a fresh read (client-go's default back-off: four attempts);
     \* only when every attempt met a conflict is the write given up for this sync
     \/ c.statusConflicts >= 4 \/ c.parentGone
     \/ \E i \in DOMAIN c.failedReqs : c.failedReqs[i][2] = c.parent.kind /\ c.failedReqs[i][4] # 409
     \/ StatusEq(live.status, ExpStatus(c))
     \/ Report("C11", IF c.childFault THEN "C11_EvenIfChildrenFail" ELSE "C11_Written",
               <<"status", live.status, "expected", ExpStatus(c), "failed", c.failedReqs>>)

\* =======================================================================================
\* C12 -- failures retried, benign races tolerated, one bad child blocks nothing
\* =======================================================================================
Requeued(e) == \E i \in DOMAIN e.queue : e.queue[i].op = "AddRateLimited"
AfterOf(e)  == { e.queue[i].d : i \in { j \in DOMAIN e.queue : e.queue[j].op = "AddAfter" } }
C12_NoPanic ==
  /\ IsEv("SyncEnd") => (E.result # "panic" \/ Report("C12", "C12_NoPanic", <<E.msg>>))
  /\ IsEv("Panic") => Report("C12", "C12_NoPanic", <<"process terminated", E.msg>>)
C12_ErrorRequeues ==
  (IsEv("SyncEnd") /\ E.a \in DOMAIN ctx /\ ctx[E.a].active /\ E.result # "panic" /\ (ctx[E.a].nonBenign \/ (ctx[E.a].hookFail /\ ~ctx[E.a].hook429)))
  => \/ (E.result = "error" /\ Requeued(E))
     \/ Report("C12", "C12_ErrorRequeues", <<"failure swallowed", ctx[E.a].failedReqs, "hookCode", ctx[E.a].hookCode, "result", E.result, E.queue>>)
C12_429After ==
  (IsEv("SyncEnd") /\ IsComposite /\ E.a \in DOMAIN ctx /\ ctx[E.a].active /\ ctx[E.a].hook429 /\ ~ctx[E.a].nonBenign /\ E.result # "panic")
  => \/ (E.result = "ok" /\ ~Requeued(E) /\ 7000 \in AfterOf(E))
     \/ Report("C12", "C12_429After", <<E.result, E.queue>>)
\* a failure on one child does not stop the other children nor the status write
C12_OthersProceed ==
  (IsEv("SyncEnd") /\ E.a \in DOMAIN ctx /\ ctx[E.a].active /\ ManageRan(ctx[E.a]) /\ ctx[E.a].childFault /\ ~AnyRolling
     /\ ~("apply" \in DOMAIN cfg /\ cfg.apply = "ssa") /\ E.result # "panic")
  => LET c == ctx[E.a] IN
     /\ \A k \in OwnedObs(c) : (k \notin DesiredKeys(c) /\ ~c.obs[k].deleting)
            => (Issued(c, "delete", k) \/ Report("C12", "C12_OthersProceed", <<"delete skipped after another child failed", k>>))
     /\ \A k \in DesiredKeys(c) : (k \notin OwnedObs(c))
            => (Issued(c, "create", k) \/ Report("C12", "C12_OthersProceed", <<"create skipped after another child failed", k>>))
     /\ (IsComposite /\ Lookup(store, ParentKeyOf(c)).live /\ Lookup(store, ParentKeyOf(c)).uid = c.parent.uid
           /\ ~StatusEq(Lookup(store, ParentKeyOf(c)).status, ExpStatus(c)))
            => (c.parentReqsAfterHook > 0 \/ Report("C12", "C12_OthersProceed", <<"status write not attempted after a child failed">>))
\* once faults stop the cluster converges to the fault-free state (uses the C01 fixpoint oracle)
C12_Recovers ==
  (IsEv("End") /\ HasExpect("fix") /\ HasExpect("faulty"))
  => \/ (AtFix(store) /\ \A a \in DOMAIN ctx : ctx[a].result = "ok")
     \/ Report("C12", "C12_Recovers", <<"owned", OwnedNow(store), "fix", FixKeys, [a \in DOMAIN ctx |-> ctx[a].result]>>)

\* =======================================================================================
\* C13 -- no hook response can crash metacontroller or cause writes
\* =======================================================================================
C13_NoPanic ==
  /\ IsEv("SyncEnd") => (E.result # "panic" \/ Report("C13", "C13_NoPanic", <<E.msg>>))
  \* a panic on a goroutine the sync spawned cannot be recovered by the worker: the process died
  /\ IsEv("Panic") => Report("C13", "C13_NoPanic", <<"process terminated", E.msg>>)
\* the sync failed although no request failed and the hook answered 200: the response was
\* rejected -- then nothing may have been written on the strength of it
C13_RejectedNoWrites ==
  (IsEv("SyncEnd") /\ E.a \in DOMAIN ctx /\ ctx[E.a].active /\ E.result = "error" /\ ctx[E.a].failedReqs = <<>>
     /\ ctx[E.a].nHooks > 0 /\ ~ctx[E.a].hookFail /\ ctx[E.a].faults = 0
     \* an accepted response one of whose children cannot be reconciled (unknown kind, ...) is a failure of
     \* that child (C12: one bad child blocks nothing), not a rejected response
     /\ E.errPhase # "manage")
  => (ctx[E.a].childWritesAfterHook = 0 \/ Report("C13", "C13_RejectedNoWrites", <<"child writes", ctx[E.a].childWritesAfterHook, E.msg>>))
C13_HookErrNoWrites ==
  (ReqE /\ IsChildReq(E) /\ E.verb \in WriteVerbs /\ C.nHooks > 0 /\ C.hookFail /\ ~IsAdoption(E, C) /\ ~IsRelease(E, C))
  => Report("C13", "C13_RejectedNoWrites", <<"child write after a failed hook call", E.verb, Key(E)>>)

\* =======================================================================================
\* C16 -- a decorator changes only labels, annotations, status and finalizer of its target
\* =======================================================================================
\* judged against the (single) hook answer of the sync; keys named in the answer: null => removed
NamedOK(pre, post, named) ==
  \A k \in (DOMAIN pre \cup DOMAIN post) :
     \/ (k \in DOMAIN pre /\ k \in DOMAIN post /\ pre[k] = post[k])
     \/ (k \in DOMAIN named /\ ((named[k] = "null" /\ k \notin DOMAIN post) \/ (k \in DOMAIN post /\ named[k] = "s:" \o post[k])))
DecTargetWrite == ReqE /\ IsDecorator /\ IsParentReq(E, C) /\ E.verb \in {"update", "updateStatus", "patch", "jsonpatch", "apply"} /\ Accepted(E) /\ E.post.live
C16_OnlyNamedKeys ==
  DecTargetWrite
  => \/ (NamedOK(E.pre.labels, E.post.labels, IF C.nHooks > 0 THEN C.resp.labels ELSE <<>>)
         /\ NamedOK(E.pre.ann, E.post.ann, IF C.nHooks > 0 THEN C.resp.annotations ELSE <<>>))
     \/ Report("C16", "C16_OnlyNamedKeys", <<"labels", E.pre.labels, E.post.labels, "ann", E.pre.ann, E.post.ann,
                                             "named", IF C.nHooks > 0 THEN <<C.resp.labels, C.resp.annotations>> ELSE <<>>>>)
C16_StatusRule ==
  (DecTargetWrite /\ E.post.status # E.pre.status)
  => \/ (C.nHooks > 0 /\ C.hookOK /\ C.resp.hasStatus /\ E.post.status = C.resp.status)
     \/ Report("C16", "C16_StatusRule", <<"status", E.pre.status, E.post.status, "answer", IF C.nHooks > 0 THEN C.resp.status ELSE <<>>>>)
C16_FinalizerOnly ==
  DecTargetWrite
  => \/ (Range(E.post.fins) \ {C.fin}) = (Range(E.pre.fins) \ {C.fin})
     \/ Report("C16", "C16_FinalizerOnly", <<E.pre.fins, E.post.fins>>)
C16_SpecUntouched ==
  DecTargetWrite
  => \/ [E.post EXCEPT !.rv = 0, !.labels = <<>>, !.ann = <<>>, !.status = <<>>, !.hasStatus = FALSE, !.fins = <<>>]
          = [E.pre EXCEPT !.rv = 0, !.labels = <<>>, !.ann = <<>>, !.status = <<>>, !.hasStatus = FALSE, !.fins = <<>>]
     \/ Report("C16", "C16_SpecUntouched", <<"fields", E.pre.fields, E.post.fields, "gen", E.pre.gen, E.post.gen, "owners", E.pre.owners, E.post.owners>>)
\* no request is sent when nothing would change: a sync whose target writes all changed nothing
C16_NoOpNoRequest ==
  (IsEv("SyncEnd") /\ IsDecorator /\ E.a \in DOMAIN ctx /\ ctx[E.a].active /\ ctx[E.a].statusPuts > 0 /\ ~ctx[E.a].parentChanged
     /\ ctx[E.a].failedReqs = <<>> /\ ctx[E.a].fresh)
  => Report("C16", "C16_NoOpNoRequest", <<"target written", ctx[E.a].statusPuts, "times without any change">>)
\* what the answer names is applied: after a sync without interference the named keys have the
\* answer's value (null: the key is gone) and a non-null status is the target's status
NamedApplied(m, named) == \A k \in DOMAIN named : IF named[k] = "null" THEN k \notin DOMAIN m ELSE (k \in DOMAIN m /\ named[k] = "s:" \o m[k])
C16_Applied ==
  (IsEv("SyncEnd") /\ IsDecorator /\ E.a \in DOMAIN ctx /\ ctx[E.a].active /\ ctx[E.a].nHooks = 1 /\ ctx[E.a].hookOK /\ "shape" \notin DOMAIN expect
     /\ ctx[E.a].failedReqs = <<>> /\ ctx[E.a].fresh /\ E.result = "ok")
  => LET c == ctx[E.a]  t == Lookup(store, ParentKeyOf(c)) IN
     \/ ~t.live \/ t.uid # c.parent.uid
     \/ (NamedApplied(t.labels, c.resp.labels) /\ NamedApplied(t.ann, c.resp.annotations) /\ (c.resp.hasStatus => t.status = c.resp.status))
     \/ Report("C16", "C16_Applied", <<"labels", t.labels, c.resp.labels, "ann", t.ann, c.resp.annotations, "status", t.status, c.resp.status>>)
\* attachments are recognised solely by a controller owner reference to the target TOGETHER WITH the
\* decorator's marker: others are neither reported to the hook nor written
C16_AttachmentsOwnedMarked ==
  /\ (HookE /\ IsDecorator)
       => \A g \in DOMAIN E.req.children : \A n \in DOMAIN E.req.children[g] :
             LET o == E.req.children[g][n] IN
             \/ (o.ctrl = PUid /\ HasMarker(o, C))
             \/ Report("C16", "C16_AttachmentsOwnedMarked", <<"reported to the hook", ObjKey(o), "ctrl", o.ctrl, "ann", o.ann>>)
  /\ (ReqE /\ IsDecorator /\ IsChildReq(E) /\ E.verb \in (WriteVerbs \ {"create"}) /\ E.pre.live /\ Accepted(E) /\ E.post # E.pre)
       => \/ (E.pre.ctrl = PUid /\ HasMarker(E.pre, C))
          \/ Report("C16", "C16_AttachmentsOwnedMarked", <<"written", E.verb, Key(E), "ctrl", E.pre.ctrl, "ann", E.pre.ann>>)
\* a sync acts only on objects that satisfy both selectors or still carry the finalizer
C16_Selected ==
  ((HookE \/ (ReqE /\ E.verb # "get")) /\ IsDecorator)
  \* judged on the target as the sync knows it NOW (after a finalizer update: the object that update returned)
  => \/ CtlMatches(Cur(C)) \/ HasFin(Cur(C), C)
     \/ Report("C16", "C16_Selected", <<"acted on an unselected object", Cur(C).labels, Cur(C).ann, Cur(C).fins>>)

\* =======================================================================================
\* C17(a) -- shared caches stay read-only; the hook is sent what the API server delivered
\* =======================================================================================
C17_CacheFrozen ==
  ((IsEv("SyncEnd") \/ IsEv("Deliver")) /\ E.fpDiff # <<>>) => Report("C17", "C17_CacheFrozen", E.fpDiff)
C17_HookSeesDelivered ==
  HookE => /\ \A g \in DOMAIN E.req.children : \A n \in DOMAIN E.req.children[g] :
                LET o == E.req.children[g][n] IN
                \/ Lookup(C.obs, ObjKey(o)) = o
                \/ Report("C17", "C17_HookSeesDelivered", <<"child in request differs from the cached object", ObjKey(o)>>)
           /\ \/ E.req.parent = Cur(C) \/ AnyRolling
              \/ Report("C17", "C17_HookSeesDelivered", <<"parent in request differs from the cached/updated parent", E.req.parent.rv, Cur(C).rv>>)

\* =======================================================================================
\* C07 / C08 / C09 -- rolling updates (scenarios of spec/Rolling.tla: expect.patchOf maps the value of
\* the revisioned parent field to the parentPatch of its ControllerRevision, expect.revOrder orders them)
\* =======================================================================================
RollScn == "patchOf" \in DOMAIN expect
RevKeys(st, puid) == { k \in DOMAIN st : st[k].live /\ st[k].kind = "ControllerRevision" /\ st[k].ctrl = puid }
RevValOf(o) == IF \E v \in DOMAIN expect.patchOf : expect.patchOf[v] = o.patch
               THEN CHOOSE v \in DOMAIN expect.patchOf : expect.patchOf[v] = o.patch ELSE "?"
Claims(o, kind) == UNION { Range(o.claims[i].names) : i \in { j \in DOMAIN o.claims : o.claims[j].k = kind } }
ClaimVals(st, puid, kind, name) == { RevValOf(st[k]) : k \in { x \in RevKeys(st, puid) : name \in Claims(st[x], kind) } }
RevField == "spec.rev"
LatestVal(c) == c.parent.fields[RevField]
\* the latest revision's hook answer of this sync (the call whose parent carries the live revisioned value)
LatestIdx(c) == { i \in DOMAIN c.hookSeq : c.hookSeq[i].code = 200 /\ RevField \in DOMAIN c.hookSeq[i].parent.fields
                                            /\ c.hookSeq[i].parent.fields[RevField] = LatestVal(c) }
HasLatest(c) == RollScn /\ c.parent.live /\ RevField \in DOMAIN c.parent.fields /\ LatestIdx(c) # {}
             /\ \A i \in DOMAIN c.hookSeq : c.hookSeq[i].code = 200
LatestResp(c) == c.hookSeq[CHOOSE i \in LatestIdx(c) : TRUE].resp
DesNames(c) == { LatestResp(c).children[i].name : i \in DOMAIN LatestResp(c).children }
DesOf(c, n) == LatestResp(c).children[CHOOSE i \in DOMAIN LatestResp(c).children : LatestResp(c).children[i].name = n]
PosOf(c, n) == CHOOSE i \in DOMAIN LatestResp(c).children : LatestResp(c).children[i].name = n
KidKey(c, n) == <<"Thing", c.parent.ns, n>>
ObsKid(c, n) == Lookup(c.obs, KidKey(c, n))
\* up to date = applying the desired state would change nothing: content, labels AND the last-applied record
UpToDateK(c, n) == /\ ObsKid(c, n).live /\ SubFn(DesOf(c, n).fields, ObsKid(c, n).fields) /\ SubFn(DesOf(c, n).labels, ObsKid(c, n).labels)
                   /\ ObsKid(c, n).hasLA /\ SubFn(DesOf(c, n).fields, ObsKid(c, n).la)
ChecksOn == \E i \in DOMAIN cfg.children : "checks" \in DOMAIN cfg.children[i] /\ cfg.children[i].checks # <<>>
HappyK(c, n) == LET o == ObsKid(c, n) IN
  /\ ChecksOn => ("conditions.0.type" \in DOMAIN o.status /\ o.status["conditions.0.type"] = "s:Ready"
                  /\ "conditions.0.status" \in DOMAIN o.status /\ o.status["conditions.0.status"] = "s:True")
  \* observedGeneration counts only when it is reported as a positive number (0 or a non-number = not reported)
  /\ (MethodOf("Thing") = "RollingInPlace" /\ "observedGeneration" \in DOMAIN o.status
        /\ o.status["observedGeneration"] \in { ToString(g) : g \in 1..500 }) => o.status["observedGeneration"] = ToString(o.gen)
OnLatestBefore(c, n) == LatestVal(c) \in ClaimVals(c.store0, c.parent.uid, "Thing", n)
OnLatestAfter(c, n)  == LatestVal(c) \in ClaimVals(store, c.parent.uid, "Thing", n)
\* children that this sync moved from an older revision to the latest although they need a real change
MovedNeeding(c) == { n \in DesNames(c) : ~OnLatestBefore(c, n) /\ ClaimVals(c.store0, c.parent.uid, "Thing", n) # {}
                                          /\ OnLatestAfter(c, n) /\ ~UpToDateK(c, n) }
Needing(c) == { n \in DesNames(c) : ~OnLatestBefore(c, n) /\ ClaimVals(c.store0, c.parent.uid, "Thing", n) # {} /\ ~UpToDateK(c, n) }
RollEnd == IsEv("SyncEnd") /\ E.a \in DOMAIN ctx /\ ctx[E.a].active /\ HasLatest(ctx[E.a]) /\ E.result = "ok" /\ ctx[E.a].failedReqs = <<>> /\ ctx[E.a].fresh
\* the latest revision's desired state is computed from the parent AS IT IS: one of the per-revision hook calls of a
\* rolling sync is about the very parent the sync works on (the others about patched copies)
C07_LatestAsIs ==
  (IsEv("SyncEnd") /\ IsComposite /\ AnyRolling /\ E.a \in DOMAIN ctx /\ ctx[E.a].active /\ ctx[E.a].nHooks >= 1 /\ ctx[E.a].allOK)
  => \/ \E i \in DOMAIN ctx[E.a].hookSeq : ctx[E.a].hookSeq[i].parent.fields = ctx[E.a].parent.fields
     \/ Report("C07", "C07_LatestAsIs", <<"no hook call was about the parent as it is", ctx[E.a].parent.fields,
                                           [i \in DOMAIN ctx[E.a].hookSeq |-> ctx[E.a].hookSeq[i].parent.fields]>>)
C07_OneMove ==
  RollEnd => (Cardinality(MovedNeeding(ctx[E.a])) <= 1 \/ Report("C07", "C07_OneMove", <<"moved", MovedNeeding(ctx[E.a])>>))
C07_HookOrder ==
  (RollEnd /\ MovedNeeding(ctx[E.a]) # {})
  => LET c == ctx[E.a]  first == CHOOSE n \in Needing(c) : \A m \in Needing(c) : PosOf(c, n) <= PosOf(c, m) IN
     (MovedNeeding(c) = {first} \/ Report("C07", "C07_HookOrder", <<"moved", MovedNeeding(c), "first in hook order", first>>))
C07_Gate ==
  (RollEnd /\ MovedNeeding(ctx[E.a]) # {})
  => LET c == ctx[E.a] IN
     \A n \in DesNames(c) : OnLatestBefore(c, n)
        => ((ObsKid(c, n).live /\ UpToDateK(c, n) /\ HappyK(c, n))
            \/ Report("C07", "C07_Gate", <<"moved", MovedNeeding(c), "although", n, "live", ObsKid(c, n).live, "upToDate", UpToDateK(c, n), "happy", HappyK(c, n)>>))
\* a child is (re)written with the desired state of the revision that claims it; non-revisioned fields
\* come from the live parent for every child
RollWrite == ReqE /\ RollScn /\ IsChildReq(E) /\ E.verb \in {"create", "update"} /\ Accepted(E) /\ HasLatest(C) /\ E.body.live
             /\ ~IsAdoption(E, C) /\ ~IsRelease(E, C)
C07_OldStay ==
  RollWrite => LET vs == ClaimVals(store, PUid, E.kind, E.name) IN
               \/ vs = {} \/ RevField \notin DOMAIN E.body.fields \/ E.body.fields[RevField] \in vs
               \/ Report("C07", "C07_OldStay", <<Key(E), "written at", E.body.fields[RevField], "claimed by", vs>>)
C07_NonRevNow ==
  RollWrite => \/ "spec.nonrev" \notin DOMAIN E.body.fields \/ "spec.nonrev" \notin DOMAIN C.parent.fields
               \/ E.body.fields["spec.nonrev"] = C.parent.fields["spec.nonrev"]
               \/ Report("C07", "C07_NonRevNow", <<Key(E), E.body.fields["spec.nonrev"], C.parent.fields["spec.nonrev"]>>)
\* the Updated condition of the parent
UpdIdx(st) == { n \in 0..3 : ("conditions." \o ToString(n) \o ".type") \in DOMAIN st /\ st["conditions." \o ToString(n) \o ".type"] = "s:Updated" }
UpdField(st, f) == LET n == CHOOSE x \in UpdIdx(st) : TRUE  p == "conditions." \o ToString(n) \o "." \o f IN IF p \in DOMAIN st THEN st[p] ELSE ""
C07_Cond ==
  (RollEnd /\ ~ctx[E.a].statusConflict /\ ~ctx[E.a].parentGone)
  => LET c == ctx[E.a]  st == Lookup(store, ParentKeyOf(c)).status
         allLatest == \A n \in DesNames(c) : OnLatestAfter(c, n) IN
     \/ Lookup(store, ParentKeyOf(c)).uid # c.parent.uid
     \/ (/\ Cardinality(UpdIdx(st)) = 1
         \* complete: every child is on the latest revision and this sync moved nothing that still needs a change
         /\ ((allLatest /\ MovedNeeding(c) = {}) => (UpdField(st, "status") = "s:True" /\ UpdField(st, "reason") = "s:OnLatestRevision"))
         \* progressing: this sync moved a child that is now to be updated
         /\ (MovedNeeding(c) # {} => (UpdField(st, "status") = "s:False" /\ UpdField(st, "reason") = "s:RolloutProgressing"))
         \* otherwise some child is still on an older revision: waiting (or progressing), never "complete"
         /\ (~allLatest => (UpdField(st, "status") = "s:False" /\ UpdField(st, "reason") \in {"s:RolloutWaiting", "s:RolloutProgressing"})))
     \/ Report("C07", "C07_Cond", <<"allOnLatest", allLatest, "moved", MovedNeeding(c), "conditions", [p \in { q \in DOMAIN st : \E n \in 0..3 : \E f \in {"type", "status", "reason"} : q = "conditions." \o ToString(n) \o "." \o f } |-> st[p]]>>)
\* C08: a rollout never waits on a child that exists, is up to date and passes its checks
C08_NoNeedlessWait ==
  (RollEnd /\ Cardinality(UpdIdx(Lookup(store, ParentKeyOf(ctx[E.a])).status)) = 1
     /\ UpdField(Lookup(store, ParentKeyOf(ctx[E.a])).status, "reason") = "s:RolloutWaiting" /\ ~ctx[E.a].statusConflict)
  => LET c == ctx[E.a] IN
     \/ \E n \in DesNames(c) : OnLatestAfter(c, n) /\ ~(ObsKid(c, n).live /\ UpToDateK(c, n) /\ HappyK(c, n))
     \/ Report("C08", "C08_NoNeedlessWait", <<"waiting although every child on the latest revision is observed, up to date and happy">>)
\* C08: completion and clean-up within the linear bound (the scenario runs that many syncs)
C08_Done ==
  (IsEv("End") /\ RollScn /\ "done" \in DOMAIN expect /\ expect.done)
  => LET p == Lookup(store, <<"Parent", "ns1", "p">>)
         latest == expect.finalRev IN
     \/ (/\ p.live
         /\ \A i \in DOMAIN expect.finalNames :
               LET k == Lookup(store, <<"Thing", "ns1", expect.finalNames[i]>>) IN
               k.live /\ k.ctrl = p.uid /\ RevField \in DOMAIN k.fields /\ k.fields[RevField] = latest
               /\ "spec.nonrev" \in DOMAIN k.fields /\ k.fields["spec.nonrev"] = expect.finalNonrev
         /\ Cardinality(UpdIdx(p.status)) = 1 /\ UpdField(p.status, "status") = "s:True"
         /\ { RevValOf(store[k]) : k \in RevKeys(store, p.uid) } = {latest})
     \/ Report("C08", "C08_Done", <<"rollout not complete after the bound", "revisions", { RevValOf(store[k]) : k \in RevKeys(store, p.uid) },
                                     "children", [i \in DOMAIN expect.finalNames |-> Lookup(store, <<"Thing", "ns1", expect.finalNames[i]>>).fields],
                                     "conditions", p.status>>)
\* C09: rollout intent is persisted before acting
C09_RevisionsFirst ==
  (IsEv("SyncEnd") /\ E.a \in DOMAIN ctx /\ ctx[E.a].active)
  => /\ (ctx[E.a].revWritesAfterChild = 0 \/ Report("C09", "C09_RevisionsFirst", <<"ControllerRevision written after a child write", ctx[E.a].revWritesAfterChild>>))
     /\ (ctx[E.a].childAfterRevFail = 0 \/ Report("C09", "C09_FailStops", <<"child written after a failed ControllerRevision write", ctx[E.a].childAfterRevFail>>))
C09_OneClaim ==
  RollEnd => LET c == ctx[E.a] IN
             \A n \in DesNames(c) : (Cardinality(ClaimVals(store, c.parent.uid, "Thing", n)) <= 1
                                      \/ Report("C09", "C09_OneClaim", <<n, ClaimVals(store, c.parent.uid, "Thing", n)>>))
\* a child is written with revision v's content only once the store records that it belongs to v
C09_RecordedFirst ==
  (RollWrite /\ RevField \in DOMAIN E.body.fields /\ E.body.fields[RevField] \in DOMAIN expect.revOrder)
  => \/ E.body.fields[RevField] \in ClaimVals(store, PUid, E.kind, E.name)
     \/ Report("C09", "C09_RecordedFirst", <<Key(E), "written at", E.body.fields[RevField], "recorded for", ClaimVals(store, PUid, E.kind, E.name)>>)
\* no child is ever ahead of the revision recorded for it (checked in EVERY state, i.e. at every crash point)
MaxOrd(vs) == CHOOSE m \in { expect.revOrder[v] : v \in vs } : \A v \in vs : expect.revOrder[v] <= m
C09_NotAhead ==
  \* (not in scenarios where somebody ELSE edits the children's content ahead of the rollout: expect.preset)
  (RollScn /\ HasE /\ E.ev \in {"Req", "SyncEnd", "Crash", "End", "SyncStart"} /\ ~("preset" \in DOMAIN expect /\ expect.preset))
  => \A k \in DOMAIN store :
       (store[k].live /\ store[k].kind = "Thing" /\ store[k].ctrl = expect.parentUid /\ RevField \in DOMAIN store[k].fields
          /\ store[k].fields[RevField] \in DOMAIN expect.revOrder)
       => LET vs == ClaimVals(store, expect.parentUid, "Thing", store[k].name) \cap DOMAIN expect.revOrder IN
          \/ vs = {}
          \/ expect.revOrder[store[k].fields[RevField]] <= MaxOrd(vs)
          \/ Report("C09", "C09_NotAhead", <<k, "content at", store[k].fields[RevField], "claimed by", vs>>)

\* =======================================================================================
\* X01 / X02 -- work-queue discipline (spec/Requeue.tla); behaviour beyond the listed properties
\* =======================================================================================
QOps(e) == { e.queue[i].op : i \in DOMAIN e.queue }
X01_QueueDiscipline ==
  (IsEv("SyncEnd") /\ E.a \in DOMAIN ctx /\ ctx[E.a].active /\ E.result \in {"ok", "error"})
  => \/ (E.result = "ok" /\ "Forget" \in QOps(E) /\ ~Requeued(E))
     \/ (E.result = "error" /\ Requeued(E) /\ "Forget" \notin QOps(E))
     \/ Report("X01", "X01_QueueDiscipline", <<E.result, E.queue>>)
ResyncMs == IF HasExpect("resyncMs") THEN expect.resyncMs ELSE [x \in {"0"} |-> 0]
MinOf(S) == CHOOSE m \in S : \A n \in S : m <= n
X02_ResyncAfter ==
  (IsEv("SyncEnd") /\ E.a \in DOMAIN ctx /\ ctx[E.a].active /\ E.result \in {"ok", "error"} /\ ctx[E.a].nHooks > 0 /\ ~ctx[E.a].hook429)
  => LET c == ctx[E.a]
         txts == { c.hookSeq[i].resp.resync : i \in DOMAIN c.hookSeq }
         pos  == { ResyncMs[t] : t \in txts } \ {0}
         accepted == /\ ~c.hookFail /\ ~c.gateBad /\ (\A i \in DOMAIN c.hookSeq : c.hookSeq[i].resp.wellFormed)
                     /\ (E.result = "ok" \/ E.errPhase = "manage") IN
     \/ ~(txts \subseteq DOMAIN ResyncMs)
     \/ (c.hookFail /\ AfterOf(E) = {})                                   \* a failed hook call asks for nothing
     \/ (~c.hookFail /\ ~accepted)                                        \* rejected answer: nothing demanded
     \/ (accepted /\ AfterOf(E) = (IF pos = {} THEN {} ELSE {MinOf(pos)}))
     \/ Report("X02", "X02_ResyncAfter", <<"asked", txts, "queue", E.queue, E.result>>)

\* X03: children of a kind WITHOUT a rolling strategy are reconciled in the same sync, whatever the rollout of another
\* kind is doing (spec/MultiKind.tla!MK_NoCrossWait): rolling claims and the health gate concern rolling kinds only
RespR(c)     == CHOOSE r \in RespInForce(c) : TRUE
DesKeysR(c)  == { DesKey(c, RespR(c).children[i]) : i \in DOMAIN RespR(c).children }
DesOfR(c, k) == RespR(c).children[CHOOSE i \in DOMAIN RespR(c).children : DesKey(c, RespR(c).children[i]) = k]
X03_NonRollingAtOnce ==
  (IsEv("SyncEnd") /\ IsComposite /\ E.a \in DOMAIN ctx /\ ctx[E.a].active /\ AnyRolling /\ ReachedR(ctx[E.a]) /\ ~Cur(ctx[E.a]).deleting
     /\ ~("apply" \in DOMAIN cfg /\ cfg.apply = "ssa") /\ ctx[E.a].failedReqs = <<>> /\ E.result = "ok")
  => LET c == ctx[E.a] IN
     \A k \in DesKeysR(c) : (MethodOf(k[1]) \in {"Recreate", "InPlace"})
        => /\ (k \notin OwnedObs(c)) => (Issued(c, "create", k) \/ Report("X03", "X03_NonRollingAtOnce", <<"missing child of a non-rolling kind not created", k>>))
           /\ (k \in OwnedObs(c) /\ ~c.obs[k].deleting /\ DiffersInOwned(c.obs[k], DesOfR(c, k)))
                 => \/ (MethodOf(k[1]) = "Recreate" /\ Issued(c, "delete", k))
                    \/ (MethodOf(k[1]) = "InPlace" /\ Issued(c, "update", k))
                    \/ Report("X03", "X03_NonRollingAtOnce", <<"differing child of a non-rolling kind not acted on", MethodOf(k[1]), k>>)

\* =======================================================================================
\* anti-vacuity: how often was each monitor's antecedent true in this trace?  (TLC registers; the
\* trace spec is deterministic and runs with one worker)
\* =======================================================================================
Antecedents == <<
  <<"C01_Bounded", IsEv("End") /\ HasExpect("fix")>>,
  <<"C01_QuietAfterQuiet", ReqE /\ HasExpect("fix") /\ C.prevQuiet /\ C.fresh>>,
  <<"C02_WriteSafe", ReqE /\ ChildWrite(E) /\ Accepted(E)>>,
  <<"C02_DeleteUidPrecond", ReqE /\ IsOwnedKind(E) /\ E.verb = "delete">>,
  <<"C02_BornOwned", ReqE /\ IsOwnedKind(E) /\ Accepted(E) /\ ~E.pre.live /\ E.post.live /\ E.verb \in {"create", "apply"}>>,
  <<"C03_ViewExact", HookE>>,
  <<"C04_AdoptOnlyIf", ReqE /\ IsOwnedKind(E) /\ Accepted(E) /\ IsAdoption(E, C)>>,
  <<"C04_ReleaseShape", ReqE /\ IsOwnedKind(E) /\ Accepted(E) /\ IsRelease(E, C)>>,
  <<"C04_LabelGate", IsEv("SyncEnd") /\ E.a \in DOMAIN ctx /\ ctx[E.a].gateBad>>,
  <<"C06_Method", C06Scope /\ Key(E) \in DesiredKeys(C)>>,
  <<"C06_Complete", IsEv("SyncEnd") /\ E.a \in DOMAIN ctx /\ ctx[E.a].active /\ ManageRan(ctx[E.a]) /\ ~AnyRolling /\ ctx[E.a].failedReqs = <<>> /\ E.result = "ok">>,
  <<"C10_FinBeforeChild", ReqE /\ IsChildReq(E) /\ FinOn /\ E.verb \in {"create", "apply"} /\ Accepted(E)>>,
  <<"C10_HookChoice_finalize", HookE /\ E.hook = "finalize">>,
  <<"C10_RemoveOnlyFinalized", ReqE /\ IsParentReq(E, C) /\ E.verb = "update" /\ Accepted(E) /\ HasFin(E.pre, C) /\ ~HasFin(E.post, C)>>,
  <<"C10_DyingNoTouch", ReqE /\ Cur(C).deleting /\ (~FinOn \/ ~HasFin(Cur(C), C) \/ GCFin(Cur(C)))>>,
  <<"C11_StatusBody", ReqE /\ IsComposite /\ IsParentReq(E, C) /\ E.verb = "updateStatus" /\ Accepted(E)>>,
  <<"C11_RetryFresh", ReqE /\ IsComposite /\ IsParentReq(E, C) /\ E.verb = "updateStatus" /\ C.statusConflict>>,
  <<"C11_Written", IsEv("SyncEnd") /\ IsComposite /\ E.a \in DOMAIN ctx /\ ctx[E.a].active /\ ReachedR(ctx[E.a])>>,
  <<"C12_ErrorRequeues", IsEv("SyncEnd") /\ E.a \in DOMAIN ctx /\ ctx[E.a].active /\ (ctx[E.a].nonBenign \/ ctx[E.a].hookFail)>>,
  <<"C12_OthersProceed", IsEv("SyncEnd") /\ E.a \in DOMAIN ctx /\ ctx[E.a].active /\ ManageRan(ctx[E.a]) /\ ctx[E.a].childFault>>,
  <<"C13_RejectedNoWrites", IsEv("SyncEnd") /\ E.a \in DOMAIN ctx /\ ctx[E.a].active /\ E.result = "error" /\ ctx[E.a].nHooks > 0 /\ ~ctx[E.a].hookFail /\ ctx[E.a].failedReqs = <<>>>>,
  <<"C16_TargetWrite", DecTargetWrite>>,
  <<"C16_Applied", IsEv("SyncEnd") /\ IsDecorator /\ E.a \in DOMAIN ctx /\ ctx[E.a].active /\ ctx[E.a].nHooks = 1 /\ ctx[E.a].hookOK /\ E.result = "ok">>,
  <<"C07_RollEnd", RollEnd>>,
  <<"C07_Moved", RollEnd /\ MovedNeeding(ctx[E.a]) # {}>>,
  <<"C07_OldStay", RollWrite /\ ClaimVals(store, PUid, E.kind, E.name) # {}>>,
  <<"C08_Done", IsEv("End") /\ RollScn /\ "done" \in DOMAIN expect /\ expect.done>>,
  <<"C09_CrashSeen", IsEv("Crash")>>,
  <<"C17_HookSeesDelivered", HookE>>
>>
AnteNames == <<"C01_Bounded", "C01_QuietAfterQuiet", "C02_WriteSafe", "C02_DeleteUidPrecond", "C02_BornOwned", "C03_ViewExact", "C04_AdoptOnlyIf", "C04_ReleaseShape", "C04_LabelGate", "C06_Method", "C06_Complete", "C10_FinBeforeChild", "C10_HookChoice_finalize", "C10_RemoveOnlyFinalized", "C10_DyingNoTouch", "C11_StatusBody", "C11_RetryFresh", "C11_Written", "C12_ErrorRequeues", "C12_OthersProceed", "C13_RejectedNoWrites", "C16_TargetWrite", "C16_Applied", "C07_RollEnd", "C07_Moved", "C07_OldStay", "C08_Done", "C09_CrashSeen", "C17_HookSeesDelivered">>
VacInit == \A i \in DOMAIN AnteNames : TLCSet(i, 0)
Vacuity == \A i \in DOMAIN Antecedents : (~Antecedents[i][2]) \/ TLCSet(i, TLCGet(i) + 1)
VacReport == PrintT("VACUITY|" \o ToJson([i \in DOMAIN AnteNames |-> <<AnteNames[i], TLCGet(i)>>]))

\* =======================================================================================
\* state update
\* =======================================================================================
StoreOfK(objs) == [k \in { ObjKey(objs[i]) : i \in DOMAIN objs } |->
                     objs[CHOOSE i \in DOMAIN objs : ObjKey(objs[i]) = k]]
\* responses whose children would not satisfy the selector (label invariant)
\* (with a generated selector the controller supplies the controller-uid label itself; a desired child that ALREADY carries
\* that label with another value does not satisfy the selector {controller-uid = parent uid})
RespBad(c, resp) == /\ ~IsDecorator
                    /\ \/ (~GenSel /\ c.selOK /\ \E i \in DOMAIN resp.children : ~Matches(c.sel, resp.children[i].labels))
                       \/ (GenSel /\ \E i \in DOMAIN resp.children : "controller-uid" \in DOMAIN resp.children[i].labels
                                                                       /\ resp.children[i].labels["controller-uid"] # c.parent.uid)

Put(e) == IF e.post = e.pre THEN store ELSE (Key(e) :> e.post) @@ store

\* failures that are not one of the documented benign races
NonBenign(e, c) ==
  /\ ~Accepted(e)
  /\ \/ e.code \in {0, 422, 500, 503, 504}
     \/ (e.code = 409 /\ e.verb = "delete")

CtxAfterReq(c, e) ==
  LET isParentGet == e.verb = "get" /\ IsParentReq(e, c)
      childMut    == IsChildReq(e) /\ e.verb \in WriteVerbs /\ ~IsAdoption(e, c) /\ ~IsRelease(e, c)
      revMut      == IsRevReq(e) /\ e.verb \in WriteVerbs /\ ~IsAdoption(e, c) /\ ~IsRelease(e, c)
      parentPut   == IsParentReq(e, c) /\ e.verb \in {"update", "updateStatus"}
  IN [c EXCEPT
        !.rechecked = @ \/ (isParentGet /\ Accepted(e) /\ e.got.uid = c.parent.uid /\ ~e.got.deleting),
        !.seen = IF e.verb = "get" /\ Accepted(e) THEN (Key(e) :> e.got) @@ @
                 ELSE IF e.verb \in {"update", "updateStatus", "create", "apply", "jsonpatch"} /\ Accepted(e) /\ e.post.live
                      THEN (Key(e) :> e.post) @@ @      \* the response of an accepted write is an observation too
                 ELSE @,
        !.lastParentGet = IF isParentGet /\ Accepted(e) THEN e.got ELSE IF isParentGet THEN AbsentObj ELSE @,
        !.cur = IF parentPut /\ e.verb = "update" /\ Accepted(e) /\ c.nHooks = 0 /\ e.ret.live THEN e.ret ELSE @,
        !.adopted = IF Accepted(e) /\ IsOwnedKind(e) /\ IsAdoption(e, c) THEN @ \cup {Key(e)} ELSE @,
        !.released = IF Accepted(e) /\ IsOwnedKind(e) /\ IsRelease(e, c) THEN @ \cup {Key(e)} ELSE @,
        !.issued = IF childMut /\ c.nHooks > 0 THEN @ \cup {<<e.verb, Key(e)>>} ELSE @,
        \* before the hook call the controller only adopts and releases; a REJECTED attempt of that phase changes nothing
        \* (and cannot be told from its post-state), so it is not a child write
        !.childWrites = IF childMut /\ (Accepted(e) \/ c.nHooks > 0) THEN @ + 1 ELSE @,
        !.childReqs = IF IsChildReq(e) /\ e.verb \in WriteVerbs THEN @ + 1 ELSE @,
        !.childWritesAfterHook = IF childMut /\ c.nHooks > 0 THEN @ + 1 ELSE @,
        !.revWrites = IF revMut THEN @ + 1 ELSE @,
        !.revWritesAfterChild = IF revMut /\ c.childWrites > 0 THEN @ + 1 ELSE @,
        !.revFailed = @ \/ (revMut /\ ~Accepted(e)),
        !.childAfterRevFail = IF childMut /\ c.revFailed THEN @ + 1 ELSE @,
        !.faults = IF e.injected # -1 THEN @ + 1 ELSE @,
        !.conflictSeen = @ \/ (e.code = 409),
        !.nonBenign = @ \/ NonBenign(e, c),
        !.childFault = @ \/ (childMut /\ ~Accepted(e) /\ c.nHooks > 0),
        !.claimFail = @ \/ (c.nHooks = 0 /\ ~Accepted(e) /\ e.code \notin {404}),
        !.statusConflict = @ \/ (parentPut /\ e.code = 409),
        \* this sync has removed our finalizer from the parent (whatever object the code keeps working with)
        !.finGone = @ \/ (parentPut /\ e.verb = "update" /\ Accepted(e) /\ HasFin(e.pre, c) /\ ~(e.post.live /\ HasFin(e.post, c))),
        !.statusConflicts = IF parentPut /\ e.code = 409 /\ c.nHooks > 0 THEN @ + 1 ELSE @,
        !.parentGone = @ \/ (IsParentReq(e, c) /\ (e.code = 404 \/ (Accepted(e) /\ e.verb = "get" /\ e.got.uid # c.parent.uid))),
        !.needFreshGet = IF parentPut /\ e.verb = "updateStatus" /\ e.code = 409 THEN TRUE
                         ELSE IF isParentGet THEN FALSE ELSE @,
        !.statusPuts = IF parentPut /\ c.nHooks > 0 THEN @ + 1 ELSE @,
        !.parentChanged = @ \/ (parentPut /\ Accepted(e) /\ e.post # e.pre),
        !.parentReqsAfterHook = IF IsParentReq(e, c) /\ c.nHooks > 0 THEN @ + 1 ELSE @,
        !.wrote = @ \/ (e.verb # "get" /\ e.post # e.pre),
        !.failedReqs = IF ~Accepted(e) THEN Append(@, <<e.verb, e.kind, e.name, e.code>>) ELSE @ ]

\* with ETag support on, "not modified" (304 / 412) in answer to an If-None-Match whose ETag came with an ACCEPTED answer is a
\* success served from the cache; in every other case anything but 200 is a failed call
EtagOn == "etag" \in DOMAIN cfg /\ cfg.etag
NotModifiedOK(c, e) == /\ EtagOn /\ e.code \in {304, 412} /\ "inm" \in DOMAIN e /\ e.inm # "" /\ e.inm \in c.okEtags
HookFailed(c, e) == e.code # 200 /\ ~NotModifiedOK(c, e)
CtxAfterHook(c, e) ==
  IF e.hook = "customize" THEN [c EXCEPT !.hookFail = @ \/ HookFailed(c, e),
                                         !.hook429 = @ \/ (e.code = 429),
                                         !.okEtags = IF e.code = 200 /\ "etag" \in DOMAIN e /\ e.etag # "" THEN @ \cup {e.etag} ELSE @]
  ELSE [c EXCEPT !.nHooks = @ + 1,
                 !.hookSeq = Append(@, [parent |-> e.req.parent, resp |-> e.resp, code |-> e.code]),
                 !.resp = IF e.code = 200 THEN e.resp ELSE @,
                 !.hookReq = e.req,
                 !.hookParent = e.req.parent,
                 !.finalizing = e.req.finalizing,
                 !.hookCode = e.code,
                 !.hookOK = (e.code = 200 /\ e.resp.wellFormed),
                 !.allOK = @ /\ e.code = 200 /\ e.resp.wellFormed,
                 !.hookFail = @ \/ HookFailed(c, e),
                 !.okEtags = IF e.code = 200 /\ "etag" \in DOMAIN e /\ e.etag # "" THEN @ \cup {e.etag} ELSE @,
                 !.hook429 = @ \/ (e.code = 429),
                 !.allFinalized = @ /\ e.code = 200 /\ e.resp.finalized,
                 !.gateBad = @ \/ (e.code = 200 /\ RespBad(c, e.resp))]

CacheFresh(e) == /\ \A i \in DOMAIN e.cache : Lookup(store, ObjKey(e.cache[i])) = e.cache[i]
                 /\ \A k \in DOMAIN store : (store[k].live /\ store[k].kind \in (ChildKinds \cup {ParentKind}))
                                               => \E i \in DOMAIN e.cache : ObjKey(e.cache[i]) = k
NewCtx(e) ==
  [NoCtx EXCEPT !.active = TRUE, !.sid = e.sid, !.key = e.key, !.parent = e.parent,
                !.sel = IF "sel" \in DOMAIN e THEN e.sel ELSE EmptySel,
                !.selOK = IF "selOK" \in DOMAIN e THEN e.selOK ELSE FALSE,
                !.marker = IF "marker" \in DOMAIN e THEN e.marker ELSE "",
                !.fin = IF "fin" \in DOMAIN e THEN e.fin ELSE "",
                !.obs = StoreOfK(e.cache),
                !.store0 = store,
                !.fresh = CacheFresh(e),
                !.atFix = IF HasExpect("fix") THEN AtFix(store) ELSE FALSE,
                !.okEtags = IF e.a \in DOMAIN ctx THEN ctx[e.a].okEtags ELSE {},
                \* (a sync whose hook call failed or asked to come back later -- 429 -- has decided nothing)
                !.prevQuiet = IF e.a \in DOMAIN ctx THEN (ctx[e.a].result = "ok" /\ ~ctx[e.a].wrote /\ ctx[e.a].childReqs = 0
                                                          /\ ctx[e.a].nHooks > 0 /\ ~ctx[e.a].hookFail) ELSE FALSE]

Init == l = 1 /\ store = <<>> /\ cfg = [children |-> <<>>] /\ expect = <<>> /\ ctx = <<>> /\ VacInit

\* an environment step ends every "nothing changed" streak
EnvResets == [a \in DOMAIN ctx |-> [ctx[a] EXCEPT !.result = "env", !.wrote = TRUE]]

Next ==
  /\ HasE
  /\ l' = l + 1
  /\ CASE E.ev = "Reset"     -> /\ store' = StoreOfK(E.objs) /\ cfg' = E.cfg /\ ctx' = <<>>
                                /\ expect' = IF "expect" \in DOMAIN E THEN E.expect ELSE <<>>
       [] E.ev = "Env"       -> store' = Put(E) /\ ctx' = EnvResets /\ UNCHANGED <<cfg, expect>>
       [] E.ev = "Req"       -> /\ store' = Put(E) /\ UNCHANGED <<cfg, expect>>
                                /\ ctx' = IF InSync(E) THEN [ctx EXCEPT ![E.a] = CtxAfterReq(@, E)] ELSE ctx
       [] E.ev = "Hook"      -> /\ UNCHANGED <<store, cfg, expect>>
                                /\ ctx' = IF InSync(E) THEN [ctx EXCEPT ![E.a] = CtxAfterHook(@, E)] ELSE ctx
       [] E.ev = "Reconfig"  -> cfg' = E.cfg /\ UNCHANGED <<store, expect, ctx>>
       [] E.ev = "SyncStart" -> UNCHANGED <<store, cfg, expect>> /\ ctx' = (E.a :> NewCtx(E)) @@ ctx
       [] E.ev = "SyncEnd"   -> /\ UNCHANGED <<store, cfg, expect>>
                                /\ ctx' = IF E.a \in DOMAIN ctx THEN [ctx EXCEPT ![E.a].active = FALSE, ![E.a].result = E.result] ELSE ctx
       [] OTHER              -> UNCHANGED <<store, cfg, expect, ctx>>

Spec == Init /\ [][Next]_vars

\* every line consumed: the spec never gets stuck on an event
TraceAccepted == VacReport /\ TLCGet("stats").diameter - 1 = N
=============================================================================
