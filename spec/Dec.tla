-------------------------------- MODULE Dec --------------------------------
(* Decorator sync at request granularity (C16): selector conjunction, copy of the cached  *)
(* target, merge of the answer's label / annotation maps (null deletes), status rule,      *)
(* finalizer, "update only on change", status through the status endpoint first and then   *)
(* the main update with the new resourceVersion (pkg/controller/decorator/controller.go    *)
(* syncParentObject), interleaved with a user who edits the target's spec or labels.       *)
(*                                                                                       *)
(* Abstract target: one decorator-named label key k (value or absent), one foreign label   *)
(* that must stay, the same for annotations, a status, a spec version, finalizers.         *)
EXTENDS Integers, Sequences, FiniteSets, TLC, Json

CONSTANTS EnvBudget, Beh, StatusSubs, Selections, SelStyles
\* SelStyles: subset of {"ml", "me", "mixed"}: how the two selectors are written (matchLabels / matchAnnotations only,
\*            matchExpressions only, both kinds of clause) -- the same targets are selected in every style
\* Selections: subset of {"both","labelOnly","annOnly","neither"} (which selectors the target satisfies)

Vals    == {"none", "a", "b"}                       \* value of the named key ("none" = absent)
Answers == {"unnamed", "a", "b", "null"}            \* what the hook says about that key
StVals  == {"none", "s0", "s1"}
StAns   == {"null", "s0", "s1"}

VARIABLES tgt, cache, pc, loc, budget, rvc, viol, hist, ans, sub, sel, t0, fin0, style
vars == <<tgt, cache, pc, loc, budget, rvc, viol, hist, ans, sub, sel, t0, fin0, style>>
H(e) == IF Beh THEN Append(hist, e) ELSE hist

Tgt(l, a, s) == [lab |-> l, ann |-> a, st |-> s, spec |-> 1, rv |-> 1, userLab |-> 1]
Init ==
  /\ \E l \in Vals, a \in Vals, s \in {"none", "s0"} : tgt = Tgt(l, a, s)
  /\ cache = tgt /\ t0 = tgt
  /\ ans \in [lab : Answers, ann : Answers, st : StAns]
  /\ sub \in StatusSubs /\ sel \in Selections /\ style \in SelStyles
  /\ fin0 = FALSE
  /\ pc = "start" /\ loc = [upd |-> tgt, rv |-> 0] /\ budget = EnvBudget /\ rvc = 1 /\ viol = {} /\ hist = <<>>

Apply(v, a) == IF a = "unnamed" THEN v ELSE IF a = "null" THEN "none" ELSE a
Selected == sel = "both"
\* the sync works on a copy of the CACHED target
Start ==
  /\ pc = "start" /\ hist' = H([t |-> "sync"])
  /\ IF ~Selected THEN pc' = "done" /\ UNCHANGED loc
     ELSE LET c == cache
              newLab == Apply(c.lab, ans.lab)  newAnn == Apply(c.ann, ans.ann)
              newSt  == IF ans.st = "null" THEN c.st ELSE ans.st
              changed == newLab # c.lab \/ newAnn # c.ann \/ newSt # c.st
              upd == [c EXCEPT !.lab = newLab, !.ann = newAnn, !.st = newSt] IN
          IF ~changed THEN pc' = "done" /\ UNCHANGED loc
          ELSE IF newSt # c.st /\ sub THEN pc' = "stPut" /\ loc' = [upd |-> upd, rv |-> c.rv]
          ELSE pc' = "mainPut" /\ loc' = [upd |-> upd, rv |-> c.rv]
  /\ UNCHANGED <<tgt, cache, budget, rvc, viol, ans, sub, sel, t0, fin0, style>>
\* PUT .../status with the cached resourceVersion: only status changes
StPut ==
  /\ pc = "stPut"
  /\ LET ok == tgt.rv = loc.rv IN
     /\ hist' = H([t |-> "req", verb |-> "updateStatus", code |-> IF ok THEN 200 ELSE 409])
     /\ IF ok THEN /\ tgt' = [tgt EXCEPT !.st = loc.upd.st, !.rv = rvc + 1] /\ rvc' = rvc + 1
                   /\ pc' = "mainPut" /\ loc' = [loc EXCEPT !.rv = rvc + 1]
        ELSE UNCHANGED <<tgt, rvc, loc>> /\ pc' = "done"               \* conflict: swallowed, reconciled again later
  /\ UNCHANGED <<cache, budget, viol, ans, sub, sel, t0, fin0, style>>
\* PUT of the whole (copied, edited) object; with a status subresource the server ignores .status
MainPut ==
  /\ pc = "mainPut"
  /\ LET ok == tgt.rv = loc.rv
         new == [tgt EXCEPT !.lab = loc.upd.lab, !.ann = loc.upd.ann, !.st = IF sub THEN tgt.st ELSE loc.upd.st,
                            !.spec = loc.upd.spec, !.userLab = loc.upd.userLab] IN
     /\ hist' = H([t |-> "req", verb |-> "update", code |-> IF ok THEN 200 ELSE 409])
     /\ IF ok THEN /\ tgt' = IF new = tgt THEN tgt ELSE [new EXCEPT !.rv = rvc + 1]
                   /\ rvc' = IF new = tgt THEN rvc ELSE rvc + 1
                   /\ viol' = viol \cup (IF new.spec # tgt.spec \/ new.userLab # tgt.userLab THEN {"C16_SpecUntouched"} ELSE {})
        ELSE UNCHANGED <<tgt, rvc, viol>>
     /\ pc' = "done" /\ UNCHANGED loc
  /\ UNCHANGED <<cache, budget, ans, sub, sel, t0, fin0, style>>
\* a user edits spec / a foreign label while the sync is between its requests (Beh: only there)
EnvOK == budget > 0 /\ (Beh => pc \in {"stPut", "mainPut"})
EditSpec == /\ EnvOK /\ budget' = budget - 1 /\ tgt' = [tgt EXCEPT !.spec = @ + 1, !.rv = rvc + 1] /\ rvc' = rvc + 1
            /\ hist' = H([t |-> "env", op |-> "editspec"]) /\ UNCHANGED <<cache, pc, loc, viol, ans, sub, sel, t0, fin0, style>>
EditLab  == /\ EnvOK /\ budget' = budget - 1 /\ tgt' = [tgt EXCEPT !.userLab = @ + 1, !.rv = rvc + 1] /\ rvc' = rvc + 1
            /\ hist' = H([t |-> "env", op |-> "editlabel"]) /\ UNCHANGED <<cache, pc, loc, viol, ans, sub, sel, t0, fin0, style>>
Next == Start \/ StPut \/ MainPut \/ EditSpec \/ EditLab
Spec == Init /\ [][Next]_vars

\* ---- properties (design level) -------------------------------------------------------------
C16_SpecUntouched == "C16_SpecUntouched" \notin viol
\* only what the answer names changes, and only towards the answer
C16_OnlyNamed == /\ (tgt.lab # t0.lab => tgt.lab = Apply(t0.lab, ans.lab))
                 /\ (tgt.ann # t0.ann => tgt.ann = Apply(t0.ann, ans.ann))
C16_StatusRule == tgt.st # t0.st => (ans.st # "null" /\ tgt.st = ans.st)
C16_Selected == (~Selected) => (tgt.lab = t0.lab /\ tgt.ann = t0.ann /\ tgt.st = t0.st)
\* without interference the target ends up decorated
C16_Done == (pc = "done" /\ budget = EnvBudget /\ Selected) =>
              (tgt.lab = Apply(t0.lab, ans.lab) /\ tgt.ann = Apply(t0.ann, ans.ann) /\ (ans.st # "null" => tgt.st = ans.st))

Emit == (Beh /\ pc = "done") =>
  PrintT("SCN|" \o ToJson([t0 |-> t0, ans |-> ans, sub |-> sub, sel |-> sel, style |-> style, hist |-> hist, final |-> tgt]))
=============================================================================
