---------------------------- MODULE MC_Status ----------------------------
EXTENDS Status
FAll == {0, 409, 500, 404}
FNone == {0}
VAll == {"absent", "empty", "nested", "ownObsGen", "conditions"}
VOne == {"nested"}
=============================================================================
