SPECIFICATION Spec
CONSTANTS
  MaxEv = 3
  Focus <- FAll
  Kinds <- KBoth
  Width = "narrow"
  Real = TRUE
  Fixed = FALSE
  Beh = FALSE
INVARIANTS D_Complete D_Sound D_KeyParses
CHECK_DEADLOCK FALSE
