SPECIFICATION Spec
CONSTANTS
  Slots <- Slots3
  Kinds <- KBoth
  Methods <- MAll
  Progs <- PAll
  Scopes <- ScOne
  GenSels <- GNo
  ArcheSet = "full"
PROPERTIES C01_Converges C01_Quiet C02_OnlyOwned
INVARIANTS C01_Linear
CHECK_DEADLOCK FALSE
