SPECIFICATION Spec
CONSTANTS
  EnvBudget = 2
  Faults <- FAll
  Beh = TRUE
  MaxTries = 4
  Variants <- VAll
INVARIANTS Emit
CHECK_DEADLOCK FALSE
