SPECIFICATION Spec
CONSTANTS
  KidSeq <- Kids2
  Actors <- ActorsAB
  EnvBudget = 1
  Method = "InPlace"
  Recheck = TRUE
  Beh = TRUE
  InitSet = "race"
  DesiredSets <- DesA
INVARIANTS Emit
CHECK_DEADLOCK FALSE
