SPECIFICATION Spec
CONSTANTS
  NS = 2
  NR = 1
  NO = 1
  MaxOps = 7
  MaxH = 3
  Ticks = FALSE
  Beh = TRUE
  Mut = "none"
  AddEv = TRUE
CHECK_DEADLOCK FALSE
INVARIANTS Emit
