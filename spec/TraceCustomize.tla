---------------------------- MODULE TraceCustomize ----------------------------
(* Trace validation for C15: the sync-level trace specification (TraceSync: store,       *)
(* per-sync context, environment axioms) extended by what the related-object clauses      *)
(* need to remember:                                                                      *)
(*   asked    (parent uid, generation) -> the rules the customize hook REALLY returned    *)
(*            (digested by the harness from the response body) -- the customize cache as  *)
(*            the statement describes it                                                  *)
(*   lastRel  parent -> the objects of the `related` map last sent to sync / finalize      *)
(*   tcz      configuration reported by the real controller object (TrigCfg event)         *)
(* Monitors (reporting, continuing):                                                       *)
(*   C15_Exact   related map of a sync/finalize request = Customize!Selected               *)
(*   C15_Errors  mixed rule / foreign namespace => the sync fails, no hook call, no write  *)
(*   C15_Once    the customize hook is not asked again for a (uid, generation) whose        *)
(*               answer is cached; the rules in force are those asked for THIS generation  *)
(*   C15_Wakes   a change of an object listed in a parent's related map queues that parent  *)
(*               (Queue event: what was delivered to the real handlers + drained queue)     *)
EXTENDS TraceSync, Customize

T == INSTANCE Triggers

VARIABLES tcz, asked, lastRel, askFailed
cvars == <<tcz, asked, lastRel, askFailed>>

NoSelC == [ml |-> <<>>, me |-> <<>>]
NoTc   == [kind |-> "none", pkind |-> "", pav |-> "", pNs |-> FALSE, genSel |-> FALSE, ignoreStatus |-> FALSE, fin |-> "",
           csel |-> NoSelC, casel |-> NoSelC, childKinds |-> <<>>, relKinds |-> <<>>, customize |-> FALSE]

CustomOn  == tcz.kind # "none" /\ tcz.customize
LiveObjs  == { store[k] : k \in { x \in DOMAIN store : store[x].live } }
OKey(o)   == <<o.kind, o.ns, o.name, o.uid>>
RelObjs(req) == UNION { { req.related[g][n] : n \in DOMAIN req.related[g] } : g \in DOMAIN req.related }
Known(p)  == CacheKey(p) \in DOMAIN asked
RulesFor(p) == asked[CacheKey(p)]

\* ---- C15_Exact ------------------------------------------------------------------------------
C15_Exact ==
  (HookE /\ CustomOn /\ Known(E.req.parent) /\ ~HasErr(RulesFor(E.req.parent), E.req.parent, tcz.pNs))
  => LET p == E.req.parent
         exp == { OKey(o) : o \in Selected(RulesFor(p), p, tcz.pNs, LiveObjs) }
         got == { OKey(o) : o \in RelObjs(E.req) }
     IN \/ got = exp
        \/ Report("C15", "C15_Exact", <<"hook", E.hook, "parent", <<p.ns, p.name>>, "missing", exp \ got, "unexpected", got \ exp>>)
\* rules the statement calls an error never reach the sync / finalize hook (reported once, by C15_Errors at the end of
\* the sync)
\* without customize hook nothing is related
C15_ExactOff ==
  (HookE /\ tcz.kind # "none" /\ ~tcz.customize)
  => (RelObjs(E.req) = {} \/ Report("C15", "C15_Exact", <<"related objects without customize hook", { OKey(o) : o \in RelObjs(E.req) }>>))

\* ---- C15_Errors -----------------------------------------------------------------------------
C15_Errors ==
  (IsEv("SyncEnd") /\ CustomOn /\ E.a \in DOMAIN ctx /\ ctx[E.a].active /\ ctx[E.a].parent.live
     /\ T!Cares(tcz, ctx[E.a].parent) /\ Known(ctx[E.a].parent)
     /\ HasErr(RulesFor(ctx[E.a].parent), ctx[E.a].parent, tcz.pNs) /\ ctx[E.a].failedReqs = <<>>)
  => LET c == ctx[E.a] IN
     \/ (E.result = "error" /\ c.nHooks = 0 /\ c.childWrites = 0)
     \/ Report("C15", "C15_Errors", <<"rules with a mixed rule or a foreign namespace did not fail the sync", "result", E.result,
                                       "hookCalls", c.nHooks, "childWrites", c.childWrites,
                                       "mixed", \E i \in DOMAIN RulesFor(c.parent) : RuleMixed(RulesFor(c.parent)[i]),
                                       "foreign", \E i \in DOMAIN RulesFor(c.parent) : RuleForeignNs(RulesFor(c.parent)[i], c.parent, tcz.pNs)>>)

\* ---- C15_Once -------------------------------------------------------------------------------
CustomizeOK == IsEv("Hook") /\ E.hook = "customize" /\ "rulesOK" \in DOMAIN E /\ E.rulesOK
C15_Once ==
  /\ CustomizeOK => (~Known(E.req.parent)
                     \/ Report("C15", "C15_Once", <<"asked again although the answer for this uid and generation is cached",
                                                    E.req.parent.uid, E.req.parent.gen>>))
  /\ (HookE /\ CustomOn) => (Known(E.req.parent)
                             \/ Report("C15", "C15_Once", <<"sync/finalize called with rules never asked for this generation",
                                                            E.req.parent.uid, E.req.parent.gen, DOMAIN asked>>))

\* ---- C15_Wakes ------------------------------------------------------------------------------
KeyOKc(p) == p.ok /\ (tcz.kind = "decorator" => (p.av = tcz.pav /\ p.kind = tcz.pkind))
QueuedIds == { <<p.ns, p.name>> : p \in { x \in Range(E.parsed) : KeyOKc(x) } }
ChangedObjs == { T!Obj(E.evs[i]) : i \in { j \in DOMAIN E.evs : E.evs[j].type \in {"update", "delete", "tombstone"} } }
\* the rules in force for parent q: those asked for its present generation (the handlers ask the hook when the answer is
\* not cached), else those of the generation whose related map was sent last
RulesNow(q, lr) == IF Known(q) THEN RulesFor(q)
                   ELSE IF <<lr.uid, lr.gen>> \in DOMAIN asked THEN asked[<<lr.uid, lr.gen>>] ELSE <<>>
C15_Wakes ==
  (IsEv("Queue") /\ CustomOn)
  => \A pk \in DOMAIN lastRel :
       \A o \in { x \in ChangedObjs : ObjKey(x) \in lastRel[pk].keys } :
         \* the parent as synced last -- or, when its generation moved on since (not synced again yet), as far as the
         \* rules in force still select the object
         \* (a parent whose customize call for its present generation has just FAILED has no rules in force: nothing demanded)
         LET cand == { q \in Range(E.parents) : /\ ObjKey(q) = pk /\ q.uid = lastRel[pk].uid /\ T!Cares(tcz, q)
                                                 /\ CacheKey(q) \notin askFailed
                                                 /\ (q.gen = lastRel[pk].gen \/ o \in Selected(RulesNow(q, lastRel[pk]), q, tcz.pNs, {o})) }
         IN \A q \in cand : \/ <<q.ns, q.name>> \in QueuedIds
                            \/ Report("C15", "C15_Wakes", <<"object of the related map changed, parent not queued", "object", ObjKey(o),
                                                            "parent", <<q.ns, q.name>>, "gen", q.gen, "synced at", lastRel[pk].gen, "keys", E.keys>>)

\* ---- state ----------------------------------------------------------------------------------
CInit == Init /\ tcz = NoTc /\ asked = <<>> /\ lastRel = <<>> /\ askFailed = {}
CUpd ==
  CASE E.ev = "Reset"   -> tcz' = NoTc /\ asked' = <<>> /\ lastRel' = <<>> /\ askFailed' = {}
    [] E.ev = "TrigCfg" -> tcz' = E.tc /\ UNCHANGED <<asked, lastRel, askFailed>>
    [] E.ev = "Hook"    ->
         /\ UNCHANGED tcz
         /\ asked' = IF E.hook = "customize" /\ "rulesOK" \in DOMAIN E /\ E.rulesOK
                     THEN (CacheKey(E.req.parent) :> E.rules) @@ asked ELSE asked
         /\ askFailed' = IF E.hook # "customize" THEN askFailed
                         \* (kept until the next Queue observation: which of a step's events a hook call served is not recorded)
                         ELSE IF E.code = 200 THEN askFailed ELSE askFailed \cup {CacheKey(E.req.parent)}
         /\ lastRel' = IF E.hook \in {"sync", "finalize"}
                       THEN (ObjKey(E.req.parent) :> [uid |-> E.req.parent.uid, gen |-> E.req.parent.gen,
                                                      keys |-> { ObjKey(o) : o \in RelObjs(E.req) }]) @@ lastRel
                       ELSE lastRel
    [] E.ev \in {"Reconfig", "Crash"} -> asked' = <<>> /\ askFailed' = {} /\ UNCHANGED <<tcz, lastRel>>
    [] E.ev = "Queue" -> askFailed' = {} /\ UNCHANGED <<tcz, asked, lastRel>>
    [] OTHER -> UNCHANGED cvars
CNext == Next /\ CUpd
CSpec == CInit /\ [][CNext]_<<vars, cvars>>
=============================================================================
