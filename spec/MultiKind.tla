------------------------------ MODULE MultiKind ------------------------------
(* A parent whose children are of TWO resources carrying the SAME names (Thing a, b and        *)
(* ConfigMap a, b), each resource with its own update strategy.  Everything metacontroller      *)
(* keeps per child is keyed by (group, kind, name): the observed / desired maps, the update     *)
(* strategy table, the claims recorded in ControllerRevisions.  One action = one whole sync     *)
(* (fresh cache); the rolling part follows rolling_update.go: a single gated move per sync in    *)
(* hook order ACROSS the rolling kinds, children of non-rolling kinds are never claimed.          *)
(* (manage_children.go updateChildren per method; rolling_update.go isRolling / claimMapKey;      *)
(* common.go updateStrategyMap.GetMethod)                                                         *)
EXTENDS Integers, Sequences, FiniteSets, TLC, Json

CONSTANTS Pairs,     \* set of <<method of Thing, method of ConfigMap>>
          CtlKinds,  \* subset of {"composite", "decorator"} (a decorator treats the rolling methods like their plain forms)
          Rounds

KindSeq == <<"Thing", "ConfigMap">>
Names   == <<"a", "b">>
Kids    == { <<k, n>> : k \in {"Thing", "ConfigMap"}, n \in {"a", "b"} }
\* hook order: all Things, then all ConfigMaps
Order   == <<<<"Thing", "a">>, <<"Thing", "b">>, <<"ConfigMap", "a">>, <<"ConfigMap", "b">>>>
Pos(c)  == CHOOSE i \in DOMAIN Order : Order[i] = c
Rolling(m) == m \in {"RollingRecreate", "RollingInPlace"}
Plain(m)   == CASE m = "RollingRecreate" -> "Recreate" [] m = "RollingInPlace" -> "InPlace" [] OTHER -> m

VARIABLES kid,      \* child -> [live, v]        v = the revision of the parent the child's content comes from
          pair, ctl, pert, round, want, onLatest, moved, old, hist
vars == <<kid, pair, ctl, pert, round, want, onLatest, moved, old, hist>>

MethodOfKid(c) == IF c[1] = "Thing" THEN pair[1] ELSE pair[2]
\* the method in force: decorators have no revision history, Rolling* behaves like the plain method
Eff(c) == IF ctl = "decorator" THEN Plain(MethodOfKid(c)) ELSE MethodOfKid(c)
NoPert == [on |-> FALSE, c |-> <<"Thing", "a">>, round |-> 0]
Init ==
  /\ pair \in Pairs /\ ctl \in CtlKinds
  /\ kid = [c \in Kids |-> [live |-> FALSE, v |-> 0]]
  /\ pert \in {NoPert} \cup { [on |-> TRUE, c |-> c, round |-> r] : c \in Kids, r \in 2..4 }
  /\ round = 0 /\ want = 1 /\ onLatest = {} /\ moved = {} /\ old = kid /\ hist = <<>>

UpToDate(k, c) == k[c].live /\ k[c].v = want
RollKids == { c \in Kids : Rolling(Eff(c)) }
First(S) == CHOOSE c \in S : \A d \in S : Pos(c) <= Pos(d)
\* one sync on state k (after the perturbations of the round)
SyncOn(k, w, onl) ==
  LET \* with a single live revision (w = 1, or the rollout is over) every rolling child belongs to the latest
      onl0  == IF w = 1 THEN RollKids ELSE onl \cup { c \in RollKids : k[c].live /\ k[c].v = w }
      gate  == \A c \in onl0 : k[c].live /\ k[c].v = w
      need  == RollKids \ onl0
      mv    == IF need # {} /\ gate THEN {First(need)} ELSE {}
      onl1  == onl0 \cup mv
      target(c) == IF Rolling(Eff(c)) /\ c \notin onl1 THEN w - 1 ELSE w       \* old-revision children stay at the old revision
      newk == [c \in Kids |->
                 LET t == target(c)  m == Plain(Eff(c)) IN
                 IF ~k[c].live THEN [live |-> TRUE, v |-> t]                     \* missing children are (re)created, whatever the method
                 ELSE IF k[c].v = t THEN k[c]
                 ELSE CASE m = "OnDelete" -> k[c]
                        [] m = "InPlace"  -> [live |-> TRUE, v |-> t]
                        [] m = "Recreate" -> [live |-> FALSE, v |-> 0]
                        [] OTHER -> k[c]]
  IN [kid |-> newk, onLatest |-> onl1, moved |-> { c \in mv : ~(k[c].live /\ k[c].v = w) }]

Round ==
  /\ round < Rounds
  /\ LET w  == IF round >= 1 THEN 2 ELSE 1                    \* the revisioned field changes before round 1's sync
         k0 == IF pert.on /\ pert.round = round THEN [kid EXCEPT ![pert.c] = [live |-> FALSE, v |-> 0]] ELSE kid
         onl == IF w # want THEN {} ELSE onLatest            \* a new revision starts with no claims of its own
         e  == SyncOn(k0, w, onl) IN
     /\ kid' = e.kid /\ onLatest' = e.onLatest /\ moved' = e.moved /\ want' = w /\ old' = k0
     /\ round' = round + 1
     /\ hist' = Append(hist, [i \in DOMAIN Order |-> IF e.kid[Order[i]].live THEN e.kid[Order[i]].v ELSE 0])
  /\ UNCHANGED <<pair, ctl, pert>>
Next == Round
Spec == Init /\ [][Next]_vars /\ WF_vars(Round)

\* ---- properties ------------------------------------------------------------------------------
\* each kind is changed only by the method of ITS strategy
MK_Method == \A c \in Kids :
  LET m == Plain(Eff(c)) IN
  /\ (m = "OnDelete" /\ old[c].live) => kid[c] = old[c]
  /\ (m = "InPlace"  /\ old[c].live) => kid[c].live
  /\ (m = "Recreate" /\ old[c].live /\ kid[c].live) => kid[c] = old[c]
\* at most one rolling child is moved per sync, across the rolling kinds
MK_OneMove == Cardinality(moved) <= 1
\* children of non-rolling kinds never wait for the rollout of the other kind
MK_NoCrossWait == (round >= 3 /\ ~pert.on) => \A c \in Kids : Plain(Eff(c)) = Eff(c) /\ Eff(c) \in {"InPlace", "Recreate"} => UpToDate(kid, c)
Final(c) == IF Plain(Eff(c)) = "OnDelete" /\ ~(pert.on /\ pert.c = c) THEN 1 ELSE 2
MK_Done == round >= Rounds => \A c \in Kids : kid[c].live /\ kid[c].v = Final(c)

Emit == (round = Rounds) =>
  PrintT("SCN|" \o ToJson([pair |-> pair, ctl |-> ctl, pert |-> pert, rounds |-> Rounds, hist |-> hist,
                           final |-> [i \in DOMAIN Order |-> [kind |-> Order[i][1], name |-> Order[i][2], v |-> kid[Order[i]].v, live |-> kid[Order[i]].live]]]))
=============================================================================
