SPECIFICATION Spec
CONSTANTS
  Pairs <- PAll
  CtlKinds <- KBoth
  Rounds = 14
INVARIANTS MK_Method MK_OneMove MK_NoCrossWait MK_Done
CHECK_DEADLOCK FALSE
