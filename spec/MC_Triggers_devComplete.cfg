SPECIFICATION Spec
CONSTANTS
  MaxEv = 1
  Focus <- FParent
  Kinds <- KBoth
  Width = "core"
  Real = FALSE
  Fixed = FALSE
  Beh = FALSE
INVARIANTS D_StrictComplete
CHECK_DEADLOCK FALSE
