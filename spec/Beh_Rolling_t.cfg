SPECIFICATION Spec
CONSTANTS
  Order <- O3
  Methods <- MBoth
  ChecksSet <- BBoth
  Policies <- PThree
  Variant = "intended"
  MaxPert = 2
  Rounds = 24
  OwnConds <- OCNone
  Presets <- BNo
  GenSels <- BNo
  ScaleRevs <- BBoth
INVARIANTS Emit
CHECK_DEADLOCK FALSE
