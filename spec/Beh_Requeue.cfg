SPECIFICATION Spec
CONSTANTS
  Kinds <- KAll
  Resyncs <- RAll
  Outcomes <- OAll
INVARIANTS X02_MinPositive Emit
CHECK_DEADLOCK FALSE
