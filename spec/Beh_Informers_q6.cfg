SPECIFICATION Spec
CONSTANTS
  NS = 2
  NR = 1
  NO = 2
  MaxOps = 6
  MaxH = 3
  Ticks = FALSE
  Beh = TRUE
  Mut = "none"
  AddEv = TRUE
CHECK_DEADLOCK FALSE
INVARIANTS Emit
