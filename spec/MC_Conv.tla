---------------------------- MODULE MC_Conv ----------------------------
EXTENDS Conv
Slots2 == <<"a", "b">>
Slots3 == <<"a", "b", "c">>
KBoth  == {"composite", "decorator"}
KComp  == {"composite"}
MAll   == {"-", "OnDelete", "Recreate", "InPlace", "SSA"}
MTwo   == {"Recreate", "InPlace"}
PAll   == {"none", "first", "all", "ordinal"}
PBad   == {"none", "first", "all", "ordinal", "badlabel", "echo", "echoraw", "ownedref"}
PTwo   == {"first", "ordinal"}
ScAll  == {"NsNs", "ClNs", "ClCl", "NsCm"}
ScOne  == {"NsNs"}
GBoth  == {TRUE, FALSE}
GNo    == {FALSE}
=============================================================================
