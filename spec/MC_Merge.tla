------------------------------ MODULE MC_Merge ------------------------------
(* Exhaustive instance for property C05: every triple (observed, last-applied,        *)
(* desired) of a bounded universe of JSON objects, one TLC state per triple.           *)
(*   - design level: the laws of Merge.tla are evaluated on the transcription, both    *)
(*     with the guard as coded (g = FALSE) and as intended (g = TRUE);                 *)
(*   - S->I: every triple is printed as one line  CASE|{json}  together with the       *)
(*     transcription's prediction; bin/check replays each on the real apply.Merge and  *)
(*     ApplyUpdate and spec/TraceMerge.tla judges what the real code returned.         *)
(* The universe is organised in groups (family, subgroup); a triple is drawn from the  *)
(* three role universes of one group.  Size = "q" (quick) or "t" (thorough).           *)
EXTENDS Merge, Json, SequencesExt

CONSTANTS Size

VARIABLES ph, g, io, il, id
vars == <<ph, g, io, il, id>>

\* ---- building blocks -------------------------------------------------------------------
Sc == { I("1"), I("2"), S("x") }
V0 == Sc \cup { Null }
NoEx == <<>>
F1 == "f" :> I("1")
F2 == "f" :> I("2")
MapsOver(ks, vals) == UNION { { M(f) : f \in [D -> vals] } : D \in SUBSET ks }
Item(K, kv, ex) == M((K :> kv) @@ ex)
LM1(K, kvs, exs) == { L(<<Item(K, kv, ex)>>) : kv \in kvs, ex \in exs }
LM2(K, kvs, exs) == { L(<<Item(K, p[1], e1), Item(K, p[2], e2)>>) :
                        p \in { q \in kvs \X kvs : q[1] # q[2] }, e1 \in exs, e2 \in exs }
P == S("p")
Q == S("q")
\* a root object with one key "a" (no key at all for None)
RootA(v) == IF Missing(v) THEN M(<<>>) ELSE M("a" :> v)
ToSeq(set) == SetToSeq(set)
Group(fam, sub, uo, ul, ud) == [fam |-> fam, sub |-> sub, uo |-> ToSeq(uo), ul |-> ToSeq(ul), ud |-> ToSeq(ud)]
Same(fam, sub, u) == Group(fam, sub, u, u, u)

\* ---- family "one": one-key roots over the depth-2 value universe ------------------------
V1t == V0
       \cup MapsOver({"a", "b"}, V0)
       \cup { M("a" :> M("a" :> I("1"))), M("a" :> M(<<>>)), M("a" :> M("b" :> S("x"))),
              M("a" :> L(<<I("1")>>)), M("a" :> L(<<Item("name", P, NoEx)>>)) }
       \cup { L(<<>>), L(<<I("1")>>), L(<<I("1"), I("2")>>), L(<<I("2"), I("1")>>), L(<<S("x")>>) }
       \cup LM1("name", {P, Q}, {NoEx, F1, F2}) \cup LM2("name", {P, Q}, {NoEx, F1, F2})
       \cup { L(<<Item("id", P, NoEx)>>), L(<<Item("id", P, F1), Item("id", Q, NoEx)>>) }
       \cup { L(<<Item("name", P, NoEx), I("1")>>) }
V1q == { Null, I("1"), S("x") }
       \cup { M(<<>>), M("a" :> I("1")), M("a" :> S("x")), M("b" :> I("1")), M("a" :> I("1") @@ "b" :> I("1")),
              M("a" :> Null), M("a" :> M("a" :> I("1"))) }
       \cup { L(<<>>), L(<<I("1")>>), L(<<I("1"), I("2")>>) }
       \cup { L(<<Item("name", P, NoEx)>>), L(<<Item("name", P, F1)>>), L(<<Item("name", Q, NoEx)>>),
              L(<<Item("name", P, NoEx), Item("name", Q, NoEx)>>),
              L(<<Item("name", Q, NoEx), Item("name", P, F1)>>),
              L(<<Item("name", P, F1), Item("name", Q, F1)>>) }
       \cup { L(<<Item("id", P, NoEx)>>) }
One == LET V == IF Size = "t" THEN V1t ELSE V1q
       IN <<Same("one", "a", { RootA(v) : v \in V \cup {None} })>>

\* ---- family "two": two and three keys per level over scalars and null --------------------
Two == IF Size = "t"
       THEN <<Same("two", "ab", MapsOver({"a", "b"}, V0)),
              Same("two", "abc", MapsOver({"a", "b", "c"}, {I("1"), S("x")}))>>
       ELSE <<Same("two", "ab", MapsOver({"a", "b"}, {I("1"), S("x"), Null}))>>

\* ---- family "keys": list-maps under every conventional merge key, and under none --------
KeyLists(K) == { None, L(<<>>), L(<<Item(K, P, NoEx)>>), L(<<Item(K, P, F1)>>), L(<<Item(K, Q, NoEx)>>),
                 L(<<Item(K, P, NoEx), Item(K, Q, NoEx)>>), L(<<Item(K, Q, NoEx), Item(K, P, NoEx)>>),
                 L(<<Item(K, P, F1), Item(K, Q, NoEx)>>) }
AllKeys == KnownMergeKeys \o <<"id">>
KeysFam == [n \in DOMAIN AllKeys |-> Same("keys", AllKeys[n], { RootA(v) : v \in KeyLists(AllKeys[n]) })]

\* ---- family "prec": entries carrying two conventional keys (precedence of the convention);
\*      every list has unique values under both keys -----------------------------------------
U == S("u")
W == S("w")
It2(K1, a, K2, b, ex) == M((K1 :> a) @@ (K2 :> b) @@ ex)
PrecLists(K1, K2) ==
  { None, L(<<>>) }
  \cup { L(<<It2(K1, a, K2, b, ex)>>) : a \in {P, Q}, b \in {U, W}, ex \in (IF Size = "t" THEN {NoEx, F1} ELSE {NoEx}) }
  \cup { L(<<It2(K1, P, K2, U, F1)>>) }
  \cup { L(<<It2(K1, P, K2, U, NoEx), It2(K1, Q, K2, W, NoEx)>>), L(<<It2(K1, Q, K2, U, NoEx), It2(K1, P, K2, W, NoEx)>>) }
  \cup (IF Size = "t" THEN { L(<<It2(K1, Q, K2, W, NoEx), It2(K1, P, K2, U, NoEx)>>),
                             L(<<It2(K1, P, K2, W, NoEx), It2(K1, Q, K2, U, NoEx)>>) } ELSE {})
NK == Len(KnownMergeKeys)
PrecPairs == IF Size = "t" THEN ToSeq({ p \in (1..NK) \X (1..NK) : p[1] < p[2] })
             ELSE [n \in 1..(NK - 1) |-> <<n, n + 1>>]
PrecFam == [n \in DOMAIN PrecPairs |->
              LET K1 == KnownMergeKeys[PrecPairs[n][1]]
                  K2 == KnownMergeKeys[PrecPairs[n][2]]
              IN Same("prec", K1 \o "+" \o K2, { RootA(v) : v \in PrecLists(K1, K2) })]

\* ---- family "exotic": merge-key values that differ as JSON values but print alike -------
N1 == I("1")
S1 == S("1")
Exotic == <<Same("exotic", "name", { RootA(v) : v \in
            { None, L(<<>>), L(<<Item("name", N1, NoEx)>>), L(<<Item("name", S1, NoEx)>>),
              L(<<Item("name", N1, F1)>>), L(<<Item("name", S1, F1)>>),
              L(<<Item("name", N1, NoEx), Item("name", S1, NoEx)>>),
              L(<<Item("name", S1, NoEx), Item("name", N1, NoEx)>>),
              L(<<Item("name", N1, F1), Item("name", S1, NoEx)>>) } })>>

\* ---- family "deep": depth 4 (objects inside list-map entries, nested list-maps) ----------
Deep == <<Same("deep", "a", { RootA(v) : v \in
          { None,
            M("a" :> M("a" :> M("a" :> I("1")))), M("a" :> M("a" :> M("b" :> S("x")))), M("a" :> M("a" :> I("1"))),
            L(<<Item("name", P, NoEx)>>),
            L(<<Item("name", P, "n" :> M("a" :> I("1")))>>), L(<<Item("name", P, "n" :> M("b" :> I("1")))>>),
            L(<<Item("name", P, "n" :> M("a" :> I("2"))), Item("name", Q, NoEx)>>),
            L(<<Item("name", Q, F1), Item("name", P, "n" :> M("a" :> I("1") @@ "b" :> I("1")))>>),
            L(<<Item("name", P, "n" :> L(<<Item("name", P, NoEx)>>))>>),
            L(<<Item("name", P, "n" :> L(<<Item("name", Q, F1), Item("name", P, NoEx)>>))>>),
            L(<<Item("name", P, "n" :> L(<<Item("name", Q, NoEx)>>))>>),
            L(<<Item("name", P, "n" :> I("5"))>>), L(<<Item("name", P, "n" :> L(<<I("1")>>))>>) } })>>

\* ---- family "apply": whole objects with metadata, status and spec (ApplyUpdate) ---------
Nm == "name" :> S("c")
MetaO == { M(Nm @@ "uid" :> S("u1") @@ "resourceVersion" :> S("5")),
           M(Nm @@ "uid" :> S("u1") @@ "resourceVersion" :> S("5") @@ "generation" :> I("1")
                @@ "labels" :> M("app" :> S("x")) @@ "annotations" :> M("other" :> S("1"))),
           M(Nm) }
MetaD == { M(Nm), M(Nm @@ "labels" :> M("app" :> S("y"))),
           M(Nm @@ "uid" :> S("zz") @@ "resourceVersion" :> S("9")),
           M(Nm @@ "annotations" :> M(LAKey :> S("{}"))),
           M(Nm @@ "annotations" :> M("k" :> S("v"))),
           M(Nm @@ "creationTimestamp" :> Null) }
MetaL == { M(Nm), M(Nm @@ "labels" :> M("app" :> S("x"))), M(Nm @@ "annotations" :> M("k" :> S("v"))) }
Obj(md, st, sp) == M(("metadata" :> md) @@ ("spec" :> sp) @@ (IF Missing(st) THEN <<>> ELSE "status" :> st))
SpecOL == { M("f" :> I("1") @@ "g" :> I("1")), M("f" :> I("1")) }
SpecD  == { M("f" :> I("1")), M("f" :> I("2")) }
ApplyFam == <<Group("apply", "obj",
    { Obj(md, st, sp) : md \in MetaO, st \in { None, M("ready" :> I("1")) }, sp \in SpecOL },
    { Obj(md, st, sp) : md \in MetaL, st \in { None, M("ready" :> I("2")) }, sp \in SpecOL } \cup { None },
    { Obj(md, st, sp) : md \in MetaD, st \in { None, M("ready" :> I("2")), Null }, sp \in SpecD })>>

Groups == One \o Two \o KeysFam \o PrecFam \o Exotic \o Deep \o ApplyFam
NCases == LET n(i) == Len(Groups[i].uo) * Len(Groups[i].ul) * Len(Groups[i].ud)
              RECURSIVE Sum(_)
              Sum(i) == IF i = 0 THEN 0 ELSE n(i) + Sum(i - 1)
          IN Sum(Len(Groups))

\* ---- one state per triple ----------------------------------------------------------------
Init == ph = 0 /\ g \in DOMAIN Groups /\ io \in DOMAIN Groups[g].uo /\ il = 0 /\ id = 0
Next == /\ ph = 0 /\ ph' = 1 /\ UNCHANGED <<g, io>>
        /\ il' \in DOMAIN Groups[g].ul /\ id' \in DOMAIN Groups[g].ud
Spec == Init /\ [][Next]_vars

cG == Groups[g]
cO == cG.uo[io]
cL == cG.ul[il]
cD == cG.ud[id]
CaseId == cG.fam \o "." \o cG.sub \o "-" \o ToString(io) \o "-" \o ToString(il) \o "-" \o ToString(id)

\* ---- design level ------------------------------------------------------------------------
\* merge level and ApplyUpdate level verdicts of variant gv on the transcription
MergeHits(gv) ==
  LET res == CodeMerge(gv, cO, cL, cD)
      ll  == IF IsMap(cL) THEN cL ELSE M(<<>>)
      r2  == CodeMerge(gv, res.r, cD, cD)
      idem == IF res.e \/ (~r2.e /\ r2.r = res.r) THEN {}
              ELSE { <<"C05_Idempotent", IdemSig(r2.e, res.r, r2.r, cO, ll, cD)>> }
  IN Resig(TreeLaws(cO, cL, cD, res, res.r) \cup idem, cO, ll, cD)
ApplyHits(gv) ==
  LET res == CodeApply(gv, cO, cL, cD)
      sd  == Strip(StripOwn(cD))
      sl  == IF IsMap(cL) THEN Strip(cL) ELSE M(<<>>)
  IN IF res.e THEN TreeLaws(Strip(cO), sl, sd, res, res.r)
     ELSE Resig(TreeLaws(Strip(cO), sl, sd, Res(FALSE, Strip(res.r)), StripCarrier(res.r, StripOwn(cD))), Strip(cO), sl, sd)
          \cup (IF SysSame(cO, res.r) THEN {} ELSE { <<"C05_SystemFields", "-">> })
ModelHits(gv) == MergeHits(gv) \cup { <<"A." \o h[1], h[2]>> : h \in ApplyHits(gv) }

\* Design-level verdicts.  Every failure of a law on the transcription carries the signature
\* of a finding that was confirmed on the real code (known_findings.txt / fix commits):
\* the INTENDED variant fails only with the two findings that do not depend on the guard,
\* the variant AS CODED additionally where a clash is silently dropped.
IntendedOnlyKnown == ph = 1 => \A h \in ModelHits(TRUE) : h[2] \in { SigNullFlip, SigKeyText }
CodedOnlyKnown    == ph = 1 => \A h \in ModelHits(FALSE) : h[2] \in { SigClash, SigNullFlip, SigKeyText }

\* ---- emission ----------------------------------------------------------------------------
Emit == ph = 1 =>
  LET res == CodeMerge(FALSE, cO, cL, cD)
  IN PrintT("CASE|" \o ToJson([id |-> CaseId, fam |-> cG.fam, o |-> cO, l |-> cL, d |-> cD,
                                 pred |-> [e |-> res.e, r |-> res.r],
                                 model |-> { h[1] \o "/" \o h[2] : h \in ModelHits(FALSE) },
                                 intended |-> { h[1] \o "/" \o h[2] : h \in ModelHits(TRUE) }]))
=============================================================================
