---------------------------- MODULE MC_Shapes ----------------------------
EXTENDS Shapes
CAll == {"plain", "rolling", "gensel", "finalize", "customize", "decorator", "decoratorFinalize"}
MAll == {"loose", "strict"}
MLoose == {"loose"}
=============================================================================
