SPECIFICATION Spec
CONSTANT Size = "t"
CHECK_DEADLOCK FALSE
INVARIANT IntendedOnlyKnown
INVARIANT CodedOnlyKnown
INVARIANT Emit
