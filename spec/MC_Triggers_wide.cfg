SPECIFICATION Spec
CONSTANTS
  MaxEv = 1
  Focus <- FAll
  Kinds <- KBoth
  Width = "wide"
  Real = TRUE
  Fixed = FALSE
  Beh = FALSE
INVARIANTS D_Complete D_Sound D_KeyParses
CHECK_DEADLOCK FALSE
