SPECIFICATION Spec
CONSTANTS
  KidSeq <- Kids1
  Actors <- ActorsAB
  EnvBudget = 1
  Method = "InPlace"
  Recheck = TRUE
  Beh = TRUE
  InitSet = "race"
  DesiredSets <- DesOne
INVARIANTS Emit
CHECK_DEADLOCK FALSE
