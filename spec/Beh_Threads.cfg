SPECIFICATION Spec
CONSTANTS
  Variant = "intended"
  Workers = 2
  WithCustomize = TRUE
  WithRolling = TRUE
  WithSSA = FALSE
INVARIANTS C17_NoRace Emit
CHECK_DEADLOCK FALSE
