SPECIFICATION Spec
CHECK_DEADLOCK FALSE
CONSTANTS
  Calls <- Calls3
  Phase <- PhaseP2
  Params <- Conc2ParamsStrict
  AnsOf <- AnsConc2
  Variant = "code"
  ExpireMode = "any"
  MergeServe = FALSE
  Record = FALSE
INVARIANT C19_Strict
