SPECIFICATION Spec
CONSTANTS
  MaxEv = 2
  Focus <- FAll
  Kinds <- KBoth
  Width = "narrow"
  Real = FALSE
  Fixed = FALSE
  Beh = TRUE
INVARIANTS Emit
CHECK_DEADLOCK FALSE
