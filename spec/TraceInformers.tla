---------------------------- MODULE TraceInformers ----------------------------
(* Trace validation for C18.  One ndjson line = one operation performed on the REAL     *)
(* SharedInformerFactory (harness/informer/verif_informers_test.go) together with what   *)
(* could be observed after it settled.  The specification-level and the code-level state *)
(* of Informers.tla are advanced in lockstep by the SAME action Do(op); the property     *)
(* clauses P_* of Informers.tla are evaluated on the RECORDED observation (monitors,     *)
(* reporting and continuing); the model's own prediction (ModelObs) is compared with it  *)
(* only to report drift.                                                                 *)
(*   ev = Reset    a new scenario: fresh server, fresh factory                           *)
(*        Op       operation + observation after the barrier (sequential replay)         *)
(*        Plan     operation of a concurrent run, no observation (fixes the final        *)
(*                 specification-level state, which does not depend on the schedule)     *)
(*        Final    observation after all goroutines of a concurrent run have finished    *)
(*        Detector verdict of the Go race detector / crash scan for a shard (appended by *)
(*                 the orchestration from the test binary's output)                      *)
EXTENDS Informers, IOUtils

Trace == ndJsonDeserialize(IOEnv.VERIF_TRACE)
NL    == Len(Trace)

VARIABLES l,     \* next line
          obs,   \* observation recorded with the line just consumed
          pobs,  \* the one before
          ever,  \* resource -> object -> versions the object ever had at the server
          infl,  \* resource -> events whose delivery no barrier could confirm yet (see InFlight)
          pinfl  \* infl before the step

tvars == <<vars, l, obs, pobs, ever, infl, pinfl>>
E     == Trace[l]
HasE  == l <= NL

NoDet == [races |-> 0, crashes |-> 0, where |-> ""]
NoExp == [w |-> <<>>, ent |-> <<>>, must |-> <<>>, rep |-> <<>>, first |-> FALSE, last |-> FALSE]
NoObs == [has |-> FALSE, sc |-> "", i |-> 0, w |-> [r \in Res |-> 0], lists |-> [r \in Res |-> 0],
          lister |-> [s \in Slots |-> Zero], recv |-> <<>>, late |-> <<>>, miss |-> {}, settled |-> TRUE,
          panic |-> "", note |-> "", lateFirst |-> "", strangers |-> 0, hasExp |-> FALSE, exp |-> NoExp, det |-> NoDet, raw |-> <<>>]
ObsOf(e) == [NoObs EXCEPT !.has = TRUE, !.sc = e.sc, !.i = e.i, !.w = e.w, !.lists = e.lists, !.lister = e.lister,
                          !.recv = e.recv, !.late = e.late, !.miss = Range(e.miss), !.settled = e.settled,
                          !.panic = e.panic, !.note = e.note, !.lateFirst = e.lateFirst, !.strangers = e.strangers,
                          !.hasExp = "exp" \in DOMAIN e, !.exp = IF "exp" \in DOMAIN e THEN e.exp ELSE NoExp]
PlanObs(e) == [NoObs EXCEPT !.sc = e.sc, !.i = e.i, !.hasExp = "exp" \in DOMAIN e,
                            !.exp = IF "exp" \in DOMAIN e THEN e.exp ELSE NoExp]
POf(e) == Op(e.op.t, e.op.s, e.op.r, e.op.o, e.op.own, e.op.h, e.op.rv)

ever0 == [r \in Res |-> [o \in Objs |-> {}]]
infl0 == [r \in Res |-> {}]
TInit == Init /\ late = 0 /\ l = 1 /\ obs = NoObs /\ pobs = NoObs /\ ever = ever0 /\ infl = infl0 /\ pinfl = infl0

\* What the barrier can confirm.  The informer updates its cache first and hands the
\* notification to the shared handler afterwards, on another goroutine.  The harness can
\* only see that hand-over through a handler: when an entitled handler of the resource has
\* seen the fence that follows an operation, everything before the fence has been handed
\* over.  While a running informer has NO entitled handler, an event may still be queued
\* inside it although the listers already show it; a handler added next receives it after
\* its replay ("every later event": later than its addition at the shared handler).  Such
\* events are remembered here and tolerated for that handler only.
HasEntitled(r) == \E h \in Hs : Entitled(h) /\ hinfo[h].r = r
InFlightNext(r) ==
  IF HasEntitled(r)' \/ Open(r)' = {} THEN {}
  ELSE IF lop'.t \in {"oadd", "oupd", "odel"} /\ lop'.r = r THEN infl[r] \cup Range(StepEvent')
  ELSE IF lop'.t = "sub" /\ lop'.first /\ lop'.r = r      \* the OnAdd notifications of the initial LIST
       THEN { Ev("add", o, store[r][o], 0) : o \in { x \in Objs : store[r][x] > 0 } }
  ELSE infl[r]

Reset ==
  /\ st' = st0 /\ sres' = sres0 /\ hinfo' = <<>> /\ store' = store0 /\ rvc' = 0 /\ usedO' = usedO0
  /\ fRef' = fRef0 /\ fShared' = fSh0 /\ inf' = inf0 /\ sgen' = sgen0 /\ reg' = reg0
  /\ timers' = {} /\ lists' = lists0 /\ lop' = NoOp /\ recv' = <<>> /\ n' = 0 /\ hist' = <<>>
  /\ late' = IF "late" \in DOMAIN E THEN E.late ELSE 0
  /\ ever' = ever0 /\ obs' = [NoObs EXCEPT !.sc = E.sc] /\ pobs' = NoObs /\ infl' = infl0 /\ pinfl' = infl0

Step(o) ==
  LET p == POf(E) IN
  /\ Do(p)
  /\ ever' = IF p.t \in {"oadd", "oupd", "odel"} THEN [ever EXCEPT ![p.r][p.o] = @ \cup {p.rv}]
              ELSE IF p.t \in {"addev", "remev"} THEN [ever EXCEPT ![sres[p.s]][p.o] = @ \cup {p.rv}] ELSE ever
  /\ infl' = [r \in Res |-> InFlightNext(r)] /\ pinfl' = infl
  /\ LET tol(h, e) == lop'.t \in {"add", "addev"} /\ h = lop'.h /\ e \in infl[lop'.r]
     IN obs' = [o EXCEPT !.recv = IF o.has /\ DOMAIN o.recv = Hs'
                                    THEN [h \in Hs' |-> SelectSeq(o.recv[h], LAMBDA e : ~tol(h, e))] ELSE @,
                         !.raw = o.recv]
  /\ pobs' = obs

TNext ==
  /\ HasE
  /\ l' = l + 1
  /\ CASE E.ev = "Reset"    -> Reset
       [] E.ev = "Op"       -> Step(ObsOf(E))
       [] E.ev = "Plan"     -> Step(PlanObs(E))
       [] E.ev = "Final"    -> Step(ObsOf(E))
       [] E.ev = "Detector" -> /\ UNCHANGED <<vars, ever, infl, pinfl>> /\ pobs' = obs
                               /\ obs' = [NoObs EXCEPT !.sc = E.sc, !.i = 0,
                                            !.det = [races |-> E.races, crashes |-> E.crashes, where |-> E.where]]

TSpec == TInit /\ [][TNext]_tvars

\* every line consumed (a line whose operation the specification does not admit stops the run)
TraceAccepted == TLCGet("stats").diameter - 1 = NL

\* ---- reporting --------------------------------------------------------------------------
Report(name, sig, facts) ==
  PrintT("MONITOR|C18|" \o name \o "|" \o sig \o "|" \o obs.sc \o "|" \o ToString(obs.i) \o "|" \o ToJson(facts))
Broken(what, facts) == PrintT("BROKEN|" \o what \o "|" \o obs.sc \o "|" \o ToString(obs.i) \o "|" \o ToJson(facts))
OpFacts == [t |-> lop.t, s |-> lop.s, r |-> lop.r, o |-> lop.o, own |-> lop.own, h |-> lop.h]
OpenSets == [r \in Res |-> Open(r)]
TraceValid(r, o, rv) == o \in Objs /\ rv \in ever[r][o]

\* ---- the harness executed what TLC printed, and both agree on what the property expects --
ExpAgrees ==
  obs.hasExp =>
    \/ /\ obs.exp.w = Expect.w
       /\ Range(obs.exp.ent) = Expect.ent
       /\ obs.exp.must = Expect.must
       /\ DOMAIN obs.exp.rep = Hs /\ \A h \in Hs : Range(obs.exp.rep[h]) = Expect.rep[h]
       /\ obs.exp.first = Expect.first /\ obs.exp.last = Expect.last
    \/ Broken("expectation", [printed |-> obs.exp, recomputed |-> Expect])
Shape ==
  obs.has =>
    \/ (DOMAIN obs.recv = Hs /\ DOMAIN obs.late = Hs /\ obs.strangers = 0)
    \/ Broken("shape", [nh |-> Len(hinfo), recv |-> obs.recv, late |-> obs.late, strangers |-> obs.strangers])
Machinery == ExpAgrees /\ Shape

\* ---- monitors: the clauses of Informers.tla on the recorded observation ---------------
SigRunning ==
  IF \E r \in Res : Open(r) # {} /\ obs.w[r] = 0 THEN "Sig_C18_NoWatchWhileSubscribed"
  ELSE IF \E r \in Res : Open(r) = {} /\ obs.w[r] > 0 THEN "Sig_C18_WatchWithoutSubscriber"
  ELSE IF \E r \in Res : obs.w[r] > 1 THEN "Sig_C18_SeveralWatches"
  ELSE "Sig_C18_StaleLister"
M_RunningIffSubscribed ==
  P_Running(obs) \/ Report("C18_RunningIffSubscribed", SigRunning,
                           [op |-> OpFacts, open |-> OpenSets, w |-> obs.w, lister |-> obs.lister, store |-> store, note |-> obs.note])
M_StopOnLast ==
  P_StopOnLast(obs) \/ Report("C18_StopOnLast", "Sig_C18_NotStoppedOnLastClose", [op |-> OpFacts, w |-> obs.w, note |-> obs.note])
SigFresh ==
  IF obs.lists[lop.r] <= pobs.lists[lop.r] THEN "Sig_C18_NoRelistOnRestart"
  ELSE IF obs.w[lop.r] # 1 THEN "Sig_C18_RestartNotWatching" ELSE "Sig_C18_RestartStaleLister"
M_FreshAfterRestart ==
  P_Fresh(obs, pobs.lists[lop.r]) \/ Report("C18_FreshAfterRestart", SigFresh,
      [op |-> OpFacts, gen |-> inf[lop.r].gen, listsBefore |-> pobs.lists, lists |-> obs.lists, w |-> obs.w,
       lister |-> obs.lister, store |-> store, note |-> obs.note])
M_Replay ==
  P_Replay(obs) \/ Report("C18_Replay", IF lop.own THEN "Sig_C18_ReplayMissing_own" ELSE "Sig_C18_ReplayMissing_plain",
                          [op |-> OpFacts, cached |-> lop.cached, recv |-> obs.recv[lop.h]])
BadComplete == { h \in Hs : Entitled(h) /\ ~( /\ h \notin obs.miss
                                               /\ Real(obs.recv[h], h) = MustReal(h)
                                               /\ \A i \in DOMAIN obs.recv[h] : IsResync(obs.recv[h][i]) =>
                                                      TraceValid(hinfo[h].r, obs.recv[h][i].o, obs.recv[h][i].rv)) }
SigComplete ==
  LET h == CHOOSE x \in BadComplete : TRUE IN
  IF h \in obs.miss THEN "Sig_C18_LaterEventNotDelivered_after_" \o lop.t
  ELSE IF Real(obs.recv[h], h) # MustReal(h)
       THEN (IF Len(Real(obs.recv[h], h)) < Len(MustReal(h)) THEN "Sig_C18_EventMissing_" ELSE "Sig_C18_EventSpurious_") \o lop.t
       ELSE "Sig_C18_ResyncOfUnknownVersion"
M_Complete ==
  P_Complete(obs, TraceValid) \/ Report("C18_Complete", SigComplete,
      [op |-> OpFacts, handlers |-> BadComplete, miss |-> obs.miss, must |-> [h \in BadComplete |-> MustReal(h)],
       recv |-> [h \in BadComplete |-> obs.recv[h]], note |-> obs.note])
M_Silent ==
  P_Silent(obs) \/ Report("C18_Silent", "Sig_C18_EventAfterRemove",
      [op |-> OpFacts, late |-> obs.late, removed |-> { h \in Hs : hinfo[h].removed }, first |-> obs.lateFirst])
M_Isolation ==
  P_Isolation(obs) \/ Report("C18_Isolation", "Sig_C18_OtherAffectedBy_" \o lop.t,
      [op |-> OpFacts, open |-> OpenSets, miss |-> obs.miss, w |-> obs.w, lister |-> obs.lister, store |-> store, note |-> obs.note])
\* no operation of the API panics
M_NoPanic ==
  (obs.panic = "" /\ obs.det.crashes = 0) \/ Report("C18_NoPanic", "Sig_C18_Panic", [op |-> OpFacts, panic |-> obs.panic, where |-> obs.det.where])
\* no data race between the operations (observation device: Go's race detector)
M_NoRace ==
  obs.det.races = 0 \/ Report("C18_NoRace", "Sig_C18_DataRace", [races |-> obs.det.races, where |-> obs.det.where])

\* ---- drift: the real code did something else than the model of the code predicts ---------
DriftFree ==
  obs.has =>
    \/ /\ obs.w = ModelObs.w /\ obs.lister = ModelObs.lister /\ obs.miss = ModelObs.miss
       /\ (lop.t = "final" \/ obs.lists = ModelObs.lists)   \* concurrent runs: the number of restarts depends on the schedule
       /\ lop.t # "final" => \A h \in Hs : Entitled(h) =>
            IF hinfo[h].own THEN Range(recv[h]) \subseteq Range(obs.recv[h]) ELSE Range(recv[h]) = Range(obs.recv[h])
    \/ PrintT("DRIFT|" \o obs.sc \o "|" \o ToString(obs.i) \o "|" \o ToJson([op |-> OpFacts, model |-> [w |-> ModelObs.w, lists |-> ModelObs.lists, lister |-> ModelObs.lister, recv |-> recv],
                                                                     real |-> [w |-> obs.w, lists |-> obs.lists, lister |-> obs.lister, recv |-> obs.recv]]))
=============================================================================
