SPECIFICATION Spec
CONSTANTS
  Order <- O3
  Methods <- MBoth
  ChecksSet <- BBoth
  Policies <- PAll
  Variant = "intended"
  MaxPert = 1
  Rounds = 20
  OwnConds <- OCNone
  Presets <- BBoth
  GenSels <- BNo
  ScaleRevs <- BBoth
INVARIANTS Emit
CHECK_DEADLOCK FALSE
