SPECIFICATION Spec
CONSTANTS
  KidSeq <- Kids2
  Actors <- ActorsA
  EnvBudget = 1
  Method = "InPlace"
  Recheck = TRUE
  Beh = TRUE
  InitSet = "small"
  DesiredSets <- DesA
INVARIANTS Emit
CHECK_DEADLOCK FALSE
