SPECIFICATION Spec
CHECK_DEADLOCK FALSE
CONSTANTS
  Calls <- Calls4
  Phase <- PhaseP2Q
  Params <- Conc2QParams
  AnsOf <- AnsConc2Q
  Variant = "code"
  ExpireMode = "none"
  MergeServe = FALSE
  Record = TRUE
INVARIANT Emit
