SPECIFICATION Spec
CHECK_DEADLOCK FALSE
CONSTANTS
  Calls <- Calls4
  Phase <- PhaseP3
  Params <- Conc3ParamsX
  AnsOf <- AnsConc3S
  Variant = "code"
  ExpireMode = "boundary"
  MergeServe = TRUE
  Record = TRUE
INVARIANT Emit
