SPECIFICATION Spec
CHECK_DEADLOCK FALSE
CONSTANTS
  Calls <- Calls4
  Phase <- PhaseP3
  Params <- Conc3Params
  AnsOf <- AnsConc3
  Variant = "code"
  ExpireMode = "none"
  MergeServe = FALSE
  Record = TRUE
INVARIANT Emit
