---------------------------- MODULE TraceTriggers ----------------------------
(* Trace validation for C14.  One ndjson line = one step of a trigger scenario replayed  *)
(* on the REAL composite / decorator controller (harness/*/verif_triggers_test.go,       *)
(* harness/verifsim/events_ext.go).  Relevant events:                                    *)
(*   Reset    new scenario                                                               *)
(*   TrigCfg  configuration as reported by the real controller object                    *)
(*   Hook     (hook = customize) the rules the customize hook really returned, per       *)
(*            parent uid and generation                                                  *)
(*   Queue    what was DELIVERED to the real handlers (type, old, new -- as the harness'  *)
(*            own handler subscription received it), the parents in the controller's      *)
(*            cache, and the keys drained from the work queue afterwards, each parsed     *)
(*            with the controller's own key parser                                        *)
(* The monitors evaluate the SAME operators Must / MustNotRaw of Triggers.tla that the     *)
(* bounded model is checked against.  They report and continue.                           *)
EXTENDS Triggers, Json, IOUtils

Trace == ndJsonDeserialize(IOEnv.VERIF_TRACE)
N     == Len(Trace)

VARIABLES l, tc, asked, askFailed
vars == <<l, tc, asked, askFailed>>

E       == Trace[l]
HasE    == l <= N
IsEv(k) == HasE /\ E.ev = k

NoSel == [ml |-> <<>>, me |-> <<>>]
NoTc  == [kind |-> "none", pkind |-> "", pav |-> "", pNs |-> FALSE, genSel |-> FALSE, ignoreStatus |-> FALSE, fin |-> "",
          csel |-> NoSel, casel |-> NoSel, childKinds |-> <<>>, relKinds |-> <<>>, customize |-> FALSE]

ReportS(prop, name, sig, facts) == PrintT("MONITOR|" \o prop \o "|" \o name \o "|" \o sig \o "|" \o E.sc \o "|" \o ToString(E.i) \o "|" \o ToJson(facts))
Broken(what, facts)             == PrintT("BROKEN|" \o what \o "|" \o E.sc \o "|" \o ToString(E.i) \o "|" \o ToJson(facts))

\* ---- the observation of one Queue event -----------------------------------------------------
P     == Range(E.parents)
Evs   == E.evs
\* a key counts as parsed only if the controller's parser accepts it AND it names the parent resource
KeyOK(p) == p.ok /\ (tc.kind = "decorator" => (p.av = tc.pav /\ p.kind = tc.pkind))
Q     == { [id |-> <<p.ns, p.name>>, ok |-> KeyOK(p), key |-> p.key] : p \in Range(E.parsed) }
QIds  == { [id |-> x.id, ok |-> x.ok] : x \in Q }
U     == { Id(p) : p \in P } \cup QueuedAny(QIds)
           \cup { Id(Obj(Evs[i])) : i \in { j \in DOMAIN Evs : IsParentEv(tc, Evs[j]) } }
\* a parent whose customize call FAILED during this step has no rules in force (the handlers skip it "for now"): nothing
\* is demanded for it in this step; which of the step's events a hook call served is not recorded
FailedIds == { Id(q) : q \in { x \in P : CacheKey(x) \in askFailed } }
MustB == (UNION { Must(tc, Evs[i], P, asked) : i \in DOMAIN Evs }) \ FailedIds
\* forbidden for the whole batch: forbidden by every delivered event (one event per step as a rule)
MustNotB ==
  (IF Evs = <<>> THEN { Id(q) : q \in { x \in P : ~Cares(tc, x) } }
   ELSE { id \in U : \A i \in DOMAIN Evs : id \in MustNotRaw(tc, Evs[i], P, U) }) \ MustB
Types == [i \in DOMAIN Evs |-> Evs[i].type]
Keys  == E.keys

SigKey(id)    == IF \E i \in DOMAIN Evs : Sig_C14_DecoratorTombstoneKey(tc, Evs[i], id) THEN "Sig_C14_DecoratorTombstoneKey" ELSE "-"
SigUnfilt(id) == IF \E i \in DOMAIN Evs : Sig_C14_ParentTombstoneUnfiltered(tc, Evs[i], id) THEN "Sig_C14_ParentTombstoneUnfiltered" ELSE "-"

QueueE == IsEv("Queue") /\ tc.kind # "none"
\* every parent the statement says must be woken is queued under a key that parses back to it
C14_Complete ==
  QueueE => \A id \in Missing(MustB, QIds) :
              ReportS("C14", "C14_Complete", SigKey(id), <<"not queued", id, "via", E.via, "events", Types, "keys", Keys>>)
\* nothing the statement forbids is queued
C14_Sound ==
  QueueE => \A id \in Forbidden(MustNotB, QIds) :
              ReportS("C14", "C14_Sound", SigUnfilt(id), <<"must not be queued", id, "via", E.via, "events", Types, "keys", Keys>>)
\* every queued key is one sync() can parse back to the parent
C14_KeyParses ==
  QueueE => \A x \in { y \in Q : ~y.ok } :
              ReportS("C14", "C14_KeyParses", SigKey(x.id), <<"key does not parse", x.key, "via", E.via, "events", Types>>)

\* ---- model drift (not a verdict): the handlers as modelled in Triggers!Code, in the variant as
\* written or in the intended variant, queue exactly what the real handlers queued
Drift_C14 ==
  (QueueE /\ Len(Evs) = 1 /\ askFailed = {})      \* (the code model has no failing customize calls)
  => \/ QueuedAny(QIds) = QueuedAny(Code(tc, Evs[1], P, asked, FALSE))
     \/ QueuedAny(QIds) = QueuedAny(Code(tc, Evs[1], P, asked, TRUE))
     \/ ReportS("DRIFT", "Drift_C14", "-", <<"real", QueuedAny(QIds), "model", QueuedAny(Code(tc, Evs[1], P, asked, FALSE)), "events", Types>>)

\* ---- machinery ---------------------------------------------------------------------------------
Machinery ==
  /\ IsEv("Queue") => (tc.kind # "none" \/ Broken("Queue event before TrigCfg", <<>>))
  /\ (IsEv("Queue") /\ E.via = "direct") => (Len(E.evs) <= 1 \/ Broken("direct step with several events", Types))

\* ---- state -----------------------------------------------------------------------------------
Init == l = 1 /\ tc = NoTc /\ asked = <<>> /\ askFailed = {}
Next ==
  /\ HasE
  /\ l' = l + 1
  /\ CASE E.ev = "Reset"   -> tc' = NoTc /\ asked' = <<>> /\ askFailed' = {}
       [] E.ev = "TrigCfg" -> tc' = E.tc /\ UNCHANGED <<asked, askFailed>>
       [] E.ev = "Queue"   -> askFailed' = {} /\ UNCHANGED <<tc, asked>>
       [] E.ev = "Hook"    -> /\ UNCHANGED tc
                              /\ asked' = IF E.hook = "customize" /\ E.rulesOK
                                          THEN (CacheKey(E.req.parent) :> E.rules) @@ asked ELSE asked
                              /\ askFailed' = IF E.hook = "customize" /\ E.code # 200 THEN askFailed \cup {CacheKey(E.req.parent)} ELSE askFailed
       [] E.ev \in {"Reconfig", "Crash"} -> asked' = <<>> /\ askFailed' = {} /\ UNCHANGED tc
       [] OTHER            -> UNCHANGED <<tc, asked, askFailed>>
Spec == Init /\ [][Next]_vars
TraceAccepted == TLCGet("stats").diameter - 1 = N
=============================================================================
