SPECIFICATION Spec
CONSTANTS
  MaxEv = 1
  Focus <- FAll
  Kinds <- KBoth
  Width = "wide"
  Real = FALSE
  Fixed = FALSE
  Beh = TRUE
INVARIANTS Emit
CHECK_DEADLOCK FALSE
