SPECIFICATION Spec
CONSTANTS
  MaxSteps = 4
  FinProgs <- FAll
  Kinds <- KBoth
  Beh = TRUE
INVARIANTS Emit
CHECK_DEADLOCK FALSE
