------------------------------ MODULE Status ------------------------------
(* Parent status write of a composite sync at request granularity (C11):                *)
(* updateParentStatus -> AtomicStatusUpdate = retry-on-conflict { GET parent; refuse a   *)
(* different UID; skip when equal; PUT .../status }, interleaved with an environment     *)
(* that edits the parent's spec (new resourceVersion and generation), replaces it under  *)
(* the same name (new UID) or edits its status, and with injected faults on the PUT.     *)
(* The sync's earlier part is abstracted to "hook answered with status S for the parent  *)
(* generation G it was sent"; child reconciliation may have failed (EvenIfChildrenFail). *)
EXTENDS Integers, Sequences, FiniteSets, TLC, Json

CONSTANTS EnvBudget, Faults, Beh, MaxTries, Variants
\* Faults: set of fault codes that may be injected once on the status PUT, e.g. {0, 409, 500} (0 = none)

NoP == [live |-> FALSE, uid |-> 0, rv |-> 0, gen |-> 0, st |-> "none", stGen |-> 0]
VARIABLES par, pc, loc, budget, fault, uidc, rvc, viol, hist, childFail, p0, sv, f0
vars == <<par, pc, loc, budget, fault, uidc, rvc, viol, hist, childFail, p0, sv, f0>>
H(e) == IF Beh THEN Append(hist, e) ELSE hist

Init ==
  /\ par \in { [live |-> TRUE, uid |-> 1, rv |-> 1, gen |-> 1, st |-> s, stGen |-> g] : s \in {"none", "old", "des"}, g \in {0, 1} }
  /\ (par.st = "none" => par.stGen = 0) /\ (par.st # "none" => par.stGen = 1)
  /\ pc = "hooked"                                  \* the hook has answered for (uid 1, generation 1)
  /\ loc = [cur |-> NoP, tries |-> 0, sentGen |-> 1, sentUid |-> 1]
  /\ budget = EnvBudget /\ fault \in Faults /\ uidc = 2 /\ rvc = 1 /\ viol = {} /\ hist = <<>>
  /\ childFail \in BOOLEAN
  /\ p0 = par /\ f0 = fault
  /\ sv \in Variants          \* shape of the status the hook returns (concretisation dimension)

\* desired status = hook status + observedGeneration of the parent that was sent to the hook
Equal(p) == p.st = "des" /\ p.stGen = loc.sentGen

StGet ==
  /\ pc \in {"hooked", "retry"}
  /\ hist' = H([t |-> "req", verb |-> "get", code |-> IF par.live THEN 200 ELSE 404])
  /\ IF ~par.live \/ par.uid # loc.sentUid THEN pc' = "done" /\ UNCHANGED loc          \* NotFound: swallowed
     ELSE IF Equal(par) THEN pc' = "done" /\ UNCHANGED loc                             \* nothing to do
     ELSE pc' = "put" /\ loc' = [loc EXCEPT !.cur = par]
  /\ UNCHANGED <<par, budget, fault, uidc, rvc, viol, childFail, p0, sv, f0>>
StPut ==
  /\ pc = "put"
  /\ LET inj  == fault # 0
         code == IF inj THEN fault
                 ELSE IF ~par.live THEN 404
                 ELSE IF par.uid # loc.cur.uid \/ par.rv # loc.cur.rv THEN 409 ELSE 200 IN
     /\ hist' = H([t |-> "req", verb |-> "updateStatus", code |-> code, injected |-> inj])
     /\ fault' = 0
     /\ IF code = 200
          THEN /\ par' = [par EXCEPT !.st = "des", !.stGen = loc.sentGen, !.rv = rvc + 1] /\ rvc' = rvc + 1
               /\ viol' = viol \cup (IF par.uid # loc.sentUid THEN {"C11_UidGuard"} ELSE {})
               /\ pc' = "done" /\ UNCHANGED loc
          ELSE /\ UNCHANGED <<par, rvc, viol>>
               /\ IF code = 409 /\ loc.tries < MaxTries THEN pc' = "retry" /\ loc' = [loc EXCEPT !.tries = @ + 1]
                  ELSE pc' = "done" /\ UNCHANGED loc
  /\ UNCHANGED <<budget, uidc, childFail, p0, sv, f0>>

EnvOK == budget > 0 /\ pc # "done" /\ (Beh => pc \in {"hooked", "put"})     \* (Beh) only where it matters: before the GET / between GET and PUT
Env(e, p) == /\ EnvOK /\ budget' = budget - 1 /\ par' = p /\ hist' = H(e)
             /\ UNCHANGED <<pc, loc, fault, viol, childFail, p0, sv, f0>>
EditSpec   == par.live /\ Env([t |-> "env", op |-> "editspec"], [par EXCEPT !.rv = rvc + 1, !.gen = @ + 1]) /\ rvc' = rvc + 1 /\ UNCHANGED uidc
EditStatus == par.live /\ Env([t |-> "env", op |-> "editstatus"], [par EXCEPT !.rv = rvc + 1, !.st = "old", !.stGen = 1]) /\ rvc' = rvc + 1 /\ UNCHANGED uidc
Replace    == par.live /\ Env([t |-> "env", op |-> "replace", uid |-> uidc],
                              [live |-> TRUE, uid |-> uidc, rv |-> rvc + 1, gen |-> 1, st |-> "none", stGen |-> 0])
              /\ rvc' = rvc + 1 /\ uidc' = uidc + 1
Remove     == par.live /\ Env([t |-> "env", op |-> "remove"], NoP) /\ UNCHANGED <<uidc, rvc>>
Next == StGet \/ StPut \/ EditSpec \/ EditStatus \/ Replace \/ Remove
Spec == Init /\ [][Next]_vars

\* ---- properties (design level) -----------------------------------------------------------
C11_UidGuard == "C11_UidGuard" \notin viol
\* a retried write always follows a fresh read
C11_RetryFresh == [][(pc = "retry") => (pc' \in {"retry", "put", "done"} /\ (pc' = "put" => loc'.cur = par))]_vars
\* the write is skipped when already equal
C11_SkipEqual == [][(pc \in {"hooked", "retry"} /\ par.live /\ par.uid = loc.sentUid /\ Equal(par)) => pc' \in {"done", pc}]_vars
\* if nothing interfered and no fault was injected the status ends up written
C11_Written == (pc = "done" /\ budget = EnvBudget /\ f0 = 0) => Equal(par)

Emit == (Beh /\ pc = "done") =>
  PrintT("SCN|" \o ToJson([hist |-> hist, p0 |-> p0, childFail |-> childFail, sv |-> sv, fault |-> f0, final |-> par]))
=============================================================================
