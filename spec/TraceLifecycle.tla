--------------------------- MODULE TraceLifecycle ---------------------------
(* Trace validation for C20.  One ndjson line = one event (create / update / noop /        *)
(* delete of a CompositeController or DecoratorController object) followed by the REAL     *)
(* Metacontroller.Reconcile, and what could be observed after the barrier                  *)
(* (harness/verifsim/lifecycle_ext.go: RunLifecycle):                                      *)
(*   running   the reconciler's map: per name the spec the instance was built from, an     *)
(*             identity, and whether it answered the poke (sync hook call for the new      *)
(*             generation of each of its parents)                                          *)
(*   watches   active WATCH streams per resource at the simulated API server               *)
(*   refs/subs reference counts and subscriptions-with-handlers of the real shared         *)
(*             informer factory (white box; refl = FALSE when not readable)                *)
(*   calls*/writes*  (name, tag) of hook calls / API writes seen during Reconcile and      *)
(*             after it returned                                                           *)
(* The clauses C20_* of Lifecycle.tla are evaluated on that observation (reporting         *)
(* monitors); the model of the code (StepF) runs alongside only to report drift.           *)
(*   ev = Reset  new scenario (spec table)    Life  event + observation                    *)
(*        Crash  the test process died inside the code under test (appended by the         *)
(*               orchestration from the binary's output)                                   *)
EXTENDS Lifecycle, IOUtils

Trace == ndJsonDeserialize(IOEnv.VERIF_TRACE)
NL    == Len(Trace)
TKind == IOEnv.VERIF_KIND
\* the model that runs alongside for drift is the code as written unless the environment
\* names repaired deviations (VERIF_FIX_etag / VERIF_FIX_stale / VERIF_FIX_dup)
\* (after a repair is committed to /repo, add its name to DefaultFixed: the model then
\* predicts the repaired behaviour and drift stays zero)
DefaultFixed == {"etag", "stale", "dup"}
TFixed == DefaultFixed \cup { f \in {"etag", "stale", "dup"} : ("VERIF_FIX_" \o f) \in DOMAIN IOEnv }
TPal   == <<>>

\* st (model state of the code, for drift only) and last (observation of the line just
\* consumed) are the variables of Lifecycle.tla; sids, seen1 and hist are not used here.
VARIABLES l,     \* next line
          tab,   \* spec table of the scenario: sequence of [id, t]
          lk,    \* leaks carried so far (from observations)
          why,   \* name -> "etag" when the last build for the name panicked on an etag-timeout spec
          sc,    \* scenario id
          crash  \* text of a Crash line just consumed ("" otherwise)
tvars == <<vars, l, tab, lk, why, sc, crash>>
E    == Trace[l]
HasE == l <= NL

SpecBySid(s) == IF \E i \in DOMAIN tab : tab[i].id = s THEN tab[CHOOSE i \in DOMAIN tab : tab[i].id = s].t ELSE NoSpec
RunOf(e) == [n \in Names |->
               IF n <= Len(e.running) /\ e.running[n].has
               THEN LET sp == SpecBySid(e.running[n].s) IN
                    [has |-> TRUE, spec |-> IF sp = NoSpec THEN [NoSpec EXCEPT !.tag = e.running[n].tag] ELSE sp,
                     id |-> e.running[n].id, resp |-> e.running[n].resp]
               ELSE NoRun]
Vec(q) == [r \in Rs |-> IF r <= Len(q) THEN q[r] ELSE 0]
Pairs(q) == { [n |-> q[i].n, tag |-> q[i].tag] : i \in DOMAIN q }
EtagSpec(s) == s.hooks = "set" /\ WhUsable(s.sync) /\ s.sync.etag = "timeout"

TInit == /\ Init /\ l = 1 /\ tab = <<>> /\ lk = Leak0
         /\ why = [n \in Names |-> ""] /\ sc = "" /\ crash = ""

DoReset == /\ tab' = E.specs /\ st' = S0 /\ last' = NoX /\ lk' = Leak0
           /\ why' = [n \in Names |-> ""] /\ sc' = E.sc /\ crash' = ""

DoLife ==
  LET t   == E.op.t
      n   == E.op.n
      sp  == IF t \in {"create", "update"} THEN SpecBySid(E.op.s) ELSE NoSpec
      m2  == StepF(st, t, n, sp)
      run == RunOf(E)
      cnt == [w |-> Vec(E.watches), r |-> Vec(E.refs), h |-> Vec(E.subs)]
      tr  == SumTo([r \in Rs |-> (Vec(E.lists)[r] + Vec(E.opens)[r] + Vec(E.closes)[r])], NR)
      x   == [k |-> E.i, ev |-> [t |-> t, n |-> n], obj |-> m2.obj, pre |-> last.run, run |-> run,
              err |-> E.err, panic |-> E.panic, refl |-> E.refl, cnt |-> cnt, lkPre |-> lk,
              lkPost |-> LeakStep(run, cnt, E.refl, lk),
              traffic |-> IF last.k = 0 THEN 0 ELSE tr - last.traffic0,
              nDuring |-> Pairs(E.callsDuring) \cup Pairs(E.writesDuring),
              nAfter |-> Pairs(E.callsAfter) \cup Pairs(E.writesAfter)]
  IN /\ st' = m2
     /\ last' = x @@ [traffic0 |-> tr, settled |-> E.settled, errMsg |-> E.errMsg, panicMsg |-> E.panicMsg,
                                                               ncalls |-> E.ncalls, nwrites |-> E.nwrites, s |-> E.op.s,
                                                               want |-> IF "want" \in DOMAIN E THEN E.want ELSE <<>>]
     /\ lk' = x.lkPost
     /\ why' = [why EXCEPT ![n] = IF E.panic /\ m2.obj[n].has /\ EtagSpec(m2.obj[n].spec) THEN "etag" ELSE ""]
     /\ crash' = "" /\ UNCHANGED <<tab, sc>>

DoCrash == /\ crash' = E.where /\ sc' = E.sc /\ UNCHANGED <<tab, st, last, lk, why>>

TNext == /\ HasE /\ l' = l + 1 /\ UNCHANGED <<sids, seen1, hist>>
         /\ CASE E.ev = "Reset" -> DoReset
              [] E.ev = "Life"  -> DoLife
              [] E.ev = "Crash" -> DoCrash
TSpec == TInit /\ [][TNext]_tvars
TraceAccepted == TLCGet("stats").diameter - 1 = NL

\* ---- reporting --------------------------------------------------------------------------
Facts == [op |-> [t |-> last.ev.t, n |-> last.ev.n, s |-> IF "s" \in DOMAIN last THEN last.s ELSE "-"],
          running |-> [n \in Names |-> [has |-> last.run[n].has, tag |-> last.run[n].spec.tag, id |-> last.run[n].id, resp |-> last.run[n].resp]],
          before |-> [n \in Names |-> [has |-> last.pre[n].has, tag |-> last.pre[n].spec.tag, id |-> last.pre[n].id]],
          class |-> [n \in Names |-> IF last.obj[n].has THEN ClassOf(last.obj[n].spec, Kind) ELSE "-"],
          err |-> last.err, panic |-> last.panic, cnt |-> last.cnt, leakBefore |-> last.lkPre, leakAfter |-> last.lkPost,
          traffic |-> last.traffic, callsDuring |-> last.nDuring, callsAfter |-> last.nAfter,
          errMsg |-> IF "errMsg" \in DOMAIN last THEN last.errMsg ELSE "-", panicMsg |-> IF "panicMsg" \in DOMAIN last THEN last.panicMsg ELSE "-"]
Report(name, sig) ==
  PrintT("MONITOR|C20|" \o name \o "|" \o sig \o "|" \o sc \o "|" \o ToString(last.k) \o "|" \o ToJson(Facts))

\* ---- signatures: a named cause signs a hit only if the clause holds once the cause's own
\* ---- effects are taken out of the observation ----------------------------------------------
EtagNames  == { n \in Names : why[n] = "etag" /\ last.obj[n].has /\ EtagSpec(last.obj[n].spec) /\ ~last.run[n].has }
StaleNames == { n \in Names : Kind = "composite" /\ last.obj[n].has /\ ParentUnresolvable(last.obj[n].spec) /\ last.run[n].has }
DupStop    == /\ StopDue(last) /\ HasDup(last.pre[last.ev.n].spec) /\ ~last.panic
              /\ \A r \in Rs : /\ last.lkPost.h[r] = last.lkPre.h[r]
                               /\ last.lkPost.r[r] - last.lkPre.r[r] \in {0, UsesHi(last.pre[last.ev.n].spec)[r] - UsesLo(last.pre[last.ev.n].spec)[r]}
                               /\ (last.lkPost.w[r] # last.lkPre.w[r] => UsesHi(last.pre[last.ev.n].spec)[r] > UsesLo(last.pre[last.ev.n].spec)[r])
Applicable == (IF EtagNames # {} THEN {"etag"} ELSE {}) \cup (IF StaleNames # {} THEN {"stale"} ELSE {})
              \cup (IF DupStop THEN {"dup"} ELSE {})
Mask(x, cs) ==
  LET x1 == IF "etag" \in cs
            THEN [x EXCEPT !.obj = [n \in Names |-> IF n \in EtagNames THEN NoObj ELSE @[n]],
                           !.panic = IF x.ev.n \in EtagNames THEN FALSE ELSE @,
                           !.lkPost = IF x.ev.n \in EtagNames /\ last.panic THEN x.lkPre ELSE @]
            ELSE x
      x2 == IF "stale" \in cs
            THEN [x1 EXCEPT !.run = [n \in Names |-> IF n \in StaleNames THEN NoRun ELSE @[n]],
                            !.pre = [n \in Names |-> IF n \in StaleNames THEN NoRun ELSE @[n]],
                            !.nAfter = { v \in @ : v.n \notin StaleNames }, !.nDuring = { v \in @ : v.n \notin StaleNames }]
            ELSE x1
  IN IF "dup" \in cs THEN [x2 EXCEPT !.lkPost = x2.lkPre] ELSE x2
SigName(c) == CASE c = "etag"  -> "Sig_C20_EtagCleanupNilDeref"
                [] c = "stale" -> "Sig_C20_StaleInstanceKeptOnUnresolvableParent"
                [] c = "dup"   -> "Sig_C20_DuplicateResourceSubscriptionLeak"
Monitor(name, Clause(_)) ==
  \/ last.k = 0
  \/ Clause(last)
  \/ LET single == { c \in Applicable : Clause(Mask(last, {c})) } IN
     IF single # {} THEN \A c \in single : Report(name, SigName(c))
     ELSE IF Applicable # {} /\ Clause(Mask(last, Applicable)) THEN \A c \in Applicable : Report(name, SigName(c))
     ELSE Report(name, "Sig_" \o name \o "_" \o last.ev.t)

M_OnePerObject   == Monitor("C20_OnePerObject", C20_OnePerObject)
M_RestartOnSpec  == Monitor("C20_RestartOnSpec", C20_RestartOnSpec)
M_NoopOnSame     == Monitor("C20_NoopOnSame", C20_NoopOnSame)
M_StopOnDelete   == Monitor("C20_StopOnDelete", C20_StopOnDelete)
M_QuietAfterStop == Monitor("C20_QuietAfterStop", C20_QuietAfterStop)
M_BadConfigInert == Monitor("C20_BadConfigInert", C20_BadConfigInert)
\* a crash of the process inside the code under test: "does not take the process down"
M_NoCrash == crash = "" \/ PrintT("MONITOR|C20|C20_BadConfigInert|Sig_C20_ProcessCrash|" \o sc \o "|" \o ToString(last.k) \o "|" \o ToJson([where |-> crash]))

\* ---- machinery: the line has the shape the driver writes ---------------------------------
\* ---- and the harness executed what TLC printed: both agree on what must run ------------------
WantClass(n) == IF ~last.obj[n].has THEN "mustnot"
                ELSE LET c == ClassOf(last.obj[n].spec, Kind) IN IF c = "valid" THEN "must" ELSE IF c = "invalid" THEN "mustnot" ELSE "may"
ExpAgrees == last.k = 0 \/ (\A n \in DOMAIN last.want : n \in Names /\ last.want[n].c = WantClass(n))
             \/ PrintT("BROKEN|expectation|" \o sc \o "|" \o ToString(last.k) \o "|" \o ToJson([printed |-> last.want, recomputed |-> [n \in Names |-> WantClass(n)]]))
Shape == last.k = 0 \/ (\A v \in last.nDuring \cup last.nAfter : v.n \in Names) \/ PrintT("BROKEN|shape|" \o sc \o "|" \o ToString(last.k) \o "|" \o ToJson(Facts))
Machinery == ExpAgrees /\ Shape

\* ---- drift: the real code did something else than the model of the code predicts -----------
DriftFree ==
  \/ last.k = 0
  \/ /\ \A n \in Names : st.run[n].has = last.run[n].has /\ (st.run[n].has => st.run[n].spec = last.run[n].spec)
     /\ st.err = last.err /\ st.panic = last.panic
     /\ (last.refl => (last.cnt.r = st.refs /\ last.cnt.h = st.hands))
     /\ last.cnt.w = [r \in Rs |-> IF st.refs[r] > 0 THEN 1 ELSE 0]
  \/ PrintT("DRIFT|" \o sc \o "|" \o ToString(last.k) \o "|" \o ToJson([op |-> Facts.op,
              model |-> [run |-> [n \in Names |-> [has |-> st.run[n].has, tag |-> st.run[n].spec.tag]], err |-> st.err, panic |-> st.panic, refs |-> st.refs, hands |-> st.hands],
              real |-> [run |-> Facts.running, err |-> last.err, panic |-> last.panic, cnt |-> last.cnt]]))
=============================================================================
