SPECIFICATION Spec
CONSTANTS
  Slots <- Slots2
  Kinds <- KBoth
  Methods <- MAll
  Progs <- PAll
  Scopes <- ScAll
  GenSels <- GBoth
  ArcheSet = "full"
INVARIANTS Emit
CHECK_DEADLOCK FALSE
