SPECIFICATION Spec
CONSTANTS
  MaxEv = 2
  Focus <- FAll
  Kinds <- KBoth
  Width = "core"
  Real = TRUE
  Fixed = FALSE
  Beh = FALSE
INVARIANTS D_Complete D_Sound D_KeyParses
CHECK_DEADLOCK FALSE
