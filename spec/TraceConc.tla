------------------------------ MODULE TraceConc ------------------------------
(* Trace specification for the concurrency runs of C17: for every concurrency shape the      *)
(* harness ran the real controller with N workers and with one worker, freely, under the Go   *)
(* race detector.  Events: ConcRun (workers, normalised final store), Race (one report of the *)
(* detector, attributed to the /repo source location of the racing access).                  *)
EXTENDS Integers, Sequences, FiniteSets, TLC, Json, IOUtils
Trace == ndJsonDeserialize(IOEnv.VERIF_TRACE)
N == Len(Trace)
VARIABLES l, serial, conc
vars == <<l, serial, conc>>
E == Trace[l]
Report(name, sig, facts) == PrintT("MONITOR|C17|" \o name \o "|" \o sig \o "|" \o E.sc \o "|" \o ToString(l) \o "|" \o ToJson(facts))
Init == l = 1 /\ serial = <<>> /\ conc = <<>>
Next == /\ l <= N /\ l' = l + 1
        /\ IF E.ev = "ConcRun" /\ E.workers = 1 THEN serial' = (E.sc :> E.final) @@ serial /\ UNCHANGED conc
           ELSE IF E.ev = "ConcRun" THEN conc' = (E.sc :> E.final) @@ conc /\ UNCHANGED serial
           ELSE UNCHANGED <<serial, conc>>
Spec == Init /\ [][Next]_vars
\* no data race: the lockset model of spec/Threads.tla (variant "intended") admits none
C17_NoRace == (l <= N /\ E.ev = "Race") => Report("C17_NoRace", E.sig, <<E.loc, E.other>>)
\* running the syncs concurrently gives the same result as running them one after another
C17_Serial == (l <= N /\ E.ev = "ConcRun" /\ E.workers = 1 /\ E.sc \in DOMAIN conc)
              => (conc[E.sc] = E.final \/ Report("C17_Serial", "-", <<"final stores differ", Len(conc[E.sc]), Len(E.final)>>))
TraceAccepted == TLCGet("stats").diameter - 1 = N
=============================================================================
