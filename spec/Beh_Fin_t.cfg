SPECIFICATION Spec
CONSTANTS
  MaxSteps = 5
  FinProgs <- FAll
  Kinds <- KBoth
  Beh = TRUE
INVARIANTS Emit
CHECK_DEADLOCK FALSE
