---------------------------- MODULE MC_Customize ----------------------------
(* Bounded instance for C15: every rule set of the rule universe x a fixed world of     *)
(* related objects spread over two namespaces and cluster scope x parent scope.          *)
(*   design level : the lemmas that connect the statement with the code as written       *)
(*                  (L_Exact, L_Errors, L_Wakes) are invariants over ALL cases;           *)
(*   scenarios    : every case is printed (SCN|json) for replay on the real controllers; *)
(*                  the printed expectation is informational, the verdict is computed    *)
(*                  by TraceCustomize from what the real code logged.                    *)
EXTENDS Customize, Json

CONSTANTS Pairs,     \* "none" | "core" | "all" : which two-rule sets are explored
          Beh        \* print scenarios

VARIABLES cs
vars == <<cs>>

\* ---- the world ---------------------------------------------------------------------------
O(kind, av, ns, name, lab) ==
  [live |-> TRUE, kind |-> kind, av |-> av, ns |-> ns, name |-> name, uid |-> kind \o "-" \o ns \o "-" \o name,
   labels |-> lab]
R1 == ("r" :> "1")
R2 == ("r" :> "2")
World ==
  { O("ConfigMap", "v1", "ns1", "ra", R1), O("ConfigMap", "v1", "ns1", "rb", R2),
    O("ConfigMap", "v1", "ns2", "ra", R1), O("ConfigMap", "v1", "ns2", "rb", <<>>),
    O("Thing", "verif.example/v1", "ns1", "ra", R1), O("Thing", "verif.example/v1", "ns2", "rb", R1),
    O("CThing", "verif.example/v1", "", "ra", R1), O("CThing", "verif.example/v1", "", "rb", R2) }

ParentNs == [ns |-> "ns1", name |-> "p", uid |-> "p1", gen |-> 1]
ParentCl == [ns |-> "", name |-> "p", uid |-> "p1", gen |-> 1]

\* ---- the rule universe -------------------------------------------------------------------
NoSel   == [ml |-> <<>>, me |-> <<>>]
SelR1   == [ml |-> R1, me |-> <<>>]
SelExpr == [ml |-> <<>>, me |-> <<[key |-> "r", op |-> "In", values |-> <<"1", "2">>]>>]
Sels == { [id |-> "absent", has |-> FALSE, sel |-> NoSel], [id |-> "empty", has |-> TRUE, sel |-> NoSel],
          [id |-> "ml", has |-> TRUE, sel |-> SelR1], [id |-> "expr", has |-> TRUE, sel |-> SelExpr] }
Rule(res, s, ns, names) ==
  [av |-> IF res = "configmaps" THEN "v1" ELSE "verif.example/v1", res |-> res, kind |-> KindOfRes(res),
   hasSel |-> s.has, sel |-> s.sel, ns |-> ns, names |-> names, selId |-> s.id]
NamesU == { <<>>, <<"ra">>, <<"ra", "rb">> }
CmRules  == { Rule("configmaps", s, ns, nm) : s \in Sels, ns \in {"", "ns1", "ns2"}, nm \in NamesU }
ThRules  == { Rule("things", s, ns, nm) : s \in { x \in Sels : x.id \in {"absent", "ml"} }, ns \in {"", "ns2"}, nm \in { <<>>, <<"ra">> } }
CtRules  == { Rule("cthings", s, ns, nm) : s \in { x \in Sels : x.id \in {"absent", "ml"} }, ns \in {"", "ns1"}, nm \in { <<>>, <<"ra">> } }
Singles  == CmRules \cup ThRules \cup CtRules
\* a core of rules from which pairs are formed (two rules on one resource, and across resources)
CorePair == { r \in CmRules : /\ r.selId \in {"absent", "ml"}
                              /\ r.ns \in {"", "ns1", "ns2"} /\ r.names \in { <<>>, <<"ra">> } }
            \cup { r \in CtRules : r.ns = "" /\ r.names = <<>> }
PairSrc == IF Pairs = "all" THEN Singles ELSE IF Pairs = "core" THEN CorePair ELSE {}
RuleSets == { <<>> } \cup { <<r>> : r \in Singles } \cup { <<a, b>> : a \in PairSrc, b \in PairSrc }

Cases == [rules : RuleSets, scope : {"ns", "cluster"}]
ParentOf(c) == IF c.scope = "ns" THEN ParentNs ELSE ParentCl
PNs(c) == c.scope = "ns"

Init == cs \in Cases
Next == UNCHANGED cs
Spec == Init /\ [][Next]_vars

\* ---- design lemmas -------------------------------------------------------------------------
\* the code raises an error exactly where the statement demands one
L_Errors == HasErr(cs.rules, ParentOf(cs), PNs(cs)) <=> CodeErr(cs.rules, ParentOf(cs), PNs(cs))
\* without an error the code lists exactly the selected objects
L_Exact  == ~HasErr(cs.rules, ParentOf(cs), PNs(cs))
             => CodeSelected(cs.rules, ParentOf(cs), PNs(cs), World) = Selected(cs.rules, ParentOf(cs), PNs(cs), World)
\* whatever can appear in the related map also triggers (the two code paths agree in the
\* direction the statement needs)
L_Wakes  == ~HasErr(cs.rules, ParentOf(cs), PNs(cs))
             => \A o \in Selected(cs.rules, ParentOf(cs), PNs(cs), World) : Wakes(cs.rules, ParentOf(cs), PNs(cs), o)
\* mixed rule / foreign namespace are errors (statement's two named cases)
L_Mixed  == (\E i \in DOMAIN cs.rules : RuleMixed(cs.rules[i])) => CodeErr(cs.rules, ParentOf(cs), PNs(cs))
L_Foreign == (\E i \in DOMAIN cs.rules : RuleForeignNs(cs.rules[i], ParentOf(cs), PNs(cs))) => CodeErr(cs.rules, ParentOf(cs), PNs(cs))
\* anti-vacuity: the converse of L_Wakes does NOT hold (label rules wake across namespaces) -- expected violation
L_WakesOnlySelected ==
  ~HasErr(cs.rules, ParentOf(cs), PNs(cs))
    => \A o \in World : Wakes(cs.rules, ParentOf(cs), PNs(cs), o) => o \in Selected(cs.rules, ParentOf(cs), PNs(cs), World)

\* ---- scenario output ----------------------------------------------------------------------
KeyOf(o) == <<o.kind, o.ns, o.name>>
SetToSeq(S) == LET RECURSIVE f(_) f(T) == IF T = {} THEN <<>> ELSE LET x == CHOOSE y \in T : TRUE IN <<x>> \o f(T \ {x}) IN f(S)
RuleOut(r) == [av |-> r.av, res |-> r.res, sel |-> r.selId, ns |-> r.ns, names |-> r.names]
Emit == Beh => PrintT("SCN|" \o ToJson([
            rules |-> [i \in DOMAIN cs.rules |-> RuleOut(cs.rules[i])], n |-> Len(cs.rules), scope |-> cs.scope,
            err |-> HasErr(cs.rules, ParentOf(cs), PNs(cs)),
            mixed |-> \E i \in DOMAIN cs.rules : RuleMixed(cs.rules[i]),
            foreign |-> \E i \in DOMAIN cs.rules : RuleForeignNs(cs.rules[i], ParentOf(cs), PNs(cs)),
            selected |-> SetToSeq({ KeyOf(o) : o \in Selected(cs.rules, ParentOf(cs), PNs(cs), World) }),
            wakesOnly |-> SetToSeq({ KeyOf(o) : o \in { x \in World : Wakes(cs.rules, ParentOf(cs), PNs(cs), x)
                                                               /\ x \notin Selected(cs.rules, ParentOf(cs), PNs(cs), World) } }) ]))
=============================================================================
