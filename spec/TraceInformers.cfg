SPECIFICATION TSpec
CONSTANTS
  NS = 3
  NR = 2
  NO = 2
  MaxOps = 1000000
  MaxH = 1000
  Ticks = FALSE
  Beh = FALSE
  Mut = "none"
  AddEv = TRUE
CHECK_DEADLOCK FALSE
POSTCONDITION TraceAccepted
INVARIANT Machinery
INVARIANT M_RunningIffSubscribed
INVARIANT M_StopOnLast
INVARIANT M_FreshAfterRestart
INVARIANT M_Replay
INVARIANT M_Complete
INVARIANT M_Silent
INVARIANT M_Isolation
INVARIANT M_NoPanic
INVARIANT M_NoRace
INVARIANT DriftFree
