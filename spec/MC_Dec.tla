---------------------------- MODULE MC_Dec ----------------------------
EXTENDS Dec
SubBoth == {TRUE, FALSE}
SelAll  == {"both", "labelOnly", "annOnly", "neither"}
SelBoth == {"both"}
StyAll == {"ml", "me", "mixed"}
StyMl == {"ml"}
=============================================================================
