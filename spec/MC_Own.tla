---------------------------- MODULE MC_Own ----------------------------
EXTENDS Own
Kids2      == <<"a", "b">>
Kids1      == <<"a">>
ActorsA    == {"A"}
ActorsAB   == {"A", "B"}
AllDesired == SUBSET {"a", "b"}
DesA       == {{"a"}, {}}
DesOne     == {{"a"}}
AllDesired1 == SUBSET {"a"}
=============================================================================
