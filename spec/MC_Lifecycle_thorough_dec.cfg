SPECIFICATION Spec
CONSTANTS
  NN = 2
  Kind = "decorator"
  Pal <- MCPal
  Allowed <- Al_full
  MaxLen = 7
  Fixed <- FxAll
  Mut = "none"
  Beh = FALSE
  MxAll = FALSE
CHECK_DEADLOCK FALSE
INVARIANTS VariantsOK Inv_Counters Inv_OnePerObject Inv_RestartOnSpec Inv_NoopOnSame Inv_StopOnDelete Inv_QuietAfterStop Inv_BadConfigInert
