"""C17 -- shared caches stay read-only and concurrent syncs do not race."""
import json, os, re, subprocess

import vlib
from props import sync_level, COMPOSITE, DECORATOR, mc_run
import fam_own, fam_conv, fam_fin, fam_faults, fam_dec, fam_roll, fam_status

PLAN = {
    "pkgs": {"composite": COMPOSITE, "decorator": DECORATOR},
    "mc": {"quick": [("Threads", "MC_Threads_intended.cfg", None), ("Threads", "MC_Threads_code.cfg", "C17_NoRace")],
           "thorough": [("Threads", "MC_Threads_intended.cfg", None), ("Threads", "MC_Threads_plain.cfg", None), ("Threads", "MC_Threads_code.cfg", "C17_NoRace")]},
    # every sync-level family runs with the cache-fingerprint oracle on (C17_CacheFrozen, C17_HookSeesDelivered)
    "beh": {
        "quick": [("MC_Own", "Beh_Own_q.cfg", fam_own.convert, 150), ("MC_Conv", "Beh_Conv_t.cfg", fam_conv.convert, 300),
                  ("MC_Fin", "Beh_Fin_t.cfg", fam_fin.convert, 200), ("MC_Faults", "Beh_Faults_q.cfg", fam_faults.convert, 0),
                  ("MC_Dec", "Beh_Dec_q.cfg", fam_dec.convert, 300), ("MC_Status", "Beh_Status_q.cfg", fam_status.convert, 150),
                  ("MC_Rolling", "Beh_Rolling_q.cfg", fam_roll.convert, 60)],
        "thorough": [("MC_Own", "Beh_Own_t.cfg", fam_own.convert, 4000), ("MC_Conv", "Beh_Conv_t.cfg", fam_conv.convert, 6000),
                     ("MC_Fin", "Beh_Fin_t6.cfg", fam_fin.convert, 4000), ("MC_Faults", "Beh_Faults_t.cfg", fam_faults.convert, 3000),
                     ("MC_Dec", "Beh_Dec_t.cfg", fam_dec.convert, 4000), ("MC_Status", "Beh_Status_t.cfg", fam_status.convert, 0),
                     ("MC_Rolling", "Beh_Rolling_q.cfg", fam_roll.convert, 800)],
    },
}

MANIFEST = dict(
    text="(a) every sync-level scenario family (ownership, convergence, finalizer life cycles, faults, decorator, status, rolling) "
         "is replayed with a fingerprint of every object in every shared informer cache taken before and after each sync and "
         "across each delivery; TLC validates C17_CacheFrozen and C17_HookSeesDelivered on the traces.  (b) spec/Threads.tla models "
         "goroutines (workers, per-revision hook goroutines with fork/join, informer dispatch), the process-wide locations and the "
         "locks held at each access; TLC checks the lockset/fork-join race predicate (variant as delivered: race on the "
         "relatedInformers map; variant with the mutex: none) and names the concurrency shapes; those shapes run on the real "
         "controller with several workers, freely, under the Go race detector, and with one worker; TLC validates "
         "C17_NoRace and C17_Serial (same final store) on the resulting trace.  The race detector is the observation device for "
         "memory accesses (no TLA+ tool can see them); it is dynamic: a race not exercised by a run is not reported."
         ' Concurrent runs include server-side apply with scale-downs (memo map), and rollouts in which both per-revision hook calls of a sync fail together; every log verbosity level is on.',
    ref="DESIGN.md §8 C17",
    tech="TLA+ lockset model + TLC trace validation of cache fingerprints and of race-detector/serial-equivalence runs on real code")


def conc_scenarios(raws, tier, seed):
    out = []
    n_par = 6 if tier == "quick" else 10
    reps = 2 if tier == "quick" else 12
    for ri, raw in enumerate(raws):
        for rep in range(reps):
            for method in (["RollingInPlace"] if raw.get("rolling") else ["InPlace"]):
                objs = []
                for i in range(n_par):
                    objs.append({"res": "parents", "name": "p%d" % i, "uid": "p%d" % i,
                                 "spec": {"selector": {"matchLabels": {"own": "p%d" % i}},
                                          "template": {"metadata": {"labels": {"own": "p%d" % i}}},
                                          "rev": "1", "nonrev": "1", "names[]": ["p%d-a" % i, "p%d-b" % i]}})
                for j in range(3):
                    objs.append({"res": "configmaps", "name": "rel%d" % j, "uid": "rel%d" % j, "labels": {"r": "1"}, "top": {"data": {"k": "v"}}})
                hook = {"sync": {"prog": "byParent", "res": "things", "status": {"phase": "x"}},
                        "customize": {"prog": "const", "related": [{"apiVersion": "v1", "resource": "configmaps", "labelSelector": {"matchLabels": {"r": "1"}}},
                                                                    {"apiVersion": "verif.example/v1", "resource": "cthings", "labelSelector": {"matchLabels": {"r": "1"}}}]}}
                sched = [{"s": "env", "op": "setfield", "res": "parents", "name": "p%d" % i, "path": ["spec", "rev"], "value": "2", "wait": i == n_par - 1}
                         for i in range(n_par)]
                sched += [{"s": "env", "op": "touch", "res": "configmaps", "name": "rel0", "wait": True}]
                sched += [{"s": "env", "op": "setfield", "res": "parents", "name": "p%d" % i, "path": ["spec", "nonrev"], "value": "2", "wait": i == n_par - 1}
                          for i in range(n_par)]
                # scale-down of every other parent (children deleted) while the rest get another update, then scale up again
                for wave, val in ((0, "3"), (1, "4")):
                    for i in range(n_par):
                        if i % 2 == wave:
                            sched.append({"s": "env", "op": "setfield", "res": "parents", "name": "p%d" % i, "path": ["spec", "names"], "value": ["p%d-a" % i]})
                        else:
                            sched.append({"s": "env", "op": "setfield", "res": "parents", "name": "p%d" % i, "path": ["spec", "nonrev"], "value": val})
                    sched[-1]["wait"] = True
                    for i in range(n_par):
                        if i % 2 == wave:
                            sched.append({"s": "env", "op": "setfield", "res": "parents", "name": "p%d" % i, "path": ["spec", "names"], "value": ["p%d-a" % i, "p%d-b" % i]})
                    sched[-1]["wait"] = True
                cfg = {"kind": "composite", "parentRes": "parents", "children": [{"res": "things", "method": method}],
                       "fieldPaths": ["spec.rev"], "customize": bool(raw.get("customize")), "workers": 4 + (rep % 3) * 2}
                if raw.get("ssa"):
                    cfg["apply"] = "ssa"
                if raw.get("rolling") and rep % 2 == 1:
                    # the revisioned and a non-revisioned field change together: the first syncs of the rollout have two live
                    # revisions and BOTH per-revision hook calls fail (error paths of the parallel calls run concurrently)
                    hook = dict(hook, sync=dict(hook["sync"], failBurst=3, failWhen={"field": "nonrev", "value": "1b", "times": 2 * n_par}))
                    sched = [dict(st) for st in sched]
                    first = [st for st in sched if st.get("path") == ["spec", "rev"]]
                    extra = []
                    for st in first:
                        extra.append(dict(st, path=["spec", "nonrev"], value="1b", wait=False))
                    out_s = []
                    for st in sched:
                        out_s.append(st)
                        if st in first:
                            out_s.insert(len(out_s) - 1, extra[first.index(st)])
                    sched = out_s
                out.append({"id": "conc-%d-%d-%s" % (ri, rep, method), "fam": "conc", "cfg": cfg, "objs": objs, "hook": hook, "sched": sched, "expect": {}})
    return out


RACE_RE = re.compile(r"WARNING: DATA RACE(.*?)={18}", re.S)


def parse_races(out):
    races = []
    for block in RACE_RE.findall(out):
        frames = re.findall(r"(/\S+?/pkg/[^\s:]+\.go):(\d+)", block)
        repo = [(f, ln) for f, ln in frames if "/pkg/internal/verifsim" not in f and "_test.go" not in f and "/mod/" not in f]
        funcs = re.findall(r"\n\s+(metacontroller/pkg/[^\s(]+)\(", block)
        funcs = [f for f in funcs if "verifsim" not in f]
        loc = ("%s:%s" % (repo[0][0].split("/pkg/", 1)[1], repo[0][1])) if repo else "unknown"
        other = ("%s:%s" % (repo[-1][0].split("/pkg/", 1)[1], repo[-1][1])) if repo else "unknown"
        fn = funcs[0].rsplit("/", 1)[-1] if funcs else "unknown"
        races.append({"loc": loc, "other": other, "sig": "Sig_C17_Race_" + re.sub(r"[^A-Za-z0-9]", "_", fn)})
    return races


def run_conc(scr, tier):
    r, raws = (None, None)
    import props
    r, raws = props.beh_run(scr, "Threads", "Beh_Threads.cfg")
    _, raws2 = props.beh_run(scr, "Threads", "Beh_Threads_ssa.cfg")
    raws = list(raws) + list(raws2)
    scenarios = conc_scenarios(raws, tier, vlib.seed())
    binary = vlib.build_test_binary(scr, COMPOSITE, race=True)
    shards = vlib.shard(scenarios, 4 if tier == "quick" else 8)
    events, outs = [], []
    import concurrent.futures as cf

    def one(ix_part):
        ix, part = ix_part
        scn, trc = scr.path("conc-%d.scn" % ix), scr.path("conc-%d.trace" % ix)
        with open(scn, "w") as fh:
            for s in part:
                fh.write(json.dumps(s) + "\n")
        rc, out = vlib.run_test_binary(binary, "TestVerifConcurrent", {"VERIF_SCN": scn, "VERIF_TRACE": trc, "GORACE": "halt_on_error=0"}, timeout=1500)
        return rc, out, trc, part

    with cf.ThreadPoolExecutor(max_workers=len(shards)) as ex:
        for rc, out, trc, part in ex.map(one, list(enumerate(shards))):
            races = parse_races(out)
            if rc != 0 and not races:
                raise vlib.Inconclusive("concurrency driver failed (rc=%d):\n%s" % (rc, out[-3000:]))
            evs = [json.loads(l) for l in open(trc)] if os.path.exists(trc) else []
            for rc_ in races:
                evs.append(dict(rc_, ev="Race", sc=part[0]["id"]))
            events += evs
    path = scr.path("conc-all.trace.ndjson")
    with open(path, "w") as fh:
        for e in events:
            fh.write(json.dumps(e, separators=(",", ":")) + "\n")
    hits, st, tr = vlib.validate_traces(scr, [path], module="TraceConc", cfg="TraceConc.cfg")
    return scenarios, events, hits, st, tr, r


def run(scr, tier, replay_file):
    res = sync_level(scr, tier, "C17", "C17_", PLAN, replay_file)
    if replay_file:
        return res
    scenarios, events, hits, st, tr, r = run_conc(scr, tier)
    # one witness per racing location is enough
    seen = set()
    for h in hits:
        key = (h["name"], h["sig"])
        if key in seen:
            continue
        seen.add(key)
        res["hits"].append(h)
    res["states"] += st + r["distinct"]
    res["transitions"] += tr + r["states"]
    res["scenarios"].update({s["id"]: s for s in scenarios})
    runs = [e for e in events if e.get("ev") == "ConcRun"]
    res["extra"]["concurrent_runs"] = len(runs)
    res["extra"]["race_reports"] = len([e for e in events if e.get("ev") == "Race"])
    res["extra"]["hook_calls_in_concurrent_runs"] = sum(e.get("hookCalls", 0) for e in runs)
    res["traces"] += len(runs)
    res["evaluations"] = res["traces"]
    res["assumptions"] = vlib.ENV_ASSUMPTIONS + ["the Go race detector is the observation device for unsynchronised memory accesses; it reports only races exercised by a run"]
    return res
