"""Family "shapes": hook responses with one (or two) fields replaced by every JSON type, and
HTTP/body classes (spec/Shapes.tla, C13).  Concretisation into bytes only."""
import copy, json

HUGE = "@@HUGE@@"
FIN = {"composite": "metacontroller.io/compositecontroller-cc", "decorator": "metacontroller.io/decoratorcontroller-dc"}


def deep(n):
    v = "x"
    for _ in range(n):
        v = {"d": v}
    return v


def value_of(t):
    return {"null": None, "true": True, "zero": 0, "neg": -1, "huge": HUGE, "float": 1.5, "str": "zzz", "emptyStr": "",
            "emptyList": [], "emptyMap": {}, "listNull": [None], "listStr": ["s"], "listMap": [{}], "mapNum": {"k": 1},
            "mapNull": {"k": None}, "deep": deep(40)}[t]


def child(name):
    return {"apiVersion": "verif.example/v1", "kind": "Thing",
            "metadata": {"name": name, "namespace": "ns1", "labels": {"app": "x"}, "annotations": {"k": "v"}},
            "spec": {"f1": "v1"}}


def base_response(cfg):
    if cfg in ("decorator", "decoratorFinalize"):
        r = {"labels": {"k": "v"}, "annotations": {"k": "v"}, "status": {"n": "1"}, "attachments": [child("a")], "resyncAfterSeconds": 0}
        if cfg == "decoratorFinalize":
            r["finalized"] = False
        return r
    if cfg == "customize":
        return {"relatedResources": [{"apiVersion": "v1", "resource": "configmaps", "labelSelector": {"matchLabels": {"r": "1"}}}]}
    r = {"status": {"conditions": [{"type": "Ready", "status": "True"}], "n": 1}, "children": [child("a")], "resyncAfterSeconds": 0}
    if cfg == "finalize":
        r["finalized"] = False
    if cfg == "gensel":
        del r["children"][0]["metadata"]["labels"]
    return r


def mutate(doc, path, typ):
    parts = path.split(".")
    cur = doc
    for i, p in enumerate(parts[:-1]):
        if isinstance(cur, list):
            if not p.isdigit():
                return doc      # an earlier mutation replaced this container: the path no longer exists
            idx = int(p)
            if idx >= len(cur):
                return doc
            nxt = cur[idx]
        elif isinstance(cur, dict):
            if p not in cur:
                # materialise missing intermediate containers of the grammar
                cur[p] = [] if parts[i + 1].isdigit() else {}
            nxt = cur[p]
        else:
            return doc
        cur = nxt
    last = parts[-1]
    if isinstance(cur, list):
        if not last.isdigit():
            return doc
        idx = int(last)
        if typ == "missing":
            if idx < len(cur):
                del cur[idx]
        elif idx < len(cur):
            cur[idx] = value_of(typ)
        else:
            cur.append(value_of(typ))
    elif isinstance(cur, dict):
        if typ == "missing":
            cur.pop(last, None)
        else:
            cur[last] = value_of(typ)
    return doc


def render(doc):
    return json.dumps(doc).replace('"%s"' % HUGE, "1e400")


def body_of(raw):
    cfg = raw["cfg"]
    code = 200
    if raw["body"] != "-":
        b = raw["body"]
        good = render(base_response(cfg))
        text = {"empty": "", "notJson": "{{{", "topArray": "[]", "topNull": "null", "topString": "\"x\"",
                "truncated": good[: max(5, len(good) // 2)],
                "unknownField": good[:-1] + ',"bogusField":{"x":1}}',
                "dupField": good[:-1] + ',"status":{"dup":"1"}}' if "status" in base_response(cfg) else good[:-1] + ',"relatedResources":[]}',
                }.get(b, good)
        code = {"http500": 500, "http404": 404, "http302": 302, "http204": 204,
                "etagPoison500": 500, "etagPoison404": 404, "etagPoison201": 201}.get(b, 200)
        return code, text
    doc = copy.deepcopy(base_response(cfg))
    for m in (raw["m1"], raw["m2"]):
        if m["on"]:
            doc = mutate(doc, m["field"], m["type"])
    return code, render(doc)


def convert(raw, sid):
    cfg = raw["cfg"]
    code, text = body_of(raw)
    mutated = {"prog": "raw", "code": code, "body": text}
    etag = raw["body"].startswith("etag")
    if etag:
        mutated["headers"] = {"ETag": "E1"}
        mutated["ifNoneMatch"] = {"code": 304}
    good_child = {"res": "things", "name": "a", "labels": {"app": "x"}, "spec": {"f1": "v1"}}
    good = {"prog": "const", "children": [good_child], "status": {"n": "1"}}
    dec = cfg in ("decorator", "decoratorFinalize")
    kind = "decorator" if dec else "composite"
    c = {"kind": kind, "parentRes": "parents", "children": [{"res": "things", "method": "InPlace"}], "strict": raw["mode"] == "strict"}
    if etag:
        c["etag"] = True
    parent = {"res": "parents", "name": "p", "uid": "p1"}
    owned = {"res": "things", "name": "x", "uid": "c-x", "labels": {"app": "x"}, "spec": {"f1": "v1"}, "la": {"f1": "v1"},
             "owners": [{"uid": "p1", "kind": "Parent", "name": "p", "ctrl": True}]}
    if dec:
        parent["labels"] = {"deco": "yes"}
        parent["spec"] = {"x": "1"}
        c["dselLabels"] = {"matchLabels": {"deco": "yes"}}
        owned["ann"] = {"metacontroller.k8s.io/decorator-controller": "dc"}
        key = "verif.example/v1:Parent:ns1:p"
    else:
        parent["spec"] = {"selector": {"matchLabels": {"app": "x"}}, "template": {"metadata": {"labels": {"app": "x"}}}, "rev": "1"}
        key = "ns1/p"
    hook = {"sync": mutated}
    if cfg == "rolling":
        c["children"][0]["method"] = "RollingInPlace"
    if cfg == "gensel":
        c["genSel"] = True
        owned["labels"] = {"controller-uid": "p1"}
    if cfg in ("finalize", "decoratorFinalize"):
        c["finalize"] = True
        parent["deleting"] = True
        parent["fins"] = [FIN[kind]]
        hook = {"sync": good, "finalize": mutated}
    if cfg == "customize":
        c["customize"] = True
        hook = {"sync": good, "customize": mutated}
    sched = [{"s": "sync", "a": "A", "key": key}, {"s": "run", "a": "A"}, {"s": "deliver"},
             {"s": "sync", "a": "A", "key": key}, {"s": "run", "a": "A"}]
    return {"id": sid, "fam": "shapes", "cfg": c, "objs": [parent, owned], "hook": hook, "sched": sched,
            "expect": {"shape": {"m1": raw["m1"], "m2": raw["m2"], "body": raw["body"], "mode": raw["mode"], "cfg": cfg}}}
