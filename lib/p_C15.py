"""C15 -- related objects: the hook gets exactly what its customize rules select."""
import fam_triggers as fam
import fam_customize as fc

MANIFEST = dict(
    text="spec/Customize.tla holds the statement-level definitions (RuleErr: a rule mixing label selector with namespace/names, "
         "or naming a foreign namespace for a namespaced parent; Selected: by label selector or by namespace and names, confined to "
         "the parent's namespace for namespaced parents) next to transcriptions of GetRelatedObjects + Convert (CodeSelected, "
         "CodeErr) and of matchesRelatedRule as used by findRelatedParents (Wakes). TLC checks over every rule set of "
         "spec/MC_Customize.tla (label selectors absent/empty/matchLabels/one expression x namespace x names incl. the invalid "
         "mixes, two rules on one resource and across resources, 3 related resources in 2 namespaces + cluster scope, both parent "
         "scopes): errors coincide, CodeSelected = Selected, o in Selected => Wakes (and that the converse is violated). Every case "
         "is replayed on the real composite and decorator controllers: sync, change every related object (touch / relabel / "
         "delete, delivered through the simulated watch to the real handlers), sync, bump the parent's generation (optionally the "
         "hook then answers with other rules), sync. TLC validates the trace against spec/TraceCustomize.tla (TraceSync extended by "
         "the customize cache and the last related map): C15_Exact, C15_Errors, C15_Once, C15_Wakes."
         " Variants: related objects changing before the parent's new generation is synced; a failing customize call while another parent's answer is cached.",
    ref="DESIGN.md §8 C15",
    tech="TLA+ definitions (statement vs code) with TLC-checked lemmas + TLC case enumeration replayed on real code + TLC trace "
         "validation")

MC = "MC_Customize"
DESIGN_Q = [(MC, "MC_Customize_q.cfg", None), (MC, "MC_Customize_anti.cfg", "L_WakesOnlySelected")]
DESIGN_T = DESIGN_Q + [(MC, "MC_Customize_t.cfg", None)]
PLAN = {
    "mc": {"quick": DESIGN_Q, "thorough": DESIGN_T},
    "beh": {
        "quick": [(MC, "Beh_Customize_q.cfg", fc.convert_for("composite"), 0, 0), (MC, "Beh_Customize_q.cfg", fc.convert_for("decorator"), 0, 0)],
        # thorough: every case in three of the twelve variants (change kind x rules of generation 2 x second parent)
        "thorough": [(MC, "Beh_Customize_t.cfg", fc.convert_for(k, sh), 0, 0) for k in ("composite", "decorator") for sh in (0, 4, 8)],
    },
}


def judged(by_sc):
    evals = nontrivial = 0
    for sc, evs in by_sc.items():
        hooks = [e for e in evs if e.get("ev") == "Hook" and e.get("hook") in ("sync", "finalize")]
        q = [e for e in evs if e.get("ev") == "Queue"]
        evals += len(hooks) + len(q) + sum(1 for e in evs if e.get("ev") == "SyncEnd")
        if any(e["req"]["related"] and any(g for g in e["req"]["related"].values()) for e in hooks):
            nontrivial += 1
    return evals, nontrivial


RULE = ("scenarios = every rule set of the bounded TLA+ instance MC_Customize x parent scope x controller kind, enumerated by TLC; "
        "evaluations = sync/finalize hook requests, sync ends and Queue observations judged by the monitors; non-trivial = "
        "scenarios in which some related map sent to the hook was not empty")


def run(scr, tier, replay_file):
    return fam.pipeline(scr, tier, "C15", PLAN, replay_file, "TraceCustomize", "TraceCustomize.cfg", judged, RULE)
