"""C08 -- rolling updates."""
from props import sync_level, all_families
from plan_roll import ROLL_PLAN

MANIFEST = dict(
    text="spec/Rolling.tla models a whole rolling sync (revision claims, immediate moves, the single gated move in hook order, "
         "health gate, Updated condition, overlay of old revisions, pruning) in a variant as delivered and a variant with one name "
         "form; TLC checks OneMove / HookOrder / Gate / OldStay / NonRevNow, the linear completion bound and quiescence on every "
         "rollout PLAN (health policy x perturbations: second spec change, external child deletion, scale down/up, non-revisioned "
         "edit x RollingInPlace/RollingRecreate x status checks x hook-owned Updated condition) and prints each plan as a scenario; "
         "replayed round by round on the real composite controller with real ControllerRevisions; TLC validates the trace against "
         "spec/TraceSync.tla (C07_OneMove, C07_HookOrder, C07_Gate, C07_OldStay, C07_NonRevNow, C07_Cond; C08_Done, "
         "C08_NoNeedlessWait)."
         ' Plans vary the health policy (observedGeneration absent / 0 / not a number), whether the child SET depends on the revision, children pre-edited by somebody else (last-applied-only updates), generateSelector, status checks with and without reason, scale-down of the first or the last child.',
    ref="DESIGN.md §8 C08",
    tech="TLA+ model (TLC invariants) + TLC-enumerated rollout plans replayed on real code + TLC trace validation")


def run(scr, tier, replay_file):
    return sync_level(scr, tier, "C08", "C08_", all_families(ROLL_PLAN), replay_file)
