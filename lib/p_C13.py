"""C13 -- no hook response, however malformed, can crash metacontroller or cause writes."""
from props import sync_level, all_families, COMPOSITE, DECORATOR
import fam_shapes

PLAN = {
    "pkgs": {"composite": COMPOSITE, "decorator": DECORATOR},
    "mc": {"quick": [], "thorough": []},
    "beh": {
        "quick": [("MC_Shapes", "Beh_Shapes_q.cfg", fam_shapes.convert, 0)],
        "thorough": [("MC_Shapes", "Beh_Shapes_q.cfg", fam_shapes.convert, 0), ("MC_Shapes", "Beh_Shapes_t.cfg", fam_shapes.convert, 20000)],
    },
}

MANIFEST = dict(
    text="spec/Shapes.tla is the grammar of the v1 hook responses (composite sync/finalize, customize, decorator); TLC enumerates "
         "every field x every JSON type (null, missing, booleans, zero/negative/huge numbers, strings, lists, maps, [null], deep "
         "nesting), pairs of such mutations, and whole-body / HTTP classes, x rolling / generateSelector / finalize / customize / "
         "decorator x strict / loose; each case is served by the in-process webhook to the real controllers (real decode path, real "
         "worker entry point with panic capture) and TLC validates the trace against spec/TraceSync.tla (C13_NoPanic, "
         "C13_RejectedNoWrites).  Byte-level coverage-guided fuzzing is outside this technique and is not claimed."
         ' ETag sequences (a rejected answer carrying an ETag then 304; 200 + ETag then 304) are part of the grammar; slices of every other family run under C13_NoPanic / C13_RejectedNoWrites too (a worker must not panic in any world).',
    ref="DESIGN.md §8 C13",
    tech="TLA+ response grammar enumerated by TLC, replayed on real code + TLC trace validation")


def run(scr, tier, replay_file):
    # a worker must not panic in ANY world: slices of every other family run under C13_NoPanic / C13_RejectedNoWrites too
    return sync_level(scr, tier, "C13", "C13_", all_families(PLAN), replay_file)
