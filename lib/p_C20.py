"""C20 -- hosted controllers follow their CompositeController / DecoratorController objects."""
import json, random, time

import vlib
import fam_lifecycle as fam

MANIFEST = dict(
    text="spec/Lifecycle.tla states (1) what a controller configuration is worth according to the statement (must start / cannot "
         "start / unspecified, computed from its traits: parent and child resources, hooks, every optional webhook field, label "
         "selector, status subresource of the parent CRD), what a running instance subscribes to, and the clauses "
         "C20_OnePerObject, C20_RestartOnSpec, C20_NoopOnSame, C20_StopOnDelete, C20_QuietAfterStop, C20_BadConfigInert as "
         "predicates over one observation (event, controller objects, instances before/after with identity, factory reference "
         "counts, handler registrations, server-side WATCH counts, hook calls and API writes attributed to instances, error, "
         "panic; leaks are carried and charged to the step that changes them); (2) the two reconcilers AS WRITTEN "
         "(Metacontroller.Reconcile, constructor failure paths, Start/Stop, shared informer reference counts). TLC checks the "
         "clauses on ALL event sequences (create / spec-changing update / no-op update / delete, 2 names x 10 configurations, "
         "<=5 / <=7 events) of the intended design, finds the counterexamples for each deviation of the code as written, and "
         "for eight seeded model deviations (anti-vacuity). TLC then enumerates every event history of the bounded instances and "
         "the full matrix of optional webhook fields, with what must run after each event; each is executed on the REAL "
         "composite and decorator Metacontroller.Reconcile (controller-runtime fake client for the controller objects and CRDs; "
         "real discovery, dynamic clients, shared informer factory, hosted controllers with 2 real workers, real webhook "
         "executors against an in-process hook server; parents and children pre-existing in the simulated API server; after "
         "each event a poke of every parent and a barrier). The recorded observations are validated by TLC against "
         "spec/TraceLifecycle.tla, which evaluates the SAME clause definitions as monitors and computes the signature of a hit "
         "by re-evaluating the clause with the named cause's effects masked."
         ' Variant: the event that stops an instance arrives while one of its syncs is in flight (hook answer held back; a held customize answer names a new related resource).',
    ref="DESIGN.md §8 C20",
    tech="TLA+ model + TLC exhaustive check + TLC behaviour enumeration replayed on real code + TLC trace validation",
    note="trusted base: TLC; the simulated API server's LIST/WATCH accounting (harness/verifsim); controller-runtime's fake client "
         "for the controller objects; the driver's barrier (an instance is alive when it called its sync hook for the new "
         "generation of each of its parents within 20 s; quiet = no hook call, request or LIST/WATCH movement for 30 ms with "
         "empty queues); reference counts and handler registrations of the factory are read by reflection (when not readable the "
         "trace says so and only the server-side WATCH counts are judged); hook calls of a restarted instance with an identical "
         "hook address cannot be told from those of its predecessor")

ASSUMPTIONS = [
    "E8 watch events are delivered in order (simulated API server, harness/verifsim); a closed informer is seen by the server as a closed WATCH stream",
    "controller objects and parent CRDs are served by controller-runtime's fake client; Reconcile is called once after every event, "
    "as controller-runtime does (a panic is recovered by the driver as controller-runtime's RecoverPanic default does)",
    "hosted controllers run 2 workers (VERIF_C20_WORKERS overrides); before /repo commit 1bfd7df (mutex around the customize "
    "manager's related-informers map) two workers could subscribe twice to a related resource or crash on concurrent map writes "
    "-- C17's subject -- which made replays of customize configurations non-deterministic",
    "bounds: 1-2 controller names (different parent resources, shared child resources), palette of 10 configurations with 49 "
    "alternatives, histories of 4 (quick) / 5 (thorough) events, every combination of the optional webhook fields "
    "(url, service, path, port, protocol, timeout, etag.*, responseUnMarshallMode) in one fixed history",
    "unspecified by the statement (nothing required or forbidden beyond no leak, no panic, and 'if it runs it runs the current "
    "spec'): non-positive timeout, the same child resource listed twice",
    "hook calls / API writes are attributed to (controller name, hook address tag); two successive instances of one name with "
    "the same hook address are indistinguishable",
]

PLAN = {
    # (cfg, quota composite, quota decorator); 0 = all
    "quick": dict(beh=[("Beh_Lifecycle_q1.cfg", 0, 350), ("Beh_Lifecycle_q2.cfg", 300, 200), ("Beh_Lifecycle_mxq.cfg", 0, 0)]),
    "thorough": dict(beh=[("Beh_Lifecycle_t1.cfg", 0, 9000), ("Beh_Lifecycle_t2.cfg", 9000, 6000), ("Beh_Lifecycle_mxt.cfg", 0, 0)]),
}


def _finish(scr, scenarios, traces, crashes, tlc_runs, states, trans, exhaustive, extra):
    merged = fam.merge(scr, traces, "C20v")
    t0 = time.time()
    hits, drift, st, tr = fam.validate(scr, merged)
    extra["validate_wall_s"] = round(time.time() - t0, 1)
    states += st
    trans += tr
    stats = fam.trace_stats(merged)
    if stats["unsettled"] and not hits:
        raise vlib.Inconclusive("%d step(s) did not settle within the barrier timeout although no clause fails on the recorded "
                                "observations (dead or overloaded driver)" % stats["unsettled"])
    by_id = {s["id"]: s for s in scenarios}
    for sid, out in crashes.items():
        by_id[sid] = dict(by_id.get(sid, {"id": sid}), crash_output=out)
    cache = {}

    def getter(sc):
        if not cache:
            for _, t in merged:
                for ev in vlib.read_trace(t):
                    cache.setdefault(ev.get("sc"), []).append(ev)
        return cache.get(sc, [])

    samples = []
    for s in scenarios[:2]:
        samples.append({"scenario": s["id"], "kind": s["kind"], "events": fam.ops_of(s),
                        "observed": [{"running": [(r["s"] if r["has"] else "-") for r in e["running"]], "watches": e["watches"],
                                      "refs": e["refs"], "err": e["err"], "panic": e["panic"]} for e in getter(s["id"]) if e.get("ev") == "Life"]})
    sigs = {}
    for h in hits:
        sigs[h["sig"]] = sigs.get(h["sig"], 0) + 1
    # one hit per (signature, clause) first: the verdict lines (capped) then show every kind of hit
    first, rest, seen = [], [], set()
    for h in sorted(hits, key=lambda h: (h["sc"], h["i"])):
        k = (h["sig"], h["name"])
        (rest if k in seen else first).append(h)
        seen.add(k)
    hits = first + rest
    extra.update({"trace_lines": stats["lines"], "unsettled_lines": stats["unsettled"], "scenarios_run": stats["scenarios"],
                  "scenarios_given": len(scenarios), "events_by_type": stats["events"], "instances_started": stats["starts"],
                  "instances_stopped": stats["stops"], "reconcile_panics": stats["panics"], "hook_calls": stats["hook_calls"],
                  "api_writes": stats["api_writes"], "reflection_unavailable_lines": stats["reflection_unavailable"],
                  "process_crashes": len(crashes), "hits_by_signature": sigs, "drift_examples": drift[:3]})
    return {"states": states, "transitions": trans, "traces": stats["scenarios"], "hits": hits, "scenarios": by_id, "trace_getter": getter,
            "samples": samples, "evaluations": stats["lines"], "distinct_nontrivial": stats["nontrivial"], "drift": len(drift),
            "rule": "scenarios = every event history of the bounded TLA+ instances (length = bound; shorter ones are their prefixes and "
                    "are judged line by line) and every element of the webhook-field matrix, enumerated by TLC; evaluations = event "
                    "lines judged by all six clauses; non-trivial = some hosted controller called a hook",
            "exhaustive": exhaustive, "tlc_runs": tlc_runs, "extra": extra, "assumptions": ASSUMPTIONS}


def run(scr, tier, replay_file):
    rng = random.Random(vlib.seed())
    tlc_runs, states, trans = [], 0, 0
    if replay_file:
        payload = json.load(open(replay_file))
        sc = payload["scenario"]
        sc = {k: v for k, v in sc.items() if k != "crash_output"}
        traces, crashes = fam.run_shards(scr, [sc], "C20r", shards=1)
        return _finish(scr, [sc], traces, crashes, tlc_runs, states, trans, False, {})

    # 1. design level: the intended design satisfies the clauses on all bounded sequences; each
    #    deviation of the code as written and each seeded deviation violates the named clause
    jobs = [(c, None, 4) for c in fam.MC_INTENDED[tier]] + [(c, e, 2) for c, e in fam.MC_CODE + fam.MC_MUT]
    for r in fam.mc_many(scr, jobs, par=4):
        tlc_runs.append(r)
        states += r["distinct"]
        trans += r["states"]
    # 2. behaviours (both kinds)
    scenarios, exhaustive = [], True
    for cfg, qc, qd in PLAN[tier]["beh"]:
        for kind, quota in (("composite", qc), ("decorator", qd)):
            r, scs = fam.behaviours(scr, cfg, kind)
            tlc_runs.append(r)
            states += r["distinct"]
            trans += r["states"]
            tag = cfg.replace(".cfg", "").replace("Beh_Lifecycle_", "life-") + "-" + kind[0]
            for i, s in enumerate(scs):
                s["id"] = "%s-%06d" % (tag, i)
            if quota and len(scs) > quota:
                exhaustive = False
                core = [s for s in scs if fam.is_core(s)]
                random.Random(vlib.seed() * 7919 + len(scs)).shuffle(core)
                pin = fam.pins(scs)
                scs = vlib.sample(scs, quota, rng, core=pin + [s for s in core[:quota // 4] if s not in pin])
            scenarios += scs
    # 3. replay on the real code
    t0 = time.time()
    traces, crashes = fam.run_shards(scr, scenarios, "C20")
    extra = {"replay_wall_s": round(time.time() - t0, 1)}
    return _finish(scr, scenarios, traces, crashes, tlc_runs, states, trans, exhaustive, extra)
