"""C12 -- failures are retried, benign races tolerated, one bad child blocks nothing."""
from props import sync_level, all_families, COMPOSITE, DECORATOR
import fam_faults

PLAN = {
    "pkgs": {"composite": COMPOSITE, "decorator": DECORATOR},
    "mc": {"quick": [], "thorough": []},
    "beh": {
        "quick": [("MC_Faults", "Beh_Faults_q.cfg", fam_faults.convert, 0)],
        "thorough": [("MC_Faults", "Beh_Faults_q.cfg", fam_faults.convert, 0), ("MC_Faults", "Beh_Faults_t.cfg", fam_faults.convert, 4000)],
    },
    "drift": fam_faults.drift,
    "drift_fam": "faults",
}

MANIFEST = dict(
    text="spec/Faults.tla enumerates, for a sync that makes every kind of request (finalizer add, live recheck, adoption, release, "
         "delete, create, update, status read/write) on composite (InPlace, Recreate) and decorator controllers, every request x "
         "every error kind (404, 409, 410, 422, 500, timeout) and every hook failure (5xx, 429, refused, 404), singly and in pairs, "
         "and carries the error-handling table of the code, checked by TLC against the statement's benign-race rule; each case is "
         "replayed through the real processNextWorkItem with a recording work queue, followed by fault-free syncs; TLC validates the "
         "trace against spec/TraceSync.tla (C12_ErrorRequeues, C12_429After, C12_OthersProceed, C12_NoPanic, C12_Recovers)."
         ' Bases: in-place, recreate, rolling (ControllerRevision writes, per-revision hook calls), finalizing (draining and finalizer removal), customize (fault on the customize call, sync answer depending on the related map), decorator.',
    ref="DESIGN.md §8 C12",
    tech="TLA+ fault table + TLC enumeration of fault positions replayed on real code + TLC trace validation",
    cat="model_checking")


def run(scr, tier, replay_file):
    return sync_level(scr, tier, "C12", "C12_", all_families(PLAN), replay_file)
