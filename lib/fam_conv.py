"""Family "conv": initial cluster contents x configuration x hook programme enumerated by
spec/Conv.tla.  This module only concretises what TLC printed."""

SCOPE = {
    "NsNs": dict(parentRes="parents", parentKind="Parent", childRes="things", childKind="Thing", pns="ns1", cns="ns1", top="spec"),
    "ClNs": dict(parentRes="cparents", parentKind="CParent", childRes="things", childKind="Thing", pns="", cns="ns1", top="spec"),
    "ClCl": dict(parentRes="cparents", parentKind="CParent", childRes="cthings", childKind="CThing", pns="", cns="", top="spec"),
    "NsCm": dict(parentRes="parents", parentKind="Parent", childRes="configmaps", childKind="ConfigMap", pns="ns1", cns="ns1", top="data"),
}
MARKER = "metacontroller.k8s.io/decorator-controller"


def convert(raw, sid):
    sc = SCOPE[raw["scope"]]
    kind = raw["kind"]
    gensel = bool(raw["gensel"])
    names = list(raw["order"])
    puid = "p1"
    # cluster-scoped parent with namespaced children: the first two slots are the SAME name in two namespaces
    # (programmes that address children by name alone keep distinct names)
    twin = raw["scope"] == "ClNs" and raw["prog"] in ("none", "first", "all", "badlabel", "ownedref") and len(names) >= 2

    # variant: the hook hands a status back inside every desired child (as hooks that echo what they read tend to do)
    import re as _re
    _m = _re.search(r"-(\d+)", sid)
    withstatus = raw["prog"] in ("all", "first") and _m is not None and int(_m.group(1)) % 3 == 0

    def loc(n):
        if twin and n == names[1]:
            return "ns2", names[0]
        return sc["cns"], n
    match_labels = {"controller-uid": puid} if gensel else {"app": "x"}
    hook_labels = {} if gensel else {"app": "x"}          # with generateSelector the controller injects the label
    la_labels = dict(match_labels) if kind == "composite" else {}
    parent = {"res": sc["parentRes"], "name": "p", "uid": puid}
    if kind == "composite":
        parent["spec"] = {"selector": {"matchLabels": {"app": "x"}}}
    else:
        parent["labels"] = {"deco": "yes"}
        parent["spec"] = {"x": "1"}
    objs = [parent]
    owner = {"uid": puid, "kind": sc["parentKind"], "name": "p", "ctrl": True}
    foreign = {"uid": "f9", "kind": "Other", "name": "other", "av": "other.example/v1", "ctrl": True}

    def content(val, extra=None):
        d = {"f1": val}
        if extra == "foreign":
            d["f9"] = "foreign"
        return d

    def child(name, s, ns=None):
        slot = name
        if ns is None and twin:
            ns, name = loc(name)
        o = {"res": sc["childRes"], "name": name, "uid": "c-" + slot + ("-" + ns if ns else "")}
        if ns:
            o["ns"] = ns
        labels = dict(match_labels) if s["match"] else {"misc": "z"}
        if kind == "decorator":
            labels = dict(hook_labels)         # no selector semantics for attachments
        o["labels"] = labels
        if s["ctrl"] == "P":
            o["owners"] = [owner]
        elif s["ctrl"] == "F":
            o["owners"] = [foreign]
        val = "v1" if s["eq"] else "old"
        if s["extra"] == "drift":
            val = "drifted"          # edited by somebody else after our last apply (the record below says v1)
        body = content(val, s["extra"])
        if sc["top"] == "spec":
            o["spec"] = body
        else:
            o["top"] = {"data": body}
        if s["extra"] == "status" and sc["childRes"] != "configmaps":
            o["status"] = {"ready": "yes"}
        ann = {}
        if kind == "decorator" and s["ctrl"] in ("P", "F"):
            ann[MARKER] = "dc" if s["marker"] else "other-dc"
        if ann:
            o["ann"] = ann
        if s["la"]:
            o["la"] = {"f1": "v1" if s["extra"] == "drift" else val}
            o["laLabels"] = la_labels if kind == "composite" else dict(hook_labels)
            if sc["top"] == "data":
                o["laTop"] = "data"
            if kind == "decorator":
                o["laAnn"] = {MARKER: "dc"}
        if s["del"]:
            o["deleting"] = True
            o["fins"] = ["verif/hold"]
        return o

    for n in names:
        s = raw["slots"][n]
        if s["live"]:
            objs.append(child(n, s))
    if raw.get("lookalike"):
        objs.append(child(names[0], {"live": True, "ctrl": "P", "match": True, "eq": False, "la": True, "del": False,
                                     "marker": True, "extra": "none"}, ns="ns2"))

    def desired(name):
        d = {"res": sc["childRes"], "name": loc(name)[1], "labels": hook_labels}
        if raw["scope"] == "ClNs":
            d["ns"] = loc(name)[0]     # a cluster-scoped parent must say where its namespaced children live
        if sc["top"] == "spec":
            d["spec"] = {"f1": "v1"}
            if withstatus:
                d["status"] = {"ready": "yes"}      # the status the "status" archetype carries: not part of the desired state
        else:
            d["top"] = {"data": {"f1": "v1"}}
        return d

    prog = raw["prog"]
    if prog == "none":
        hp = {"prog": "const", "children": []}
    elif prog == "first":
        hp = {"prog": "const", "children": [desired(names[0])]}
    elif prog == "badlabel":
        bad = desired(names[0])
        bad["labels"] = {"controller-uid": "someone-else"} if (gensel and kind == "composite") else {"app": "wrong"}
        hp = {"prog": "const", "children": [bad]}
    elif prog == "all":
        hp = {"prog": "const", "children": [desired(n) for n in names]}
    elif prog == "echo":
        hp = {"prog": "echo", "clean": True, "children": [desired(n) for n in names]}
    elif prog == "echoraw":
        hp = {"prog": "echo", "children": [desired(n) for n in names]}
    elif prog == "ownedref":
        d = desired(names[0])
        d["owners"] = [{"uid": puid, "kind": sc["parentKind"], "name": "p", "ctrl": False}]
        hp = {"prog": "const", "children": [d]}
    else:
        hp = {"prog": "ordinal", "children": [desired(n) for n in names]}
    if kind == "composite":
        hp["status"] = {"ok": "1"}
    method = raw["method"]
    cfg = {"kind": kind, "parentRes": sc["parentRes"], "children": [{"res": sc["childRes"], "method": method}], "genSel": gensel}
    if method == "SSA":
        # server-side apply ignores the update strategy
        cfg["children"][0]["method"] = "-"
        cfg["apply"] = "ssa"
    if kind == "decorator":
        cfg["dselLabels"] = {"matchLabels": {"deco": "yes"}}
        key = "verif.example/v1:%s:%s:p" % (sc["parentKind"], sc["pns"])
    else:
        key = ("%s/p" % sc["pns"]) if sc["pns"] else "p"
    nsync = int(raw["syncs"]) + 2
    if prog in ("echo", "echoraw") or withstatus:
        nsync += 2      # one more write re-records the last-applied annotation in the echoed form (Recreate: a delete, then a create)
    sched = []
    for i_sync in range(nsync):
        sched += [{"s": "sync", "a": "A", "key": key}, {"s": "run", "a": "A"}, {"s": "deliver"}]
        if withstatus and i_sync == 2 and raw["pre"] and sc["childRes"] != "configmaps":
            # the children's own controller reports exactly the status the hook keeps handing back
            for n in sorted(raw["fix"]):
                st = {"s": "env", "op": "setstatus", "res": sc["childRes"], "name": loc(n)[1], "path": ["ready"], "value": "yes"}
                if loc(n)[0]:
                    st["ns"] = loc(n)[0]
                sched.append(st)
            sched.append({"s": "deliver"})
    expect = {"model": {"syncs": raw["syncs"], "pre": raw["pre"]}}
    if raw["pre"]:
        fixf = {("spec.f1" if sc["top"] == "spec" else "data.f1"): "s:v1"}
        expect.update({
            "fix": [{"kind": sc["childKind"], "ns": loc(n)[0], "name": loc(n)[1], "fields": fixf, "labels": dict(match_labels) if kind == "composite" else dict(hook_labels)}
                    for n in sorted(raw["fix"])],
            "parentUid": puid, "parentNs": sc["pns"], "marker": "dc" if kind == "decorator" else "",
            # an echoing hook wants observed children as they are: no content is prescribed
            "updatable": method in ("Recreate", "InPlace", "SSA") and prog not in ("echo", "echoraw"),
        })
        if kind == "composite":
            expect["sel"] = {"ml": dict(match_labels), "me": []}
        if prog in ("echo", "echoraw"):
            expect["echo"] = True
    return {"id": sid, "fam": "conv", "cfg": cfg, "objs": objs, "hook": {"sync": hp}, "sched": sched, "expect": expect}
