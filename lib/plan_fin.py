"""Plan of the finalizer life-cycle family (spec/Fin.tla)."""
import fam_fin
from props import COMPOSITE, DECORATOR

FIN_PLAN = {
    "pkgs": {"composite": COMPOSITE, "decorator": DECORATOR},
    "mc": {
        "quick": [("MC_Fin", "MC_Fin_q.cfg", None)],
        "thorough": [("MC_Fin", "MC_Fin_q.cfg", None), ("MC_Fin", "MC_Fin_t.cfg", None)],
    },
    "beh": {
        "quick": [("MC_Fin", "Beh_Fin_t.cfg", fam_fin.convert, 800)],
        "thorough": [("MC_Fin", "Beh_Fin_t6.cfg", fam_fin.convert, 0)],
    },
}
