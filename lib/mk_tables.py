#!/usr/bin/env python3
"""Fills the @@SEEDTABLE@@ block of DESIGN.md from seeded/*/meta.json and mutants/RESULTS.tsv."""
import glob, json, os, re
V = os.path.dirname(os.path.dirname(os.path.abspath(__file__)))
rows = []
for d in sorted(glob.glob(os.path.join(V, "seeded", "*"))):
    if not os.path.isdir(d):
        continue
    m = json.load(open(os.path.join(d, "meta.json")))
    oc = m.get("our_checks", {})
    caught = next((t for t in ("quick", "thorough") if oc.get(t, {}).get("exit") == 1), None)
    mons = ", ".join(oc.get(caught, {}).get("monitors", [])) if caught else "-"
    rows.append("| `seeded/%s` | %s | %s | %s | %s |" % (os.path.basename(d), m.get("title", "")[:110].replace("|", "/"),
                m.get("needs_to_manifest", "")[:140].replace("|", "/").replace("\n", " "), caught or "**missed**", mons))
out = ["**Independently seeded changes** (%d; caught: %d)" % (len(rows), sum("missed" not in r for r in rows)), "",
       "| id | change | needs to manifest | caught by tier | monitors |", "|---|---|---|---|---|"] + rows
mt = os.path.join(V, "mutants", "RESULTS.tsv")
if os.path.exists(mt):
    mr = [l.rstrip("\n").split("\t") for l in open(mt) if l.strip()]
    out += ["", "**Own mutants** (%d; caught in the quick tier: %d)" % (len(mr), sum(1 for r in mr if r[2] != "-")), "",
            "| mutant | property | monitors that fired (quick) |", "|---|---|---|"]
    out += ["| `%s` | %s | %s |" % (r[0], r[1], r[2] if r[2] != "-" else "**none** (%s)" % r[3][:60]) for r in mr]
p = os.path.join(V, "DESIGN.md")
s = open(p).read()
block = "<!-- SEEDTABLE -->\n" + "\n".join(out) + "\n<!-- /SEEDTABLE -->"
if "@@SEEDTABLE@@" in s:
    s = s.replace("@@SEEDTABLE@@", block)
else:
    s = re.sub(r"<!-- SEEDTABLE -->.*?<!-- /SEEDTABLE -->", lambda m: block, s, flags=re.S)
open(p, "w").write(s)
