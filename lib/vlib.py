#!/usr/bin/env python3
"""Orchestration helpers shared by every check (standard library only).

Exit-code policy (DESIGN.md §7):
  0  property held on everything explored (possibly with KNOWN-FINDING lines)
  1  a recorded execution of the REAL code violates a property monitor -> VIOLATION line
  2  inconclusive / broken machinery (build failure, TLC error, simulator disagreeing
     with the environment axioms, dead driver, timeout) -- never a VIOLATION line
"""
import concurrent.futures as cf
import json, os, random, re, shutil, subprocess, sys, tempfile, time

VERIF = os.path.dirname(os.path.dirname(os.path.abspath(__file__)))
# evidence of runs against a MODIFIED copy of the repository (bin/mutant, bin/seedcheck set VERIF_EVIDENCE to a scratch
# directory) must not overwrite the evidence of the tree the checks are registered for
EVIDENCE_DIR = os.environ.get("VERIF_EVIDENCE") or os.path.join(VERIF, "evidence")
REPO = os.environ.get("VERIF_REPO", "/repo")
SPEC = os.path.join(VERIF, "spec")
NCPU = max(2, min(16, os.cpu_count() or 4))

GOENV = dict(os.environ, GOFLAGS="-mod=mod", GOPROXY="off", GOSUMDB="off", GOTOOLCHAIN="local")

sys.path.insert(0, os.path.join(VERIF, "lib"))
import mkoverlay  # noqa: E402


class Inconclusive(Exception):
    pass


class Scratch:
    """Per-run scratch directory (removed on exit unless VERIF_KEEP is set)."""

    def __init__(self, tag):
        base = os.environ.get("VERIF_SCRATCH") or tempfile.gettempdir()
        self.dir = tempfile.mkdtemp(prefix="verif-%s-" % tag, dir=base)
        self.spec = os.path.join(self.dir, "spec")
        shutil.copytree(SPEC, self.spec)
        self.jtmp = os.path.join(self.dir, "jtmp")
        os.makedirs(self.jtmp)

    def path(self, *p):
        return os.path.join(self.dir, *p)

    def cleanup(self):
        if not os.environ.get("VERIF_KEEP"):
            shutil.rmtree(self.dir, ignore_errors=True)


# --------------------------------------------------------------------------------------
# TLC

TLC_JAR = "/opt/veriftools/tla/tla2tools.jar"


def tlc(scr, module, cfg, workers=4, timeout=600, env=None, extra=None, heap=None):
    """Run TLC on spec/<module>.tla with spec/<cfg>.  Returns dict with out, rc, states,
    distinct, violated (invariant names), error (bool), lines (stdout lines)."""
    metadir = tempfile.mkdtemp(prefix="md-", dir=scr.dir)
    e = dict(os.environ)
    jopts = "-Djava.io.tmpdir=%s" % scr.jtmp
    if heap:
        jopts += " -Xmx%s" % heap
    e["JAVA_TOOL_OPTIONS"] = (e.get("JAVA_TOOL_OPTIONS", "") + " " + jopts).strip()
    if env:
        e.update(env)
    cmd = ["timeout", str(timeout), "tlc", "-workers", str(workers), "-metadir", metadir,
           "-config", cfg, "-noGenerateSpecTE"] + (extra or []) + [module + ".tla"]
    t0 = time.time()
    p = subprocess.run(cmd, cwd=scr.spec, env=e, stdout=subprocess.PIPE, stderr=subprocess.STDOUT, text=True)
    out = p.stdout
    shutil.rmtree(metadir, ignore_errors=True)
    res = {"out": out, "rc": p.returncode, "wall": time.time() - t0, "states": 0, "distinct": 0,
           "violated": [], "error": False, "timeout": p.returncode == 124}
    m = re.search(r"(\d+) states generated, (\d+) distinct states found", out)
    if m:
        res["states"], res["distinct"] = int(m.group(1)), int(m.group(2))
    res["violated"] = re.findall(r"Invariant (\S+) is violated", out) + re.findall(r"Temporal properties were violated", out)
    if re.search(r"Error: (?!Invariant|The behavior|Temporal)", out) or "TLC threw" in out or "Parsing or semantic analysis failed" in out:
        res["error"] = True
    if "Model checking completed. No error has been found" not in out and not res["violated"] and not res["timeout"]:
        if "states generated" not in out:
            res["error"] = True
    return res


def tagged(out, tag):
    """Yield the payload strings of PrintT("TAG|...") lines."""
    pre = '"%s|' % tag
    for line in out.splitlines():
        if line.startswith(pre) and line.endswith('"'):
            try:
                yield json.loads(line)[len(tag) + 1:]
            except Exception:
                continue


# --------------------------------------------------------------------------------------
# Go side

_built = {}


def build_test_binary(scr, pkg, race=False):
    """Compile the overlay test binary of a /repo package from the CURRENT working tree."""
    key = (pkg, race)
    if key in _built:
        return _built[key]
    ov = scr.path("overlay.json")
    if not os.path.exists(ov):
        mkoverlay.build(ov)
    out = scr.path(pkg.replace("/", "_") + (".race" if race else "") + ".test")
    cmd = ["go", "test", "-c", "-vet=off", "-overlay=" + ov, "-o", out]
    if race:
        cmd.append("-race")
    cmd.append("./" + pkg)
    p = subprocess.run(cmd, cwd=REPO, env=GOENV, stdout=subprocess.PIPE, stderr=subprocess.STDOUT, text=True)
    if p.returncode != 0 or not os.path.exists(out):
        raise Inconclusive("harness does not compile against the current tree (%s):\n%s" % (pkg, p.stdout[-3000:]))
    _built[key] = out
    return out


def run_test_binary(binary, run, env, timeout=1200, cwd=None):
    e = dict(GOENV)
    e.update(env)
    p = subprocess.run(["timeout", str(timeout), binary, "-test.run", run, "-test.count=1", "-test.timeout", "%ds" % timeout],
                       cwd=cwd or os.path.dirname(binary), env=e, stdout=subprocess.PIPE, stderr=subprocess.STDOUT, text=True)
    return p.returncode, p.stdout


def shard(items, n):
    n = max(1, min(n, len(items)))
    return [items[i::n] for i in range(n)]


def replay(scr, pkg, scenarios, tag, run="TestVerifReplay", shards=NCPU, race=False, timeout=1500):
    """Replay scenarios (list of dicts) on the real code; returns list of trace files."""
    binary = build_test_binary(scr, pkg, race)
    parts = shard(scenarios, shards)
    jobs = []
    for i, part in enumerate(parts):
        scn = scr.path("%s-%d.scn.ndjson" % (tag, i))
        trc = scr.path("%s-%d.trace.ndjson" % (tag, i))
        with open(scn, "w") as fh:
            for s in part:
                fh.write(json.dumps(s, separators=(",", ":")) + "\n")
        jobs.append((scn, trc))
    traces = []

    def one(job):
        """Runs one shard.  A panic on a goroutine spawned by the code under test kills the whole
        test process (exactly what C13 is about): the crashed scenario is identified from the
        partially written trace, a synthetic Panic event is appended for it, and the remaining
        scenarios of the shard are run in a fresh process."""
        scn, trc = job
        todo = [json.loads(l) for l in open(scn)]
        out_files = []
        rnd = 0
        while todo:
            rnd += 1
            scn_r, trc_r = "%s.r%d" % (scn, rnd), "%s.r%d" % (trc, rnd)
            with open(scn_r, "w") as fh:
                for sc in todo:
                    fh.write(json.dumps(sc, separators=(",", ":")) + "\n")
            rc, out = run_test_binary(binary, run, {"VERIF_SCN": scn_r, "VERIF_TRACE": trc_r}, timeout=timeout)
            if rc == 0:
                out_files.append(trc_r)
                break
            if ("panic:" in out or "fatal error:" in out) and "MACHINERY" not in out and os.path.exists(trc_r):
                lines = [l for l in open(trc_r) if l.strip()]
                good = []
                for l in lines:
                    try:
                        good.append(json.loads(l))
                    except Exception:
                        break
                if not good:
                    return rc, out, []
                crashed = good[-1]["sc"]
                ids = [sc["id"] for sc in todo]
                if crashed not in ids:
                    return rc, out, []
                msg = out[out.find("panic:"):][:600] if "panic:" in out else out[out.find("fatal error:"):][:600]
                with open(trc_r, "w") as fh:
                    for ev in good:
                        fh.write(json.dumps(ev, separators=(",", ":")) + "\n")
                    fh.write(json.dumps({"ev": "Panic", "sc": crashed, "i": good[-1]["i"] + 1, "msg": msg, "process": True}) + "\n")
                out_files.append(trc_r)
                todo = todo[ids.index(crashed) + 1:]
                continue
            return rc, out, []
        return 0, "", out_files

    with cf.ThreadPoolExecutor(max_workers=shards) as ex:
        for rc, out, files in ex.map(one, jobs):
            if rc != 0:
                raise Inconclusive("replay driver failed (rc=%d):\n%s" % (rc, out[-3000:]))
            traces += files
    return traces


def read_trace(path):
    with open(path) as fh:
        for line in fh:
            line = line.strip()
            if line:
                yield json.loads(line)


# --------------------------------------------------------------------------------------
# trace validation


VACUITY = {}      # antecedent counters of the last validate_traces calls (anti-vacuity evidence)


def validate_traces(scr, traces, module="TraceSync", cfg="TraceSync.cfg", invariants=None, timeout=1500):
    """Validate each trace file with TLC (one JVM per file, in parallel).  Returns
    (monitor_hits, broken, states, transitions).  monitor hit = dict(prop,name,sc,i,facts)."""
    if invariants is not None:
        src = open(os.path.join(scr.spec, cfg)).read()
        lines = [ln for ln in src.splitlines() if not ln.startswith("INVARIANT")]
        lines += ["INVARIANT " + i for i in invariants]
        cfg = "gen_" + cfg
        with open(os.path.join(scr.spec, cfg), "w") as fh:
            fh.write("\n".join(lines) + "\n")
    hits, broken = [], []
    states = trans = 0

    def one(trc):
        return trc, tlc(scr, module, cfg, workers=1, timeout=timeout, env={"VERIF_TRACE": trc}, heap="3g")

    with cf.ThreadPoolExecutor(max_workers=min(NCPU, 8)) as ex:
        for trc, r in ex.map(one, traces):
            if r["timeout"]:
                raise Inconclusive("trace validation timed out on %s" % trc)
            n = sum(1 for _ in open(trc))
            if r["error"] or r["violated"] or "No error has been found" not in r["out"]:
                raise Inconclusive("trace validation failed on %s (trace spec rejected the trace or TLC error):\n%s"
                                   % (trc, r["out"][-3000:]))
            if r["distinct"] != n + 1:
                raise Inconclusive("trace %s not fully consumed: %d states for %d lines" % (trc, r["distinct"], n))
            states += r["distinct"]
            trans += r["states"]
            for pl in tagged(r["out"], "MONITOR"):
                prop, name, sig, sc, i, facts = pl.split("|", 5)
                hits.append({"prop": prop, "name": name, "sig": sig, "sc": sc, "i": int(i), "facts": facts, "trace": trc})
            for pl in tagged(r["out"], "BROKEN"):
                broken.append(pl)
            for pl in tagged(r["out"], "VACUITY"):
                try:
                    for name, n in json.loads(pl):
                        VACUITY[name] = VACUITY.get(name, 0) + int(n)
                except Exception:
                    pass
    if broken:
        raise Inconclusive("simulator/trace disagrees with the environment axioms: %s" % broken[:5])
    return hits, states, trans


# --------------------------------------------------------------------------------------
# known findings, verdicts, evidence


def load_known():
    known, fixed = [], []
    path = os.path.join(VERIF, "known_findings.txt")
    if os.path.exists(path):
        for line in open(path):
            line = line.strip()
            if not line or line.startswith("#"):
                continue
            m = re.match(r"known: property=(\S+) sig=(\S+) (.*)", line)
            if m:
                known.append({"prop": m.group(1), "sig": m.group(2), "what": m.group(3)})
                continue
            m = re.match(r"fixed: property=(\S+) (\S+) (.*)", line)
            if m:
                fixed.append({"prop": m.group(1), "commit": m.group(2), "what": m.group(3)})
    return known, fixed


def seed():
    try:
        return int(os.environ.get("VERIF_SEED", "1"))
    except ValueError:
        return 1


def stratum(sc):
    """configuration stratum of a scenario: controller configuration x shape of the hook programmes"""
    try:
        hooks = {h: [p.get("prog"), sorted(k for k in p if k not in ("children", "related", "body", "status")),
                     p.get("finalized"), bool(p.get("children")), p.get("code")]
                 for h, p in (sc.get("hook") or {}).items() if isinstance(p, dict)}
        # the KINDS of steps of the schedule (which environment operations, faults, crashes occur at all)
        steps = sorted({"%s:%s" % (st.get("s"), st.get("op") or st.get("code") or "") for st in (sc.get("sched") or []) if isinstance(st, dict)})
        return json.dumps([sc.get("cfg"), hooks, steps], sort_keys=True, default=str)
    except Exception:
        return ""


def sample(items, k, rng, core=()):
    """core items always, plus a seed-chosen slice up to k in total, STRATIFIED: the slice is taken round-robin over the
    configuration strata (seed-shuffled within and across strata), so that rare configurations (say: cluster-scoped
    parent x server-side apply) are represented in every run instead of once in a while."""
    if len(items) <= k:
        return list(items)
    core = list(core)
    core_ids = {id(x) for x in core}          # (identity, not equality: the lists are long)
    rest = [x for x in items if id(x) not in core_ids]
    rng.shuffle(rest)
    groups = {}
    for x in rest:
        groups.setdefault(stratum(x) if isinstance(x, dict) else "", []).append(x)
    keys = sorted(groups)
    rng.shuffle(keys)
    out, need = [], max(0, k - len(core))
    while len(out) < need and keys:
        nxt = []
        for key in keys:
            g = groups[key]
            if g and len(out) < need:
                out.append(g.pop())
            if g:
                nxt.append(key)
        keys = nxt
    return core + out


def write_evidence(prop, tier, level, coverage, wall, violations, assumptions):
    os.makedirs(EVIDENCE_DIR, exist_ok=True)
    ev = {"property_id": prop, "tier": tier, "seed": seed(), "level": level, "coverage": coverage,
          "assumptions": assumptions, "wall_s": round(wall, 2), "violations": violations}
    path = os.path.join(EVIDENCE_DIR, prop + ".json")
    tmp = path + ".tmp"
    with open(tmp, "w") as fh:
        json.dump(ev, fh, indent=1, sort_keys=True)
    os.replace(tmp, path)
    return path


def save_replay(prop, name, payload):
    d = os.path.join(EVIDENCE_DIR, "replays")
    os.makedirs(d, exist_ok=True)
    path = os.path.join(d, "%s-%s.json" % (prop, re.sub(r"[^A-Za-z0-9_.-]", "_", name)[:80]))
    with open(path, "w") as fh:
        json.dump(payload, fh, indent=1)
    return path


ENV_ASSUMPTIONS = [
    "E1 optimistic concurrency: stale resourceVersion or wrong uid -> 409; create of existing name -> 409",
    "E2 delete honours preconditions.uid and propagationPolicy; finalizers keep a deleted object until removed",
    "E3 at most one controller ownerReference (else 422)",
    "E4 status subresource: PUT /status changes status only; main PUT ignores status",
    "E5 uid/name immutable; every effective write gets a larger resourceVersion; no-op writes do not",
    "E6 JSON-patch remove of a missing path -> 422; server-side apply creates when absent, force takes ownership",
    "E7 garbage collection is an explicit environment step",
    "E8 watch events are delivered in order, arbitrarily late (held until a Deliver step)",
    "the simulated API server (harness/verifsim) stands in for kube-apiserver; every trace re-checks its conformance to E1-E5",
]
