"""Per-property check definitions (which TLA+ models, which scenario generators, which
trace monitors decide each property) and the common verdict logic."""
import json, os, random, sys

import vlib

COMPOSITE = "pkg/controller/composite"
DECORATOR = "pkg/controller/decorator"


# --------------------------------------------------------------------------------------
# common machinery for sync-level properties


def mc_run(scr, module, cfg, workers=8, timeout=900, expect_violation=None):
    """Design-level exhaustive check.  The model does not depend on /repo, so a failure here
    is a defect of the specification (inconclusive), never a verdict about the code."""
    r = vlib.tlc(scr, module, cfg, workers=workers, timeout=timeout)
    if r["timeout"] or r["error"]:
        raise vlib.Inconclusive("TLC failed on %s/%s:\n%s" % (module, cfg, r["out"][-2000:]))
    if expect_violation:
        if expect_violation not in r["violated"]:
            raise vlib.Inconclusive("anti-vacuity config %s: expected %s to be violated, it was not" % (cfg, expect_violation))
    elif r["violated"]:
        raise vlib.Inconclusive("model %s/%s violates %s (specification defect)" % (module, cfg, r["violated"]))
    return r


_beh_cache = {}


def beh_run(scr, module, cfg, timeout=900):
    if (scr.dir, module, cfg) in _beh_cache:
        return _beh_cache[(scr.dir, module, cfg)]
    r = vlib.tlc(scr, module, cfg, workers=8, timeout=timeout, heap="6g")
    if r["timeout"] or r["error"] or r["violated"]:
        raise vlib.Inconclusive("TLC behaviour enumeration failed on %s/%s:\n%s" % (module, cfg, r["out"][-2000:]))
    raws = [json.loads(p) for p in vlib.tagged(r["out"], "SCN")]
    if not raws:
        raise vlib.Inconclusive("behaviour enumeration %s produced no scenario" % cfg)
    raws.sort(key=lambda x: json.dumps(x, sort_keys=True))      # worker scheduling must not change scenario numbering
    _beh_cache[(scr.dir, module, cfg)] = (r, raws)
    return r, raws


def events_of(traces):
    for t in traces:
        for ev in vlib.read_trace(t):
            yield ev


def nontrivial_scenarios(traces):
    """distinct scenarios whose trace has at least one accepted controller write"""
    nt = set()
    total = set()
    for ev in events_of(traces):
        total.add(ev.get("sc"))
        if ev.get("ev") == "Req" and ev.get("verb") != "get" and 200 <= ev.get("code", 0) < 300:
            nt.add(ev.get("sc"))
    return len(total), len(nt)


def trace_of(traces, sc_id):
    out = []
    for ev in events_of(traces):
        if ev.get("sc") == sc_id:
            out.append(ev)
    return out


def conclude(prop, tier, res, wall):
    known, fixed = vlib.load_known()
    sweep = bool(os.environ.get("VERIF_SWEEP"))
    if not sweep:
        known = [k for k in known if k["prop"] == prop]
    hits = res.get("hits", [])
    unlisted, listed = [], {}
    for h in hits:
        k = next((k for k in known if k["sig"] == h.get("sig")), None)
        if k is not None:
            listed.setdefault(k["sig"], []).append(h)
        else:
            unlisted.append(h)
    for k in known:
        if k["sig"] in listed:
            print("KNOWN-FINDING: property=%s %s" % (prop, k["what"]))
        else:
            print("NOTE: known finding %s of %s was not reproduced by this run's pinned witness (repaired, or tier did not reach it)" % (k["sig"], prop))
    if sweep:
        # debugging aid (bin/sweep): histogram of every unlisted hit of every monitor, by scenario family
        import collections, re as _re
        hist, ex = collections.Counter(), {}
        for h in unlisted:
            k = (h["name"], h.get("sig", ""), _re.sub(r"-[0-9]+.*$", "", h["sc"]))
            hist[k] += 1
            ex.setdefault(k, h["sc"])
        for k, n in sorted(hist.items()):
            print("SWEEP %s %s %s n=%d e.g. %s" % (k[0], k[1], k[2], n, ex[k]))
    seen = set()
    nviol = 0
    for h in unlisted:
        key = (h["name"], h["sc"])
        if key in seen:
            continue
        seen.add(key)
        nviol += 1
        if nviol > 20:
            continue
        payload = {"property": prop, "monitor": h["name"], "scenario": res.get("scenarios", {}).get(h["sc"]),
                   "line": h.get("i"), "facts": h.get("facts"), "trace": res.get("trace_getter", lambda s: [])(h["sc"])}
        path = vlib.save_replay(prop, "%s-%s" % (h["name"], h["sc"]), payload)
        print("VIOLATION property=%s replay=%s monitor=%s scenario=%s facts=%s" % (prop, path, h["name"], h["sc"], str(h.get("facts"))[:300]))
    cov = {
        "states": res.get("states", 0), "transitions": res.get("transitions", 0),
        "traces_validated_against_impl": res.get("traces", 0),
        "samples": res.get("samples", [])[:5] or ["(none)"],
        "evaluations": res.get("evaluations", res.get("traces", 0)),
        "distinct_nontrivial": res.get("distinct_nontrivial", 0),
        "rule": res.get("rule", ""),
        "exhaustive": bool(res.get("exhaustive", False)),
        "drift_traces": res.get("drift", 0),
        "monitor_hits": len(hits), "known_finding_hits": sum(len(v) for v in listed.values()),
        "other_property_hits": res.get("other_hits", {}),
        "tlc_runs": res.get("tlc_runs", []),
    }
    cov.update(res.get("extra", {}))
    vlib.write_evidence(prop, tier, res.get("level", "model_checking"), cov, wall, nviol,
                        res.get("assumptions", vlib.ENV_ASSUMPTIONS))
    print("SUMMARY property=%s tier=%s scenarios=%d states=%d monitor_hits=%d violations=%d known=%d drift=%d wall=%.1fs" % (
        prop, tier, res.get("traces", 0), res.get("states", 0), len(hits), nviol, sum(len(v) for v in listed.values()), res.get("drift", 0), wall))
    return 1 if nviol else 0


def all_families(plan, own=()):
    """Monitors are evaluated on every trace, and a change that breaks property P often needs the world of another
    family to manifest (a fault, a stale cache, a finalize hook, a rollout ...): every sync-level check therefore
    also replays a seed-chosen slice of every other family."""
    import fam_own, fam_conv, fam_fin, fam_faults, fam_dec, fam_status, fam_roll, fam_rollfin, fam_requeue, fam_multikind
    extra = {
        "quick": [("MC_Own", "Beh_Own_q.cfg", fam_own.convert, 250), ("MC_Conv", "Beh_Conv_t.cfg", fam_conv.convert, 300),
                  ("MC_Fin", "Beh_Fin_t.cfg", fam_fin.convert, 200), ("MC_Faults", "Beh_Faults_q.cfg", fam_faults.convert, 0),
                  ("MC_Dec", "Beh_Dec_q.cfg", fam_dec.convert, 150), ("MC_Status", "Beh_Status_q.cfg", fam_status.convert, 100),
                  ("MC_Rolling", "Beh_Rolling_q.cfg", fam_roll.convert, 120), ("RollFin", "Beh_RollFin.cfg", fam_rollfin.convert, 0),
                  ("MC_Requeue", "Beh_Requeue.cfg", fam_requeue.convert, 60), ("MC_MultiKind", "Beh_MultiKind.cfg", fam_multikind.convert, 60)],
        "thorough": [("MC_Own", "Beh_Own_t.cfg", fam_own.convert, 3000), ("MC_Conv", "Beh_Conv_t.cfg", fam_conv.convert, 3000),
                     ("MC_Fin", "Beh_Fin_t6.cfg", fam_fin.convert, 2000), ("MC_Faults", "Beh_Faults_q.cfg", fam_faults.convert, 0),
                     ("MC_Dec", "Beh_Dec_t.cfg", fam_dec.convert, 2000), ("MC_Status", "Beh_Status_t.cfg", fam_status.convert, 1000),
                     ("MC_Rolling", "Beh_Rolling_q.cfg", fam_roll.convert, 300), ("RollFin", "Beh_RollFin.cfg", fam_rollfin.convert, 0),
                     ("MC_Requeue", "Beh_Requeue.cfg", fam_requeue.convert, 0), ("MC_MultiKind", "Beh_MultiKind.cfg", fam_multikind.convert, 0)],
    }
    out = dict(plan)
    out["pkgs"] = {"composite": COMPOSITE, "decorator": DECORATOR}
    out.pop("pkg", None)
    out["beh"] = {}
    for tier in ("quick", "thorough"):
        have = {(m, c) for m, c, _, _ in plan["beh"][tier]}
        out["beh"][tier] = list(plan["beh"][tier]) + [e for e in extra[tier] if (e[0], e[1]) not in have]
    return out


def sync_level(scr, tier, prop, prefix, plan, replay_file=None):
    """plan: dict(mc=[(module,cfg,expect_violation)], beh=[(module,cfg,converter,quota)],
    pkg=..., core=predicate(scenario) -> bool for scenarios always kept)."""
    rng = random.Random(vlib.seed())
    prefix = os.environ.get("VERIF_PREFIX", prefix)      # debugging aid: look at another property's monitors
    tlc_runs = []
    states = trans = 0
    scenarios = []
    exhaustive = True
    if replay_file:
        payload = json.load(open(replay_file))
        scenarios = [payload["scenario"]]
    else:
        for module, cfg, expect in plan["mc"][tier]:
            r = mc_run(scr, module, cfg, expect_violation=expect)
            tlc_runs.append({"cfg": cfg, "states": r["states"], "distinct": r["distinct"], "wall_s": round(r["wall"], 1),
                             "expect_violation": expect})
            states += r["distinct"]
            trans += r["states"]
        for module, cfg, conv, quota in plan["beh"][tier]:
            r, raws = beh_run(scr, module, cfg)
            tlc_runs.append({"cfg": cfg, "states": r["states"], "distinct": r["distinct"], "behaviours": len(raws), "wall_s": round(r["wall"], 1)})
            states += r["distinct"]
            trans += r["states"]
            scs = [conv(raw, "%s-%05d" % (cfg.replace(".cfg", ""), i)) for i, raw in enumerate(raws)]
            scs = [s for s in scs if s is not None]      # a converter may keep only its own slice of a shared family
            core = [s for s in scs if plan.get("core", lambda s: False)(s)]
            if quota and len(scs) > quota:
                exhaustive = False
                core = core[:max(1, quota // 4)]
                scs = vlib.sample(scs, quota, rng, core=core)
            scenarios += scs
    import time as _t
    t_replay = _t.time()
    if "pkgs" in plan:
        traces = []
        for kind, pkg in plan["pkgs"].items():
            part = [s for s in scenarios if s["cfg"].get("kind", "composite") == kind]
            if part:
                traces += vlib.replay(scr, pkg, part, prop + "-" + kind)
    else:
        traces = vlib.replay(scr, plan["pkg"], scenarios, prop)
    t_replay = _t.time() - t_replay
    t_val = _t.time()
    hits, st, tr = vlib.validate_traces(scr, traces)
    t_val = _t.time() - t_val
    states += st
    trans += tr
    prefixes = tuple(prefix.split(","))
    mine = [h for h in hits if h["name"].startswith(prefixes)]
    others = {}
    for h in hits:
        if not h["name"].startswith(prefixes):
            others[h["name"]] = others.get(h["name"], 0) + 1
    total, nt = nontrivial_scenarios(traces)
    evs = list(events_of(traces))
    ndrift, drift_ex = plan["drift"]([s for s in scenarios if s.get("fam") == plan.get("drift_fam", s.get("fam"))], evs) if plan.get("drift") else (0, [])
    # families mixed into every check bring their own model-vs-code comparison
    import fam_multikind, fam_requeue
    for famname, fn in (("multikind", fam_multikind.drift), ("requeue", fam_requeue.drift)):
        if plan.get("drift") is fn:
            continue
        part = [s for s in scenarios if s.get("fam") == famname]
        if part:
            n2, ex2 = fn(part, evs)
            ndrift += n2
            drift_ex = list(drift_ex) + list(ex2)
    by_id = {s["id"]: s for s in scenarios}
    all_events = evs

    def getter(sc):
        return [e for e in all_events if e.get("sc") == sc]

    samples = []
    for s in scenarios[:2]:
        samples.append({"scenario": s["id"], "sched": s["sched"], "objs": [o.get("name") for o in s["objs"]],
                        "requests": [[e["verb"], e["kind"], e["name"], e["code"]] for e in getter(s["id"]) if e.get("ev") == "Req"]})
    return {"states": states, "transitions": trans, "traces": total, "hits": mine, "other_hits": others,
            "scenarios": by_id, "trace_getter": getter, "samples": samples, "drift": ndrift,
            "evaluations": total, "distinct_nontrivial": nt,
            "rule": "scenarios = maximal behaviours of the bounded TLA+ model enumerated by TLC; non-trivial = the recorded trace contains at least one accepted controller write",
            "exhaustive": exhaustive, "tlc_runs": tlc_runs,
            "extra": {"drift_examples": drift_ex, "replay_wall_s": round(t_replay, 1), "trace_validation_wall_s": round(t_val, 1),
                      "trace_lines": len(evs),
                      "monitor_antecedent_counts": {k: v for k, v in sorted(vlib.VACUITY.items()) if k.startswith(tuple(p[:3] for p in prefixes))}}}


# --------------------------------------------------------------------------------------
# registry: every lib/p_Cxx.py defines run(scr, tier, replay_file) and MANIFEST


def _discover():
    import glob, importlib
    reg, man = {}, {}
    for f in sorted(glob.glob(os.path.join(os.path.dirname(os.path.abspath(__file__)), "p_C*.py"))):
        name = os.path.basename(f)[:-3]
        mod = importlib.import_module(name)
        pid = name[2:]
        reg[pid] = mod.run
        man[pid] = mod.MANIFEST
    return reg, man


class _Lazy(dict):
    def _load(self):
        if not dict.__len__(self):
            reg, _ = _discover()
            dict.update(self, reg)

    def __contains__(self, k):
        self._load()
        return dict.__contains__(self, k)

    def __getitem__(self, k):
        self._load()
        return dict.__getitem__(self, k)


REGISTRY = _Lazy()
