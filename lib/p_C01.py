"""C01 -- reconciliation converges to the hook's desired children, then goes quiet."""
from props import sync_level, all_families
from plan_conv import CONV_PLAN

MANIFEST = dict(
    text="spec/Conv.tla models a whole sync (observe, claim, hook, diff, act) for composite and decorator controllers and every "
         "update method; TLC checks convergence (liveness under weak fairness), quiescence and the linear bound on it, and prints "
         "every initial cluster content x configuration x hook programme as a scenario with the fixpoint and the number of syncs "
         "the model needs; each scenario is replayed on the real controllers over the simulated API server and TLC validates the "
         "recorded trace against spec/TraceSync.tla: C01_Quiet (no child write at the fixpoint; no write at all after a sync that changed nothing) and C01_Bounded (fixpoint reached within the number of syncs the model needs + 2).",
    ref="DESIGN.md §8 C01",
    tech="TLA+ model (TLC liveness + invariants) + TLC-enumerated initial states replayed on real code + TLC trace validation")


def run(scr, tier, replay_file):
    return sync_level(scr, tier, "C01", "C01_", all_families(CONV_PLAN), replay_file)
