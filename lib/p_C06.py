"""C06 -- each child type is changed only by the method its update strategy allows."""
from props import sync_level, all_families
from plan_conv import CONV_PLAN

MANIFEST = dict(
    text="spec/Conv.tla models a whole sync (observe, claim, hook, diff, act) for composite and decorator controllers and every "
         "update method; TLC checks convergence (liveness under weak fairness), quiescence and the linear bound on it, and prints "
         "every initial cluster content x configuration x hook programme as a scenario with the fixpoint and the number of syncs "
         "the model needs; each scenario is replayed on the real controllers over the simulated API server and TLC validates the "
         "recorded trace against spec/TraceSync.tla: C06_Method, C06_DeletingNoWrite, C06_EqualNoWrite, C06_UndesiredDeletedBackground and C06_Complete (every prescribed action was requested).",
    ref="DESIGN.md §8 C06",
    tech="TLA+ model (TLC liveness + invariants) + TLC-enumerated initial states replayed on real code + TLC trace validation")


def run(scr, tier, replay_file):
    return sync_level(scr, tier, "C06", "C06_", all_families(CONV_PLAN), replay_file)
