"""C14 -- every change that can alter a parent's reconciliation enqueues that parent."""
import fam_triggers as fam

MANIFEST = dict(
    text="spec/Triggers.tla holds, side by side, (i) what the statement demands and forbids for ONE delivered event -- "
         "Must / MustNotRaw over (event as delivered, parents in the cache, configuration, customize rules): parent add/update/"
         "delete/tombstone of a matching-or-finalized parent, ignoreStatusChanges dropping only updates that change none of "
         "generation/labels/annotations/deletion, child events resolved by kind+name+UID from the owner reference IN THE EVENT, "
         "orphan appearance/relabelling fanning out to ALL matching parents (generated selector included), related objects "
         "selected in old or new state (spec/Customize.tla), child resync replays and unmatched finalizer-less parents never -- "
         "and (ii) a transcription of the handlers as written (enqueueParentObject, updateParentObject, resolveControllerRef, "
         "onChild*, findPotentialParents, onRelated*/findRelatedParents, parentQueueKey/splitParentQueueKey). TLC checks "
         "Must <= queued, queued /\\ MustNot = {}, keys parse, on every reachable case of spec/MC_Triggers.tla (2 parents x roles x "
         "event kinds incl. tombstones and resync replays x scope x generateSelector x ignoreStatusChanges x composite/decorator, "
         "sequences of <=3 events); the two deviations of the code as written are named predicates (Sig_C14_*) whose strict "
         "variants are violated in the model as written and hold in the intended variant. Every behaviour is printed, replayed on "
         "the REAL controllers (numWorkers=0, real handlers on real shared informers, events through the simulated watch; "
         "hand-made tombstones / resync replays by calling the registered handler functions; real tombstones through a watch gap "
         "+ relist), the drained work queue is logged and TLC evaluates the SAME Must/MustNot operators on the log "
         "(spec/TraceTriggers.tla: C14_Complete, C14_Sound, C14_KeyParses; Drift_C14 compares with the code model)."
         " Variants: a failing customize call for a not-yet-synced parent generation while another parent's answer is cached; owner references written under another served version of the parent's group.",
    ref="DESIGN.md §8 C14",
    tech="TLA+ decision tables (statement vs code) checked by TLC + TLC behaviour enumeration / simulation replayed on real code + "
         "TLC trace validation")

MC = "MC_Triggers"
DESIGN = [(MC, "MC_Triggers_q.cfg", None), (MC, "MC_Triggers_fixed.cfg", None),
          (MC, "MC_Triggers_devKey.cfg", "D_StrictKeyParses"), (MC, "MC_Triggers_devSound.cfg", "D_StrictSound"),
          (MC, "MC_Triggers_devComplete.cfg", "D_StrictComplete"),
          (MC, "MC_Triggers_antiMust.cfg", "D_NeverMust"), (MC, "MC_Triggers_antiMustNot.cfg", "D_NeverMustNot")]


def keep(s, tier):
    # real watch gaps cost about a second each (the reflector's relist back-off): the quick tier
    # keeps a few pinned ones, the thorough tier all of them
    if tier == "quick" and s.get("real"):
        n = int(s["id"].rsplit("-", 1)[1])
        return n % (4 if "prelist" in s["ops"] else 97) == 0
    return True


PLAN = {
    "mc": {"quick": DESIGN, "thorough": DESIGN + [(MC, "MC_Triggers_t.cfg", None), (MC, "MC_Triggers_wide.cfg", None)]},
    "beh": {
        "quick": [(MC, "Beh_Triggers_1c.cfg", fam.convert, 1400, 0), (MC, "Beh_Triggers_2.cfg", fam.convert, 400, 0),
                  (MC, "Beh_Triggers_3.cfg", fam.convert, 300, 150)],
        "thorough": [(MC, "Beh_Triggers_1c.cfg", fam.convert, 0, 0), (MC, "Beh_Triggers_1w.cfg", fam.convert, 5000, 0),
                     (MC, "Beh_Triggers_2.cfg", fam.convert, 0, 0), (MC, "Beh_Triggers_3.cfg", fam.convert, 8000, 3000)],
    },
    "core": fam.is_core,
    "core_cap": 400,
    "keep": keep,
}


def judged(by_sc):
    evals = nontrivial = 0
    for sc, evs in by_sc.items():
        q = [e for e in evs if e.get("ev") == "Queue"]
        evals += len(q)
        if any(e["keys"] for e in q):
            nontrivial += 1
    return evals, nontrivial


RULE = ("scenarios = behaviours (initial world + 1..3 events) of the bounded TLA+ instance MC_Triggers, enumerated by TLC "
        "(length 3: drawn by TLC's simulation mode); evaluations = Queue observations judged by the monitors; non-trivial = "
        "scenarios in which the real handlers queued at least one key")


def run(scr, tier, replay_file):
    return fam.pipeline(scr, tier, "C14", PLAN, replay_file, "TraceTriggers", "TraceTriggers.cfg", judged, RULE)
