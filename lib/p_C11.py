"""C11 -- parent status = hook status + observedGeneration; nothing else is touched."""
from props import sync_level, all_families, COMPOSITE
import fam_status
from plan_fin import FIN_PLAN

PLAN = {
    "pkgs": {"composite": COMPOSITE},
    "mc": {"quick": [("MC_Status", "MC_Status_q.cfg", None)], "thorough": [("MC_Status", "MC_Status_q.cfg", None)]},
    "beh": {
        "quick": [("MC_Status", "Beh_Status_q.cfg", fam_status.convert, 0)],
        "thorough": [("MC_Status", "Beh_Status_t.cfg", fam_status.convert, 0)],
    },
}

MANIFEST = dict(
    text="spec/Status.tla models the status write of a composite sync at request granularity (GET, UID check, compare, PUT /status, "
         "retry on conflict) interleaved with spec edits, replacement of the parent under the same name, foreign status edits and "
         "injected faults on the PUT, for every shape of hook status; TLC checks UidGuard / RetryFresh / SkipEqual / Written on the "
         "model and prints every behaviour as a scenario; replayed on the real controller; TLC validates the trace against "
         "spec/TraceSync.tla (C11_StatusBody, C11_RestUntouched, C11_SkipEqual, C11_RetryFresh, C11_UidGuard, C11_Written, "
         "C11_EvenIfChildrenFail).",
    ref="DESIGN.md §8 C11",
    tech="TLA+ request-level model + TLC behaviour enumeration replayed on real code + TLC trace validation")


def run(scr, tier, replay_file):
    return sync_level(scr, tier, "C11", "C11_", all_families(PLAN), replay_file)
