"""C10 -- finalizer: added first, honoured on deletion, removed only when finalized."""
from props import sync_level, all_families
from plan_fin import FIN_PLAN

MANIFEST = dict(
    text="spec/Fin.tla models the life cycle of a parent (create, match/unmatch the controller selector, delete with background / "
         "foreground / orphan propagation, GC completion, finalize hook added to or removed from the controller) and the hook's "
         "answers; TLC checks the C10 clauses as invariants plus liveness of draining, and prints every bounded behaviour as a "
         "scenario; each is replayed on the real composite and decorator controllers and TLC validates the trace against "
         "spec/TraceSync.tla (C10_FinBeforeChild, C10_NoFinOnDying, C10_HookChoice, C10_RemoveOnlyFinalized, C10_LeftoverRemoved, "
         "C10_DyingNoTouch, C10_StillReconciled).",
    ref="DESIGN.md §8 C10",
    tech="TLA+ model (TLC invariants + liveness) + TLC behaviour enumeration replayed on real code + TLC trace validation")


def run(scr, tier, replay_file):
    return sync_level(scr, tier, "C10", "C10_", all_families(FIN_PLAN), replay_file)
