"""Family "faults": single (and paired) faults at every request of a rich sync (spec/Faults.tla, C12)."""
MARKER = "metacontroller.k8s.io/decorator-controller"


def kid(name, ctrl, match, val, la, marker=None):
    o = {"res": "things", "name": name, "uid": "c-" + name, "labels": {"app": "x"} if match else {"misc": "z"}, "spec": {"f1": val}}
    if ctrl:
        o["owners"] = [{"uid": "p1", "kind": "Parent", "name": "p", "ctrl": True}]
    if la:
        o["la"] = {"f1": val}
        o["laLabels"] = {"app": "x"}
    if marker:
        o["ann"] = {MARKER: marker}
        if la:
            o["laAnn"] = {MARKER: marker}
    return o


def fault_step(f):
    t = f["t"]
    res = {"Thing": "things", "ControllerRevision": "controllerrevisions"}.get(t["kind"], "parents")
    return {"s": "fault", "a": "A", "code": f["code"], "verb": t["verb"], "res": res, "name": t["name"], "skip": t["nth"] - 1}


def convert(raw, sid):
    base = raw["base"]
    des = lambda n: {"res": "things", "name": n, "labels": {"app": "x"}, "spec": {"f1": "v1"}}
    if base == "decorator":
        parent = {"res": "parents", "name": "p", "uid": "p1", "labels": {"deco": "yes"}, "spec": {"x": "1"}}
        objs = [parent, kid("d", True, True, "old", True, "dc"), kid("e", True, True, "v1", True, "dc")]
        cfg = {"kind": "decorator", "parentRes": "parents", "children": [{"res": "things", "method": "InPlace"}],
               "dselLabels": {"matchLabels": {"deco": "yes"}}, "finalize": True}
        hook = {"sync": {"prog": "const", "children": [des("a"), des("d")], "setLabels": {"decorated": "true"}, "status": {"n": "1"}},
                "finalize": {"prog": "drain"}}
        key = "verif.example/v1:Parent:ns1:p"
        fix = ["a", "d"]
        marker = "dc"
    else:
        parent = {"res": "parents", "name": "p", "uid": "p1", "spec": {"selector": {"matchLabels": {"app": "x"}}}}
        objs = [parent, kid("b", False, True, "v1", False), kid("c", True, False, "v1", True),
                kid("d", True, True, "old", True), kid("e", True, True, "v1", True)]
        if base == "compRolling":
            # ControllerRevisions take their labels from spec.template.metadata.labels, which must satisfy the selector
            parent["spec"]["template"] = {"metadata": {"labels": {"app": "x"}}}
        method = {"compInPlace": "InPlace", "compRecreate": "Recreate", "compRolling": "RollingRecreate", "compFinalize": "InPlace", "compCustomize": "InPlace"}[base]
        cfg = {"kind": "composite", "parentRes": "parents", "children": [{"res": "things", "method": method}], "finalize": True}
        hook = {"sync": {"prog": "const", "children": [des("a"), des("b"), des("d")], "status": {"ok": "1"}},
                "finalize": {"prog": "drain", "status": {"ok": "1"}}}
        key = "ns1/p"
        fix = ["a", "b", "d"]
        marker = ""
    if base == "compCustomize":
        # the sync hook wants child a only when it is sent the related ConfigMap the customize rules select
        cfg["customize"] = True
        cfg["finalize"] = False
        objs = [parent, {"res": "configmaps", "name": "rel", "ns": "ns1", "labels": {"r": "1"}, "top": {"data": {"k": "v"}}}]
        hook = {"sync": {"prog": "const", "children": [des("a")], "status": {"ok": "1"}, "needRelated": True},
                "customize": {"prog": "const", "related": [{"apiVersion": "v1", "resource": "configmaps", "namespace": "ns1", "names": ["rel"]}]}}
        fix = ["a"]
    if base == "compFinalize":
        # the parent is being deleted: the finalize hook drains the children, then the finalizer goes
        parent["deleting"] = True
        parent["fins"] = ["metacontroller.io/compositecontroller-cc"]
        objs = [parent, kid("d", True, True, "v1", True), kid("e", True, True, "v1", True)]
        fix = []
    sched = []
    if raw["hook"] != -1:
        sched.append({"s": "hookfault", "hook": {"compFinalize": "finalize", "compCustomize": "customize"}.get(base, "sync"), "code": raw["hook"]})
    for f in (raw["f1"], raw["f2"]):
        if f["on"]:
            sched.append(fault_step(f))
    for _ in range(6):
        sched += [{"s": "sync", "a": "A", "key": key}, {"s": "run", "a": "A"}, {"s": "deliver"}]
    expect = {"fix": [{"kind": "Thing", "ns": "ns1", "name": n, "fields": {"spec.f1": "s:v1"}, "labels": {"app": "x"}} for n in fix],
              "parentUid": "p1", "parentNs": "ns1", "marker": marker, "updatable": True, "faulty": True,
              "model": {"expectErr": raw["expectErr"], "must": raw["must"]}}
    if base != "decorator":
        expect["sel"] = {"ml": {"app": "x"}, "me": []}
    return {"id": sid, "fam": "faults", "cfg": cfg, "objs": objs, "hook": hook, "sched": sched, "expect": expect}


def drift(scenarios, events):
    """model's error table vs the result of the FIRST (faulty) sync"""
    first, anyerr = {}, {}
    for ev in events:
        if ev.get("ev") == "SyncEnd":
            if ev["sc"] not in first:
                first[ev["sc"]] = ev["result"]
            if ev["result"] == "error":
                anyerr[ev["sc"]] = True
    n, ex = 0, []
    for sc in scenarios:
        if sc["cfg"].get("customize") and any(st.get("s") == "hookfault" and st.get("code") == 429 for st in sc["sched"]):
            continue        # (what a 429 of the CUSTOMIZE hook amounts to is not part of the error table)
        if sum(1 for st in sc["sched"] if st.get("s") == "fault") > 1:
            # pairs: whether the second fault is reached in the first sync depends on the first one; the error
            # table is compared on single faults only (the monitors judge every scenario)
            continue
        want = "error" if sc["expect"]["model"]["expectErr"] else "ok"
        got = first.get(sc["id"])
        if sc["objs"][0].get("deleting"):
            # finalizing base: the faulty request belongs to the first or to the second sync
            got = "error" if anyerr.get(sc["id"]) else "ok"
        if got != want:
            n += 1
            if len(ex) < 5:
                ex.append({"sc": sc["id"], "model": want, "code": got, "sched": sc["sched"][:3]})
    return n, ex
