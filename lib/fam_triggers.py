"""Family "triggers": behaviours of spec/MC_Triggers.tla (initial world + up to three events on
parents, children and related objects) turned into scenarios for the extended runner
(harness/verifsim/events_ext.go).  Concretisation only -- the expectation is computed by TLC
from what the real code logged (spec/TraceTriggers.tla)."""
import copy

PAV = "verif.example/v1"
FIN = {"composite": "metacontroller.io/compositecontroller-cc", "decorator": "metacontroller.io/decoratorcontroller-dc"}
SENT = "zz-sentinel"

RULES = {
    "L1": {"apiVersion": "v1", "resource": "configmaps", "labelSelector": {"matchLabels": {"r": "1"}}},
    "NA": {"apiVersion": "v1", "resource": "configmaps", "names": ["ra"]},
    "NB": {"apiVersion": "v1", "resource": "configmaps", "names": ["rb"]},
    "NS1": {"apiVersion": "v1", "resource": "configmaps", "namespace": "ns1"},
}
MENU = {"L1": (["L1"], ["L1"]), "NA": (["NA"], ["NB"]), "NS1": (["NS1"], ["L1"]), "L1NA": (["L1", "NA"], []), "-": ([], [])}


def parent_key(kind, pres, ns, name):
    if kind == "decorator":
        return "%s:%s:%s:%s" % (PAV, "Parent" if pres == "parents" else "CParent", ns, name)
    return (ns + "/" + name) if ns else name


class World:
    """mirror of the model's bookkeeping that the concretisation needs (uids, labels)"""

    def __init__(self, raw):
        self.kind = raw["kind"]
        self.scope = raw["scope"]
        self.pres = "parents" if self.scope == "ns" else "cparents"
        self.pkind = "Parent" if self.scope == "ns" else "CParent"
        self.fin = FIN[self.kind]
        self.uidc = 1
        w0 = raw["w0"]
        self.par = {}
        self.par[1] = self.mk_parent(1, w0["p1"], "a", "ns1", "p1-1", live=True)
        p2 = w0["p2"]
        self.par[2] = self.mk_parent(2, p2["role"] if p2["role"] != "absent" else "M", p2["selv"], p2["ns"], "p2-1", live=p2["role"] != "absent")
        self.k = 0

    def pns(self, ns):
        return ns if self.scope == "ns" else ""

    def mk_parent(self, i, role, selv, ns, uid, live):
        return {"i": i, "role": role, "selv": selv, "ns": self.pns(ns), "uid": uid, "live": live, "on": role == "M"}

    def parent_obj(self, p):
        o = {"res": self.pres, "name": "p%d" % p["i"], "uid": p["uid"], "labels": {"sel": "on" if p["on"] else "off"},
             "spec": {"selector": {"matchLabels": {"app": p["selv"]}}, "x": "1"}}
        if p["ns"]:
            o["ns"] = p["ns"]
        if p["role"] == "F":
            o["fins"] = [self.fin]
        return o

    def child_meta(self, role, cfin):
        p1, p2 = self.par[1], self.par[2]
        labels = {"app": "a"}
        if role == "orphanB":
            labels = {"app": "b"}
        elif role == "orphanNone":
            labels = {}
        elif role == "orphanUid":
            labels = {"controller-uid": p1["uid"]}

        def ref(kind, av, name, uid, ctrl=True):
            return {"kind": kind, "av": av, "name": name, "uid": uid, "ctrl": ctrl}
        other = "NoStatus" if self.pkind == "Parent" else "Parent"
        # (the owner reference may have been written under ANOTHER served version of the parent's API group: the
        # statement resolves it by group, kind, name and uid)
        pav = PAV.rsplit("/", 1)[0] + "/v2" if getattr(self, "altver", False) else PAV
        owners = {
            "ownP1": [ref(self.pkind, pav, "p1", p1["uid"])],
            "ownP2": [ref(self.pkind, pav, "p2", p2["uid"])],
            "foreign": [ref("Deployment", "apps/v1", "d", "dep-1")],
            "wrongUid": [ref(self.pkind, PAV, "p1", "stale-uid")],
            "wrongKind": [ref(other, PAV, "p1", p1["uid"])],
            "wrongGroup": [ref(self.pkind, "other.example/v1", "p1", p1["uid"])],
            "plainOwner": [ref(self.pkind, PAV, "p1", p1["uid"], ctrl=False)],
        }.get(role, [])
        return labels, owners, (["other.example/keep"] if cfin else [])

    def child_obj(self, role, cfin):
        labels, owners, fins = self.child_meta(role, cfin)
        o = {"res": "things", "name": "c", "ns": "ns1", "uid": "c-1", "labels": labels, "spec": {"f1": "v1"}}
        if owners:
            o["owners"] = owners
        if fins:
            o["fins"] = fins
        return o


def sentinel(res):
    o = {"res": res, "name": SENT, "ns": "zz"}
    if res in ("parents", "cparents"):
        o["labels"] = {"sel": "off"}
    return o


def convert(raw, sid):
    w = World(raw)
    w.altver = int(sid.rsplit("-", 1)[1]) % 3 == 1
    kind, pres = w.kind, w.pres
    w0 = raw["w0"]
    cust = bool(raw["customize"])
    cfg = {"kind": kind, "parentRes": pres, "children": [{"res": "things", "method": "InPlace"}], "finalize": True,
           "genSel": bool(raw["genSel"]), "ignoreStatus": bool(raw["ignoreStatus"]), "customize": cust,
           "taps": ["configmaps"] if cust else [], "relKinds": ["ConfigMap"] if cust else []}
    if kind == "composite":
        cfg["parentSel"] = {"matchLabels": {"sel": "on"}}
    else:
        cfg["dselLabels"] = {"matchLabels": {"sel": "on"}}
    objs = [w.parent_obj(w.par[1])]
    if w.par[2]["live"]:
        objs.append(w.parent_obj(w.par[2]))
    cfin = bool(w0["cfin"])
    ch_live = w0["c0"] != "-"
    if ch_live:
        objs.append(w.child_obj(w0["c0"], cfin))
    r0 = w0["r0"]
    rel = None
    if r0["name"] != "-":
        rel = {"ns": r0["ns"], "name": r0["name"], "lab": r0["lab"]}
        objs.append({"res": "configmaps", "name": rel["name"], "ns": rel["ns"], "labels": {"r": rel["lab"]}, "top": {"data": {"k": "v"}}})
    objs += [sentinel(pres), sentinel("things")]
    if cust:
        objs.append(sentinel("configmaps"))
    hook = {"sync": {"prog": "const", "children": []}, "finalize": {"prog": "const", "children": [], "finalized": False}}
    if cust:
        r1, r2 = MENU[w0["rm"]]
        hook["customize"] = {"prog": "rules", "byName": {"p1": [RULES[x] for x in r1], "p2": [RULES[x] for x in r2]}}

    def sync_all():
        st = []
        for i in (1, 2):
            p = w.par[i]
            if p["live"]:
                st += [{"s": "sync", "a": "A", "key": parent_key(kind, pres, p["ns"], "p%d" % i)}, {"s": "run", "a": "A"}]
        return st + [{"s": "drain"}]

    sched = []
    if cust:
        sched += sync_all()

    def pref(i):
        p = w.par[i]
        d = {"res": pres, "name": "p%d" % i}
        if p["ns"]:
            d["ns"] = p["ns"]
        return d

    failvar = cust and int(sid.rsplit("-", 1)[1]) % 2 == 0
    failed_once = pending_fail = False
    for hi, h in enumerate(raw["hist"]):
        op = h["op"]
        w.k += 1
        if op[0] == "p":
            i = int(h["i"])
            p = w.par[i]
            if op == "pcreate":
                w.uidc += 1
                p.update(live=True, uid="p%d-%d" % (i, w.uidc), on=p["role"] == "M")
                sched.append({"s": "ev", "op": "create", "res": pres, "obj": w.parent_obj(p)})
            elif op == "prelabel":
                p["on"] = not p["on"]
                sched.append(dict(pref(i), s="ev", op="relabel", labels={"sel": "on" if p["on"] else "off"}))
            elif op == "pstatus":
                sched.append(dict(pref(i), s="ev", op="setstatus", path=["phase"], value="s%d" % w.k))
            elif op == "pspec":
                sched.append(dict(pref(i), s="ev", op="setfield", path=["spec", "x"], value="x%d" % w.k))
            elif op == "pann":
                sched.append(dict(pref(i), s="ev", op="touch"))
            elif op == "pdelete":
                sched.append(dict(pref(i), s="ev", op="delete"))
                p["live"] = False if p["role"] != "F" else p["live"]
            elif op == "pdropfin":
                sched.append(dict(pref(i), s="ev", op="setfinalizers", fins=[]))
            elif op == "ptomb":
                sched.append(dict(pref(i), s="direct", role="parent", type="tombstone"))
            elif op == "presync":
                sched.append(dict(pref(i), s="direct", role="parent", type="resync"))
            elif op == "prelist":
                sched.append(dict(pref(i), s="relist"))
                p["live"] = False
            elif op == "pgap":
                g = {"res": pres, "name": "zz-gap", "ns": "zz", "labels": {"sel": "off"}}
                if g not in objs:
                    objs.append(g)
                sched.append({"s": "relist", "res": pres, "name": "zz-gap", "ns": "zz"})
            else:
                raise ValueError(op)
            if cust and op == "pspec" and failvar and not failed_once and any(x["op"] in ("rtouch", "rrelabel", "rdelete") for x in raw["hist"][hi + 1:]):
                # variant: the parent's new generation is NOT synced before the next related-object event, and the customize
                # call the handlers then make for it fails once: the other parent (answer cached) is woken all the same
                failed_once = True
                pending_fail = True
            elif cust and op in ("pcreate", "prelabel", "pspec", "pdelete"):
                # what a worker would do with the parent the event has just queued
                sched += sync_all()
        elif op[0] == "c":
            cref = {"res": "things", "name": "c", "ns": "ns1"}
            if op == "ccreate":
                sched.append({"s": "ev", "op": "create", "res": "things", "obj": w.child_obj(h["role"], False)})
                cfin = False
            elif op == "cset":
                labels, owners, fins = w.child_meta(h["role"], cfin)
                md = {"name": "c", "namespace": "ns1"}
                if labels:
                    md["labels"] = labels
                if owners:
                    md["ownerReferences"] = [dict({"apiVersion": o["av"], "kind": o["kind"], "name": o["name"], "uid": o["uid"]},
                                                  **({"controller": True, "blockOwnerDeletion": True} if o["ctrl"] else {})) for o in owners]
                if fins:
                    md["finalizers"] = fins
                sched.append(dict(cref, s="ev", op="setfield", path=["metadata"], value=md))
            elif op == "ctouch":
                sched.append(dict(cref, s="ev", op="touch"))
            elif op == "cdelete":
                sched.append(dict(cref, s="ev", op="delete"))
            elif op == "cdropfin":
                sched.append(dict(cref, s="ev", op="setfinalizers", fins=[]))
                cfin = False
            elif op == "ctomb":
                sched.append(dict(cref, s="direct", role="child", type="tombstone"))
            elif op == "cresync":
                sched.append(dict(cref, s="direct", role="child", type="resync"))
            elif op == "crelist":
                sched.append(dict(cref, s="relist"))
            elif op == "cgap":
                g = {"res": "things", "name": "zz-gap", "ns": "zz"}
                if g not in objs:
                    objs.append(g)
                sched.append({"s": "relist", "res": "things", "name": "zz-gap", "ns": "zz"})
            else:
                raise ValueError(op)
        elif op[0] == "r":
            if op == "rcreate":
                v = h["v"]
                rel = {"ns": v["ns"], "name": v["name"], "lab": v["lab"]}
                sched.append({"s": "ev", "op": "create", "res": "configmaps",
                              "obj": {"res": "configmaps", "name": rel["name"], "ns": rel["ns"], "labels": {"r": rel["lab"]}, "top": {"data": {"k": "v"}}}})
                continue
            rref = {"res": "configmaps", "name": rel["name"], "ns": rel["ns"]}
            if pending_fail:
                sched.append({"s": "hookfault", "hook": "customize", "code": 500})
                pending_fail = False
            if op == "rrelabel":
                rel["lab"] = "2" if rel["lab"] == "1" else "1"
                sched.append(dict(rref, s="ev", op="relabel", labels={"r": rel["lab"]}))
            elif op == "rtouch":
                sched.append(dict(rref, s="ev", op="touch"))
            elif op == "rdelete":
                sched.append(dict(rref, s="ev", op="delete"))
            elif op == "rrelist":
                sched.append(dict(rref, s="relist"))
            else:
                raise ValueError(op)
        else:
            raise ValueError(op)
    ops = [h["op"] for h in raw["hist"]]
    return {"id": sid, "fam": "triggers", "cfg": cfg, "objs": objs, "hook": hook, "sched": sched,
            "expect": {"model": {"must": raw.get("must", []), "mustnot": raw.get("mustnot", []), "ops": ops, "focus": w0["focus"]}},
            "ops": ops, "real": any(o.endswith("relist") or o.endswith("gap") for o in ops)}


def is_core(s):
    """always replayed: every single event on a parent (few, and the two deviations of the code as written
    -- tombstones of parents -- live there)"""
    return len(s["ops"]) == 1 and s["ops"][0][0] == "p" and not s.get("real")


# --------------------------------------------------------------------------------------
# orchestration shared by C14 and C15 (own variant of props.sync_level: other test entry
# point, other trace module, TLC simulation mode for the long behaviours)
import concurrent.futures as _cf
import json as _json
import random as _random
import re as _re

import vlib as _vlib
import props as _props


def mc_many(scr, jobs, par=4):
    """jobs: (module, cfg, expect_violation).  Design-level runs do not depend on /repo: a
    failure is a defect of the specification (inconclusive), never a verdict."""
    def one(job):
        module, cfg, expect = job
        r = _props.mc_run(scr, module, cfg, workers=4, expect_violation=expect)
        return {"cfg": cfg, "states": r["states"], "distinct": r["distinct"], "wall_s": round(r["wall"], 1), "expect_violation": expect}
    with _cf.ThreadPoolExecutor(max_workers=par) as ex:
        return list(ex.map(one, jobs))


def behaviours(scr, module, cfg, simulate=0, depth=6):
    """every behaviour of a bounded instance (BFS), or -- for the long ones -- `simulate` random
    behaviours drawn by TLC's simulation mode with a seed derived from VERIF_SEED"""
    extra = None
    if simulate:
        extra = ["-simulate", "num=%d" % simulate, "-depth", str(depth), "-seed", str(1000 + _vlib.seed())]
    r = _vlib.tlc(scr, module, cfg, workers=1, timeout=900, heap="6g", extra=extra)
    if r["timeout"] or r["error"] or r["violated"]:
        raise _vlib.Inconclusive("TLC behaviour enumeration failed on %s/%s:\n%s" % (module, cfg, r["out"][-2000:]))
    seen, raws = set(), []
    for p in _vlib.tagged(r["out"], "SCN"):
        if p in seen:
            continue
        seen.add(p)
        raws.append(_json.loads(p))
    if not raws:
        raise _vlib.Inconclusive("behaviour enumeration %s produced no scenario" % cfg)
    if simulate:
        m = _re.search(r"The number of states generated: (\d+)", r["out"])
        r["states"] = r["distinct"] = int(m.group(1)) if m else 0
    return r, raws


def pipeline(scr, tier, prop, plan, replay_file, module, cfg, judged, rule):
    """plan: dict(mc={tier: [(module,cfg,expect)]}, beh={tier: [(module,cfg,conv,quota,simulate)]},
    core=pred, keep=pred(scenario, tier)).  judged(events) -> (evaluations, nontrivial scenarios)."""
    rng = _random.Random(_vlib.seed())
    tlc_runs, states, trans, exhaustive = [], 0, 0, True
    scenarios = []
    if replay_file:
        scenarios = [_json.load(open(replay_file))["scenario"]]
        exhaustive = False
    else:
        for r in mc_many(scr, plan["mc"][tier]):
            tlc_runs.append(r)
            states += r["distinct"]
            trans += r["states"]
        for mod, bcfg, conv, quota, sim in plan["beh"][tier]:
            r, raws = behaviours(scr, mod, bcfg, simulate=sim)
            tag = bcfg.replace(".cfg", "")
            scs = [conv(raw, "%s-%05d" % (tag, i)) for i, raw in enumerate(raws)]
            scs = [s for s in scs if s is not None and plan.get("keep", lambda s, t: True)(s, tier)]
            tlc_runs.append({"cfg": bcfg, "states": r["states"], "distinct": r["distinct"], "behaviours": len(raws),
                             "kept": len(scs), "simulate": sim, "wall_s": round(r["wall"], 1)})
            states += r["distinct"]
            trans += r["states"]
            if sim:
                exhaustive = False
            if quota and len(scs) > quota:
                exhaustive = False
                core = [s for s in scs if plan.get("core", lambda s: False)(s)]
                rng2 = _random.Random(_vlib.seed() * 7919 + len(scs))
                rng2.shuffle(core)
                scs = _vlib.sample(scs, quota, rng, core=core[:plan.get("core_cap", max(1, quota // 5))])
            scenarios += scs
    # slow scenarios (real watch gaps) first, so that striding spreads them over the shards
    scenarios.sort(key=lambda s: 0 if s.get("real") else 1)
    traces = []
    for kind, pkg in (("composite", _props.COMPOSITE), ("decorator", _props.DECORATOR)):
        part = [s for s in scenarios if s["cfg"].get("kind", "composite") == kind]
        if part:
            traces += _vlib.replay(scr, pkg, part, prop + "-" + kind, run="TestVerifTriggers",
                                   shards=max(_vlib.NCPU, min(32, len(part) // plan.get("per_shard", 600))))
    hits, st, tr = _vlib.validate_traces(scr, traces, module=module, cfg=cfg)
    states += st
    trans += tr
    mine = [h for h in hits if h["prop"] == prop]
    drift = [h for h in hits if h["prop"] == "DRIFT"]
    others = {}
    for h in hits:
        if h["prop"] not in (prop, "DRIFT"):
            others[h["name"]] = others.get(h["name"], 0) + 1
    cache = {}

    def getter(sc):
        if not cache:
            for t in traces:
                for ev in _vlib.read_trace(t):
                    cache.setdefault(ev.get("sc"), []).append(ev)
        return cache.get(sc, [])

    getter("")
    evals, nontrivial = judged(cache)
    by_id = {s["id"]: s for s in scenarios}
    samples = []
    for s in scenarios[:2]:
        samples.append({"scenario": s["id"], "ops": s.get("ops"), "sched": [st_ for st_ in s["sched"] if st_["s"] in ("ev", "direct", "relist")][:4],
                        "queue": [{"via": e["via"], "events": [x["type"] for x in e["evs"]], "keys": e["keys"]} for e in getter(s["id"]) if e.get("ev") == "Queue"][:4]})
    return {"states": states, "transitions": trans, "traces": len(cache), "hits": mine, "other_hits": others,
            "scenarios": by_id, "trace_getter": getter, "samples": samples, "drift": len(drift),
            "evaluations": evals, "distinct_nontrivial": nontrivial, "rule": rule, "exhaustive": exhaustive, "tlc_runs": tlc_runs,
            "extra": {"drift_examples": [{"sc": h["sc"], "i": h["i"], "facts": h["facts"][:300]} for h in drift[:3]]}}
