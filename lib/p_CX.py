"""CX -- behaviour of the specification beyond the twenty listed properties (not registered in MANIFEST.json):
work-queue discipline and resyncAfterSeconds (spec/Requeue.tla; monitors X01_QueueDiscipline, X02_ResyncAfter)."""
from props import sync_level, all_families, COMPOSITE, DECORATOR
import fam_requeue, fam_multikind

PLAN = all_families({
    "pkgs": {"composite": COMPOSITE, "decorator": DECORATOR},
    "mc": {"quick": [("MC_MultiKind", "MC_MultiKind.cfg", None)], "thorough": [("MC_MultiKind", "MC_MultiKind.cfg", None)]},
    "beh": {"quick": [("MC_Requeue", "Beh_Requeue.cfg", fam_requeue.convert, 0), ("MC_MultiKind", "Beh_MultiKind.cfg", fam_multikind.convert, 250)],
            "thorough": [("MC_Requeue", "Beh_Requeue.cfg", fam_requeue.convert, 0), ("MC_MultiKind", "Beh_MultiKind.cfg", fam_multikind.convert, 0)]},
    "drift": fam_requeue.drift, "drift_fam": "requeue",
})

MANIFEST = dict(
    text="spec/Requeue.tla: every outcome of a sync x every resyncAfterSeconds value (per live revision during a rolling update) "
         "replayed on the real controllers; spec/TraceSync.tla!X01_QueueDiscipline (error => AddRateLimited, success => Forget) and "
         "X02_ResyncAfter (smallest positive value of the accepted answers, nothing after a failed call) on every trace of every family.",
    ref="DESIGN.md §0.2", tech="TLA+ model + TLC-enumerated scenarios replayed on real code + TLC trace validation")


def run(scr, tier, replay_file):
    return sync_level(scr, tier, "CX", "X0", PLAN, replay_file)
