"""C04 -- adoption, release and creation obey the ControllerRef rules."""
from props import sync_level, all_families, COMPOSITE, DECORATOR
from plan_own import OWN_PLAN
import fam_conv

# the label gate (a desired child that would not satisfy the selector) lives in the Conv family
PLAN = dict(OWN_PLAN)
PLAN["pkgs"] = {"composite": COMPOSITE, "decorator": DECORATOR}
_gate = lambda raw, sid: fam_conv.convert(raw, sid) if raw["prog"] == "badlabel" or raw["gensel"] else None
PLAN["beh"] = {"quick": OWN_PLAN["beh"]["quick"] + [("MC_Conv", "Beh_Conv_t.cfg", _gate, 300)],
               "thorough": OWN_PLAN["beh"]["thorough"] + [("MC_Conv", "Beh_Conv_t.cfg", _gate, 0)]}

MANIFEST = dict(
    text="Same machinery as C02 with the ControllerRef monitors (C04_AdoptOnlyIf, C04_ReleaseShape, C04_OthersKept, "
         "C04_OneController, C04_DyingParentPassive, C04_LabelGate, C04_GeneratedLabel); includes two parents racing for one "
         "orphan with TLC-chosen request orders, and an anti-vacuity model without the CanAdopt recheck that TLC must reject.",
    ref="DESIGN.md §8 C04",
    tech="TLA+ model + TLC behaviour enumeration replayed on real code + TLC trace validation")


def run(scr, tier, replay_file):
    return sync_level(scr, tier, "C04", "C04_", all_families(PLAN), replay_file)
