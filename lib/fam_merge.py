"""Family "merge" (property C05): cases = triples (observed, last-applied, desired) of tagged
JSON trees.

  S->I  spec/MC_Merge.tla enumerates every triple of its bounded universe (one TLC state per
        triple), evaluates the laws of spec/Merge.tla on the transcription and prints each
        triple as a CASE line; the Go harness (harness/common/verif_apply_test.go) runs the
        REAL apply.Merge and ApplyUpdate on it.
  I->S  spec/TraceMerge.tla reads what the real code returned and evaluates the laws on the
        GO result of every case (MONITOR lines), and counts disagreement with the
        transcription (DRIFT lines, never a violation).
  Seeded random deeper triples (depth <= 5) are generated here and go the I->S way only.

Tagged JSON on the wire:  {"t":"z"} null, {"t":"n"} absent, {"t":"s"|"i"|"b","s":text},
{"t":"m","f":{key: value}}, {"t":"l","v":[...]}.
"""
import concurrent.futures as cf
import json, os, random

import vlib

PKG = "pkg/controller/common"
LA = "metacontroller.k8s.io/last-applied-configuration"
KNOWN_KEYS = ["containerPort", "port", "mountPath", "name", "uid", "ip", "path"]
SYS = ["selfLink", "uid", "resourceVersion", "generation", "creationTimestamp", "deletionTimestamp",
       "deletionGracePeriodSeconds"]


# --------------------------------------------------------------------------------------
# tagged trees

def norm(t):
    """TLC prints an empty function as []: make every object's "f" a dict."""
    k = t["t"]
    if k == "m":
        f = t.get("f")
        return {"t": "m", "f": {a: norm(f[a]) for a in f} if isinstance(f, dict) else {}}
    if k == "l":
        out = {"t": "l", "v": [norm(x) for x in t.get("v", [])]}
        if t.get("z"):
            out["z"] = True
        return out
    return t


def show(t):
    """Compact human-readable rendering (samples, reports)."""
    k = t["t"]
    if k == "z":
        return "null"
    if k == "n":
        return "~"
    if k == "s":
        return json.dumps(t["s"])
    if k in ("i", "b"):
        return t["s"]
    if k == "m":
        return "{" + ",".join("%s:%s" % (a.replace(LA, "LA"), show(t["f"][a])) for a in sorted(t["f"])) + "}"
    if t.get("z"):
        return "nil[]"
    return "[" + ",".join(show(x) for x in t["v"]) + "]"


Z = {"t": "z"}
NONE = {"t": "n"}


def S(x):
    return {"t": "s", "s": x}


def I(x):
    return {"t": "i", "s": str(x)}


def M(f):
    return {"t": "m", "f": f}


def L(v):
    return {"t": "l", "v": v}


# --------------------------------------------------------------------------------------
# S->I: the exhaustive universe out of TLC

def enumerate_cases(scr, tier):
    cfg = "MC_Merge_quick.cfg" if tier == "quick" else "MC_Merge_thorough.cfg"
    r = vlib.tlc(scr, "MC_Merge", cfg, workers=min(vlib.NCPU, 12), timeout=300 if tier == "quick" else 2400,
                 heap="8g" if tier == "thorough" else None)
    if r["timeout"] or r["error"]:
        raise vlib.Inconclusive("TLC failed on MC_Merge/%s:\n%s" % (cfg, tail(r["out"])))
    if r["violated"]:
        raise vlib.Inconclusive("design-level check MC_Merge/%s violates %s: the transcription fails a law without a "
                                "registered signature (specification defect, not a verdict about the code):\n%s"
                                % (cfg, r["violated"], tail(r["out"])))
    cases = []
    model_hits = {}
    for pl in vlib.tagged(r["out"], "CASE"):
        c = json.loads(pl)
        cases.append({"id": c["id"], "fam": c["fam"], "o": norm(c["o"]), "l": norm(c["l"]), "d": norm(c["d"]),
                      "pred": {"e": c["pred"]["e"], "r": norm(c["pred"]["r"]) if not c["pred"]["e"] else NONE}})
        for h in c.get("model", []):
            model_hits[h] = model_hits.get(h, 0) + 1
    if not cases or len(cases) != r["distinct"] - count_initial(r["out"]):
        raise vlib.Inconclusive("MC_Merge/%s: %d CASE lines for %d states" % (cfg, len(cases), r["distinct"]))
    run = {"cfg": cfg, "states": r["states"], "distinct": r["distinct"], "wall_s": round(r["wall"], 1),
           "cases": len(cases), "design_level_hits_of_transcription_as_coded": model_hits}
    return cases, run, r


def count_initial(out):
    import re
    m = re.search(r"Finished computing initial states: (\d+) distinct state", out)
    return int(m.group(1)) if m else 0


def tail(out, n=2500):
    keep = [ln for ln in out.splitlines() if not ln.startswith('"CASE|')]
    return "\n".join(keep)[-n:]


# --------------------------------------------------------------------------------------
# seeded random deeper triples

class Gen:
    def __init__(self, rng, maxdepth):
        self.rng = rng
        self.maxdepth = maxdepth

    def scalar(self):
        r = self.rng
        return r.choice([I(r.randint(0, 3)), S(r.choice(["x", "y", "zed", ""])), {"t": "b", "s": r.choice(["true", "false"])},
                         {"t": "i", "s": "1.5"}, I(-7)])

    def single(self, kind, depth):
        """One free-standing value of the given kind (used for clashes)."""
        r = self.rng
        if kind == "scalar" or depth > self.maxdepth:
            return self.scalar()
        if kind == "map":
            return M({k: self.scalar() for k in r.sample("abcd", r.randint(0, 2))})
        if kind == "plain":
            return L([self.scalar() for _ in range(r.randint(0, 3))])
        if depth >= self.maxdepth:
            return L([self.scalar() for _ in range(r.randint(0, 2))])
        key = r.choice(KNOWN_KEYS)
        return L([M({key: S("e%d" % i), "f": self.scalar()}) for i in range(r.randint(1, 2))])

    def triple(self, depth):
        """Values of one place for the three roles (observed, last-applied, desired); None = absent."""
        r = self.rng
        kinds = ["scalar", "map", "plain", "listmap"]
        if depth > self.maxdepth:
            kind = "scalar"
        else:
            kind = r.choices(kinds, weights=[4, 4, 2, 3 if depth < self.maxdepth else 0])[0]
        follow = []
        for role in range(3):
            x = r.random()
            # role 1 (last-applied) is absent more often; desired is null now and then
            if x < (0.3 if role == 1 else 0.15):
                follow.append("absent")
            elif x < (0.36 if role == 1 else 0.22):
                follow.append("null")
            elif x < (0.40 if role == 1 else 0.27):
                follow.append("clash")
            else:
                follow.append("kind")
        vals = [None, None, None]
        if kind == "scalar":
            base = self.scalar()
            sub = [base if r.random() < 0.5 else self.scalar() for _ in range(3)]
        elif kind == "map":
            keys = r.sample("abcde", r.randint(0, 3))
            parts = {k: self.triple(depth + 1) for k in keys}
            sub = [M({k: parts[k][i] for k in keys if parts[k][i] is not None}) for i in range(3)]
        elif kind == "plain":
            base = [self.scalar() for _ in range(r.randint(0, 3))]
            sub = []
            for i in range(3):
                v = list(base)
                if r.random() < 0.5:
                    r.shuffle(v)
                if r.random() < 0.4:
                    v.append(self.scalar())
                if r.random() < 0.1 and depth < self.maxdepth:
                    v.append(M({"q": self.scalar()}))
                sub.append(L(v))
        else:
            sub = self.listmap(depth)
        for i in range(3):
            f = follow[i]
            if f == "absent":
                vals[i] = None
            elif f == "null":
                vals[i] = Z
            elif f == "clash":
                vals[i] = self.single(r.choice([k for k in kinds if k != kind]), depth + 1)
            else:
                vals[i] = sub[i]
        return vals

    def listmap(self, depth):
        """Three arrays of entries keyed by a conventional merge key; key values are unique in
        every array under every conventional key the entries carry."""
        r = self.rng
        k1 = r.choice(KNOWN_KEYS + ["name", "name"])
        k2 = r.choice(KNOWN_KEYS) if r.random() < 0.25 else None
        if k2 == k1:
            k2 = None
        noconv = r.random() < 0.08          # a key that is not conventional: plain replacement
        if noconv:
            k1, k2 = "id", None
        n = r.randint(0, 4)
        ints = r.random() < 0.3
        ents = []
        for j in range(n):
            kv = I(10 + j) if ints else S("e%d" % j)
            extra_keys = r.sample("fgh", r.randint(0, 2))
            parts = {k: self.triple(depth + 2) for k in extra_keys}
            ents.append((kv, parts))
        out = []
        for i in range(3):
            items = []
            for j, (kv, parts) in enumerate(ents):
                if r.random() < 0.35:
                    continue
                f = {k1: kv}
                if k2:
                    f[k2] = S("s%d" % j)
                for k, p in parts.items():
                    if p[i] is not None:
                        f[k] = p[i]
                items.append(M(f))
            if r.random() < 0.5:
                r.shuffle(items)
            if items and r.random() < 0.04:
                items.append(self.scalar())      # not all entries are objects: plain list
            out.append(L(items))
        return out

    def meta(self):
        """Sane metadata / status for the three roles (ApplyUpdate level)."""
        r = self.rng
        out = []
        labels = self.strmap3("lb")
        anns = self.strmap3("an")
        for i in range(3):
            f = {"name": S("c")}
            if labels[i] is not None:
                f["labels"] = labels[i]
            if anns[i] is not None:
                f["annotations"] = anns[i]
            for s in SYS:
                p = [0.6, 0.05, 0.15][i]
                if r.random() < p:
                    f[s] = I(r.randint(1, 3)) if s in ("generation", "deletionGracePeriodSeconds") else S("%s-%d" % (s[:2], r.randint(1, 2)))
            out.append(M(f))
        # a desired state that echoes the observed object carries the record itself
        if r.random() < 0.1 and "annotations" in out[2]["f"]:
            out[2]["f"]["annotations"]["f"][LA] = S("{}")
        return out

    def strmap3(self, pre):
        r = self.rng
        keys = [pre + str(i) for i in range(r.randint(0, 3))]
        out = []
        base = {k: r.choice(["u", "v"]) for k in keys}
        for i in range(3):
            if r.random() < 0.25:
                out.append(None)
                continue
            f = {}
            for k in keys:
                if r.random() < 0.7:
                    f[k] = S(base[k] if r.random() < 0.6 else r.choice(["u", "v", "w"]))
            out.append(M(f))
        return out

    def case(self, n):
        r = self.rng
        keys = r.sample(["a", "b", "c", "spec", "data"], r.randint(1, 3))
        parts = {k: self.triple(2) for k in keys}
        roots = [{k: parts[k][i] for k in keys if parts[k][i] is not None} for i in range(3)]
        if r.random() < 0.5:
            md = self.meta()
            st = self.triple(3)
            for i in range(3):
                roots[i]["metadata"] = md[i]
                if st[i] is not None:
                    roots[i]["status"] = st[i]
        l = M(roots[1]) if r.random() > 0.08 else NONE
        return {"id": "rand-%d-%05d" % (vlib.seed(), n), "fam": "random", "o": M(roots[0]), "l": l, "d": M(roots[2])}


def random_cases(n, maxdepth=5):
    rng = random.Random(1000003 * vlib.seed() + 17)
    g = Gen(rng, maxdepth)
    return [g.case(i) for i in range(n)]


def depth_of(t):
    if t["t"] == "m":
        return 1 + max([depth_of(x) for x in t["f"].values()] + [0])
    if t["t"] == "l":
        return 1 + max([depth_of(x) for x in t["v"]] + [0])
    return 0


# --------------------------------------------------------------------------------------
# replay on the real code, judgement by TLC

def replay(scr, cases, tag="C05"):
    scn = [{"id": c["id"], "fam": c["fam"], "o": c["o"], "l": c["l"], "d": c["d"]} for c in cases]
    nshards = max(1, min(64, (len(scn) + 7999) // 8000))
    nshards = max(nshards, min(vlib.NCPU, len(scn)))
    return vlib.replay(scr, PKG, scn, tag, run="TestVerifMerge", shards=nshards)


def judge(scr, traces, timeout=1500):
    """TraceMerge over every trace file.  Returns (hits, drift_lines, states, transitions)."""
    hits, drift = [], []
    states = trans = 0

    def one(trc):
        return trc, vlib.tlc(scr, "TraceMerge", "TraceMerge.cfg", workers=1, timeout=timeout,
                             env={"VERIF_TRACE": trc}, heap="4g")

    with cf.ThreadPoolExecutor(max_workers=min(vlib.NCPU, 12)) as ex:
        for trc, r in ex.map(one, traces):
            if r["timeout"]:
                raise vlib.Inconclusive("trace validation timed out on %s" % trc)
            n = sum(1 for _ in open(trc))
            if r["error"] or r["violated"] or "No error has been found" not in r["out"]:
                raise vlib.Inconclusive("trace validation failed on %s (TLC error in TraceMerge):\n%s" % (trc, tail(r["out"], 3000)))
            if r["distinct"] != n + 1:
                raise vlib.Inconclusive("trace %s not fully consumed: %d states for %d lines" % (trc, r["distinct"], n))
            states += r["distinct"]
            trans += r["states"]
            for pl in vlib.tagged(r["out"], "MONITOR"):
                prop, name, sig, sc, i, facts = pl.split("|", 5)
                hits.append({"prop": prop, "name": name, "sig": sig, "sc": sc, "i": int(i), "facts": facts, "trace": trc})
            for pl in vlib.tagged(r["out"], "DRIFT"):
                sc, what = pl.split("|", 1)
                drift.append((sc, json.loads(what)))
    return hits, drift, states, trans


def scan(traces, wanted):
    """One pass over the recorded results: counts, and the full lines of the wanted cases."""
    total = nontrivial = errors = applied = 0
    per_fam = {}
    keep = {}
    first = []
    for t in traces:
        for ev in vlib.read_trace(t):
            total += 1
            per_fam[ev["fam"]] = per_fam.get(ev["fam"], 0) + 1
            m = ev["m"]
            if m["err"]:
                errors += 1
            if m["err"] or m["panic"] or m["r"] != ev["o"]:
                nontrivial += 1
            if ev["a"]["ran"]:
                applied += 1
            if ev["sc"] in wanted:
                keep[ev["sc"]] = ev
            if len(first) < 3 and ev["i"] in (1, 2):
                first.append(ev)
    return {"total": total, "nontrivial": nontrivial, "errors": errors, "applied": applied, "per_fam": per_fam}, keep, first
