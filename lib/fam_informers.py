"""Family "informers" (C18): spec/Informers.tla (model + behaviour enumeration),
spec/TraceInformers.tla (trace validation), harness/informer/verif_informers_test.go
(replay on the real SharedInformerFactory over the simulated API server).

This module only moves data: TLC output -> scenario files -> go test -> trace files ->
TLC.  Every judgement about the property is taken in TLA+ (MONITOR lines)."""
import concurrent.futures as cf
import json, os, random, re

import vlib

PKG = "pkg/dynamic/informer"
MODULE = "MC_Informers"
TNR = 2  # resources per trace line (spec/TraceInformers.cfg)
CODE_FRAME = re.compile(r"metacontroller/pkg/dynamic/informer\.[^\n]*\n\s+\S*/pkg/dynamic/informer/(?!\S*_test\.go)\S+\.go:\d+")

MUTANT_CFGS = [
    ("MC_Informers_mut_neverStop.cfg", "C18_StopOnLast"),
    ("MC_Informers_mut_stopEarly.cfg", "C18_Isolation"),
    ("MC_Informers_mut_removeAll.cfg", "C18_Isolation"),
    ("MC_Informers_mut_removeAll2.cfg", "C18_Complete"),
    ("MC_Informers_mut_noReplay.cfg", "C18_Replay"),
    ("MC_Informers_mut_keepShared.cfg", "C18_FreshAfterRestart"),
    ("MC_Informers_mut_keepShared2.cfg", "C18_RunningIffSubscribed"),
    ("MC_Informers_mut_keepHandler.cfg", "C18_Silent"),
]


# --------------------------------------------------------------------------------------
# TLC on the model


def _violated(out):
    return re.findall(r"Action property (\S+) is violated", out) + re.findall(r"Invariant (\S+) is violated", out)


def _tlc_broken(r):
    out = r["out"]
    if r["timeout"]:
        return True
    if re.search(r"Error: (?!Invariant|The behavior|Temporal|Action property)", out) or "TLC threw" in out \
            or "Parsing or semantic analysis failed" in out:
        return True
    return "states generated" not in out


def mc(scr, cfg, expect=None, workers=8, timeout=1500):
    """Exhaustive check of a bounded instance.  A failure here is a defect of the
    specification (inconclusive), never a verdict about the code."""
    r = vlib.tlc(scr, MODULE, cfg, workers=workers, timeout=timeout, heap="8g")
    if _tlc_broken(r):
        raise vlib.Inconclusive("TLC failed on %s/%s:\n%s" % (MODULE, cfg, r["out"][-2000:]))
    viol = _violated(r["out"])
    if expect:
        if expect not in viol:
            raise vlib.Inconclusive("anti-vacuity config %s: expected %s to be violated by the seeded model deviation, got %s"
                                    % (cfg, expect, viol))
    elif viol:
        raise vlib.Inconclusive("model %s/%s violates %s (specification defect)" % (MODULE, cfg, viol))
    elif "No error has been found" not in r["out"]:
        raise vlib.Inconclusive("TLC did not complete on %s:\n%s" % (cfg, r["out"][-1500:]))
    return {"cfg": cfg, "states": r["states"], "distinct": r["distinct"], "wall_s": round(r["wall"], 1), "expect_violation": expect}


def mc_many(scr, jobs, par=4):
    """jobs: [(cfg, expect, workers)] run with bounded parallelism."""
    with cf.ThreadPoolExecutor(max_workers=par) as ex:
        return list(ex.map(lambda j: mc(scr, j[0], j[1], workers=j[2]), jobs))


def behaviours(scr, cfg, timeout=1500):
    r = vlib.tlc(scr, MODULE, cfg, workers=1, timeout=timeout, heap="8g")
    if _tlc_broken(r) or _violated(r["out"]):
        raise vlib.Inconclusive("TLC behaviour enumeration failed on %s:\n%s" % (cfg, r["out"][-2000:]))
    raws = [json.loads(p) for p in vlib.tagged(r["out"], "SCN")]
    if not raws:
        raise vlib.Inconclusive("behaviour enumeration %s produced no scenario" % cfg)
    run = {"cfg": cfg, "states": r["states"], "distinct": r["distinct"], "behaviours": len(raws), "wall_s": round(r["wall"], 1)}
    return run, raws


def convert(raw, sid, seed=0, mode="seq"):
    """TLC's record -> scenario for the Go driver (pure renaming: the per-resource vectors
    are padded to the dimensions of the trace lines)."""
    steps = []
    for st in raw["steps"]:
        st = dict(st)
        st["w"] = (list(st["w"]) + [0] * TNR)[:TNR]
        steps.append(st)
    return {"id": sid, "fam": "informers", "mode": mode, "seed": seed, "dims": [raw["ns"], raw["nr"], raw["no"]], "steps": steps,
            "late": bool(raw.get("late"))}


def ops_of(sc):
    out = []
    for st in sc["steps"]:
        o = st["op"]
        t = o["t"]
        if t in ("sub", "subx"):
            out.append("%s(s%d,r%d)" % (t, o["s"], o["r"]))
        elif t == "add":
            out.append("add(s%d,%s)=h%d" % (o["s"], "own" if o["own"] else "plain", o["h"]))
        elif t == "addev":
            out.append("addev(s%d,%s,o%d)=h%d" % (o["s"], "own" if o["own"] else "plain", o["o"], o["h"]))
        elif t == "remev":
            out.append("remev(s%d,o%d)" % (o["s"], o["o"]))
        elif t in ("rem", "close"):
            out.append("%s(s%d)" % (t, o["s"]))
        else:
            out.append("%s(r%d,o%d)" % (t, o["r"], o["o"]))
    return out


def is_core(sc):
    """scenarios always kept when a tier samples: a restart (last close, then subscribe
    again), or a remove/close by one subscriber while another one has handlers."""
    ts = [st["op"]["t"] for st in sc["steps"]]
    restart = any(st["last"] for st in sc["steps"]) and any(st["first"] for st in sc["steps"][1:]) and "add" in ts
    return restart


# --------------------------------------------------------------------------------------
# crash / race attribution of a test binary's output


def scan_output(out):
    """returns dict(races, crashes, where, machinery, code_involved)"""
    races = out.count("WARNING: DATA RACE")
    crash = bool(re.search(r"^(panic:|fatal error:)", out, re.M))
    machinery = "MACHINERY" in out
    blocks = re.findall(r"WARNING: DATA RACE.*?==================", out, re.S)
    code_races = [b for b in blocks if CODE_FRAME.search(b)]
    where = ""
    if code_races:
        m = CODE_FRAME.findall(code_races[0])
        where = " | ".join(x.split("\n")[0].strip() for x in m[:4])
    code_crash = False
    if crash:
        m = re.search(r"^(panic:|fatal error:).*", out, re.M | re.S)
        tail = m.group(0)[:6000] if m else ""
        # the goroutine that crashed is the first stack after the message
        first = tail.split("\n\ngoroutine", 2)
        head = "\n\ngoroutine".join(first[:2])
        code_crash = bool(CODE_FRAME.search(head)) or bool(re.search(r"pkg/dynamic/informer/(?!\S*_test\.go)\S+\.go", head))
        if code_crash and not where:
            where = tail.split("\n")[0][:200]
    return {"races": races, "code_races": len(code_races), "crash": crash, "code_crash": code_crash,
            "where": where, "machinery": machinery}


def trim_partial(path):
    """a crashed process may leave a partial last line"""
    if not os.path.exists(path):
        open(path, "w").close()
        return
    data = open(path, "rb").read()
    if data and not data.endswith(b"\n"):
        data = data[:data.rfind(b"\n") + 1]
        open(path, "wb").write(data)


def run_shards(scr, scenarios, tag, run, race=False, shards=vlib.NCPU, timeout=1500, env=None):
    """Like vlib.replay, but keeps the output of every shard: a data race report or a crash
    inside the code under test is an observation (Detector line appended to the shard's
    trace), everything else that makes the driver fail is broken machinery."""
    binary = vlib.build_test_binary(scr, PKG, race)
    parts = vlib.shard(scenarios, shards)
    jobs = []
    for i, part in enumerate(parts):
        scn = scr.path("%s-%d.scn.ndjson" % (tag, i))
        trc = scr.path("%s-%d.trace.ndjson" % (tag, i))
        with open(scn, "w") as fh:
            for s in part:
                fh.write(json.dumps(s, separators=(",", ":")) + "\n")
        jobs.append((i, scn, trc, part))

    def one(job):
        i, scn, trc, part = job
        e = {"VERIF_SCN": scn, "VERIF_TRACE": trc}
        if race:
            e["GORACE"] = "halt_on_error=0 history_size=3"
        e.update(env or {})
        rc, out = vlib.run_test_binary(binary, run, e, timeout=timeout)
        return i, rc, out, trc, part

    traces, shard_scn = [], {}
    with cf.ThreadPoolExecutor(max_workers=shards) as ex:
        for i, rc, out, trc, part in ex.map(one, jobs):
            sid = "%s-shard-%d" % (tag, i)
            sc = scan_output(out)
            if sc["machinery"]:
                raise vlib.Inconclusive("driver reported broken machinery:\n%s" % out[-3000:])
            if rc == 124:
                raise vlib.Inconclusive("driver timed out (shard %s):\n%s" % (sid, out[-2000:]))
            det = {"ev": "Detector", "sc": sid, "i": 0, "races": 0, "crashes": 0, "where": ""}
            if sc["races"]:
                if not sc["code_races"]:
                    raise vlib.Inconclusive("data race outside the code under test (harness or simulator):\n%s" % out[:4000])
                det["races"], det["where"] = sc["code_races"], sc["where"]
            if sc["crash"]:
                if not sc["code_crash"]:
                    raise vlib.Inconclusive("driver crashed outside the code under test:\n%s" % out[-4000:])
                det["crashes"], det["where"] = 1, sc["where"]
            if rc != 0 and not det["races"] and not det["crashes"]:
                raise vlib.Inconclusive("driver failed (rc=%d, shard %s):\n%s" % (rc, sid, out[-3000:]))
            trim_partial(trc)
            if det["races"] or det["crashes"]:
                with open(trc, "a") as fh:
                    fh.write(json.dumps(det) + "\n")
                shard_scn[sid] = {"id": sid, "fam": "informers", "mode": "race-shard" if race else "seq-shard",
                                  "scenarios": part, "output": out[:6000]}
            traces.append(trc)
    return traces, shard_scn


# --------------------------------------------------------------------------------------
# trace validation


def validate(scr, traces, timeout=1500):
    """TLC trace validation (one JVM per shard).  returns hits, drift, states, transitions"""
    hits, broken, drift = [], [], []
    states = trans = 0

    def one(trc):
        return trc, vlib.tlc(scr, "TraceInformers", "TraceInformers.cfg", workers=1, timeout=timeout,
                             env={"VERIF_TRACE": trc}, heap="3g")

    todo = [t for t in traces if os.path.getsize(t) > 0]
    with cf.ThreadPoolExecutor(max_workers=min(vlib.NCPU, 8)) as ex:
        for trc, r in ex.map(one, todo):
            if r["timeout"]:
                raise vlib.Inconclusive("trace validation timed out on %s" % trc)
            n = sum(1 for _ in open(trc))
            if r["error"] or r["violated"] or "No error has been found" not in r["out"]:
                raise vlib.Inconclusive("trace validation failed on %s (the trace specification rejected the trace, or TLC error):\n%s"
                                        % (trc, r["out"][-3000:]))
            if r["distinct"] != n + 1:
                raise vlib.Inconclusive("trace %s not fully consumed: %d states for %d lines" % (trc, r["distinct"], n))
            states += r["distinct"]
            trans += r["states"]
            for pl in vlib.tagged(r["out"], "MONITOR"):
                prop, name, sig, sc, i, facts = pl.split("|", 5)
                hits.append({"prop": prop, "name": name, "sig": sig, "sc": sc, "i": int(i), "facts": facts, "trace": trc})
            for pl in vlib.tagged(r["out"], "BROKEN"):
                broken.append(pl)
            for pl in vlib.tagged(r["out"], "DRIFT"):
                drift.append(pl)
    if broken:
        raise vlib.Inconclusive("harness and specification disagree (machinery): %s" % broken[:3])
    return hits, drift, states, trans


def trace_stats(traces):
    """(scenarios run, lines, unsettled lines, scenarios in which some handler received something)"""
    run = lines = unsettled = 0
    nontrivial = set()
    for t in traces:
        for ev in vlib.read_trace(t):
            lines += 1
            if ev.get("ev") == "Reset":
                run += 1
            if ev.get("settled") is False:
                unsettled += 1
            if any(ev.get("recv") or []):
                nontrivial.add(ev.get("sc"))
    return run, lines, unsettled, len(nontrivial)
