#!/usr/bin/env python3
"""Build a `go test -overlay` JSON that maps /verif/harness/** onto paths inside /repo.
/repo itself is never written to."""
import json, os, sys

VERIF = os.path.dirname(os.path.dirname(os.path.abspath(__file__)))
REPO = os.environ.get("VERIF_REPO", "/repo")
MAP = {
    "verifsim": "pkg/internal/verifsim",
    "composite": "pkg/controller/composite",
    "decorator": "pkg/controller/decorator",
    "common": "pkg/controller/common",
    "apply": "pkg/dynamic/apply",
    "customize": "pkg/controller/common/customize",
    "informer": "pkg/dynamic/informer",
    "hooks": "pkg/hooks",
    "object": "pkg/dynamic/object",
}

def build(out_path, only=None):
    repl = {}
    for d, target in MAP.items():
        src = os.path.join(VERIF, "harness", d)
        if not os.path.isdir(src):
            continue
        for f in sorted(os.listdir(src)):
            if f.endswith(".go"):
                repl[os.path.join(REPO, target, f)] = os.path.join(src, f)
    with open(out_path, "w") as fh:
        json.dump({"Replace": repl}, fh, indent=1)
    return repl

if __name__ == "__main__":
    build(sys.argv[1])
