"""Family "customize": rule sets of spec/MC_Customize.tla x parent scope, turned into sync-level
scenarios for the extended runner (harness/verifsim/events_ext.go): sync, change every related
object, sync again, bump the parent's generation, sync again.  Concretisation only -- the verdict
is computed by TLC from the trace (spec/TraceCustomize.tla)."""
SENT = "zz-sentinel"
PAV = "verif.example/v1"

WORLD = [
    {"res": "configmaps", "ns": "ns1", "name": "ra", "labels": {"r": "1"}, "top": {"data": {"k": "v"}}},
    {"res": "configmaps", "ns": "ns1", "name": "rb", "labels": {"r": "2"}, "top": {"data": {"k": "v"}}},
    {"res": "configmaps", "ns": "ns2", "name": "ra", "labels": {"r": "1"}, "top": {"data": {"k": "v"}}},
    {"res": "configmaps", "ns": "ns2", "name": "rb", "top": {"data": {"k": "v"}}},
    {"res": "things", "ns": "ns1", "name": "ra", "labels": {"r": "1"}, "spec": {"f1": "v"}},
    {"res": "things", "ns": "ns2", "name": "rb", "labels": {"r": "1"}, "spec": {"f1": "v"}},
    {"res": "cthings", "name": "ra", "labels": {"r": "1"}, "spec": {"f1": "v"}},
    {"res": "cthings", "name": "rb", "labels": {"r": "2"}, "spec": {"f1": "v"}},
]
SEL = {"empty": {}, "ml": {"matchLabels": {"r": "1"}},
       "expr": {"matchExpressions": [{"key": "r", "operator": "In", "values": ["1", "2"]}]}}


def rule_of(r):
    out = {"apiVersion": r["av"], "resource": r["res"]}
    if r["sel"] != "absent":
        out["labelSelector"] = SEL[r["sel"]]
    if r["ns"]:
        out["namespace"] = r["ns"]
    names = r["names"] if isinstance(r["names"], list) else []
    if names:
        out["names"] = list(names)
    return out


def parent_key(kind, pres, ns, name):
    if kind == "decorator":
        return "%s:%s:%s:%s" % (PAV, "Parent" if pres == "parents" else "CParent", ns, name)
    return (ns + "/" + name) if ns else name


def oref(o):
    d = {"res": o["res"], "name": o["name"]}
    if "ns" in o:
        d["ns"] = o["ns"]
    return d


def convert_for(kind, shift=0):
    def conv(raw, sid):
        return convert(raw, sid, kind, shift)
    return conv


def convert(raw, sid, kind, shift=0):
    n = int(sid.rsplit("-", 1)[1])
    variant = (n + (3 if kind == "decorator" else 0) + shift) % 12
    chg = variant % 3            # how the related objects change: touch / relabel / delete
    alt = (variant // 3) % 2     # the hook answers generation 2 with another rule set
    two = (variant // 6) % 2     # a second parent with the same rules
    scope = raw["scope"]
    pres = "parents" if scope == "ns" else "cparents"
    rules = raw["rules"] if isinstance(raw["rules"], list) else []
    rules = [rule_of(r) for r in rules]
    cfg = {"kind": kind, "parentRes": pres, "children": [{"res": "things", "method": "InPlace"}], "customize": True,
           "taps": ["configmaps", "cthings"], "relKinds": ["ConfigMap", "Thing", "CThing"]}
    parents = [{"res": pres, "name": "p", "uid": "p1", "spec": {"selector": {"matchLabels": {"app": "x"}}, "x": "1"}}]
    if two:
        q = {"res": pres, "name": "q", "uid": "q1", "spec": {"selector": {"matchLabels": {"app": "x"}}, "x": "1"}}
        if scope == "ns":
            q["ns"] = "ns2"
        parents.append(q)
    if kind == "decorator":
        cfg["dselLabels"] = {"matchLabels": {"deco": "yes"}}
        for p in parents:
            p["labels"] = {"deco": "yes"}
    objs = parents + [dict(o) for o in WORLD]
    for res in (pres, "things", "configmaps", "cthings"):
        s = {"res": res, "name": SENT, "ns": "zz"}
        objs.append(s)
    cust = {"prog": "rules", "related": rules}
    if alt:
        cust["byGen"] = {"2": [{"apiVersion": "v1", "resource": "configmaps", "names": ["rb"]}]}
    hook = {"sync": {"prog": "const", "children": [], "status": {"ok": "1"}}, "customize": cust}
    if kind == "decorator":
        hook["sync"] = {"prog": "const", "children": []}

    def pk(p):
        return parent_key(kind, pres, p.get("ns", "ns1") if scope == "ns" else "", p["name"])

    def syncs():
        st = []
        for p in parents:
            st += [{"s": "sync", "a": "A", "key": pk(p)}, {"s": "run", "a": "A"}]
        return st + [{"s": "drain"}]

    sched = syncs()
    for o in WORLD:
        if chg == 0:
            sched.append(dict(oref(o), s="ev", op="touch"))
        elif chg == 1:
            sched.append(dict(oref(o), s="ev", op="relabel", labels={"r": "9"}))
        else:
            sched.append(dict(oref(o), s="ev", op="delete"))
    sched += syncs()
    pref = {"res": pres, "name": "p"}
    if scope == "ns":
        pref["ns"] = "ns1"
    sched.append(dict(pref, s="ev", op="setfield", path=["spec", "x"], value="2"))
    # related objects change while the parent's new generation has not been synced yet (no cached customize answer for it);
    # with a second parent: the customize call for p's new generation FAILS once -- q (answer cached) is woken all the same
    if two:
        sched.append({"s": "hookfault", "hook": "customize", "code": 500})
    for o in (WORLD[0], WORLD[4], WORLD[6]):
        sched.append(dict(oref(o), s="ev", op="touch"))
    sched += syncs()
    for o in (WORLD[1], WORLD[3], WORLD[0]):
        sched.append(dict(oref(o), s="ev", op="touch"))
    return {"id": "%s-%s%d" % (sid, kind[:3], shift), "fam": "customize", "cfg": cfg, "objs": objs, "hook": hook, "sched": sched,
            "expect": {"model": {"err": bool(raw["err"]), "mixed": bool(raw["mixed"]), "foreign": bool(raw["foreign"]),
                                 "selected": raw["selected"] if isinstance(raw["selected"], list) else []}},
            "ops": ["chg%d" % chg, "alt%d" % alt, "two%d" % two], "err": bool(raw["err"]), "nrules": len(rules)}
