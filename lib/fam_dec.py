"""Family "dec": decorator target writes under interference (spec/Dec.tla, C16)."""
MARKER = "metacontroller.k8s.io/decorator-controller"


def named(v):
    return None if v == "none" else v


def convert(raw, sid):
    t0, ans = raw["t0"], raw["ans"]
    sub = bool(raw["sub"])
    sel = raw["sel"]
    res = "parents" if sub else "nostatus"
    kind = "Parent" if sub else "NoStatus"
    labels = {"keep": "yes"}
    ann = {"keepa": "yes"}
    if sel in ("both", "labelOnly"):
        labels["deco"] = "yes"
    if sel in ("both", "annOnly"):
        ann["adeco"] = "yes"
    if named(t0["lab"]):
        labels["k"] = t0["lab"]
    if named(t0["ann"]):
        ann["k"] = t0["ann"]
    target = {"res": res, "name": "p", "uid": "p1", "labels": labels, "ann": ann, "spec": {"x": "1"}, "fins": ["other.example/keep"]}
    if t0["st"] != "none":
        target["status"] = {"phase": t0["st"]}
    owner = [{"uid": "p1", "kind": kind, "name": "p", "ctrl": True}]

    def att(name, marker, ctrl=True):
        own = owner if ctrl else [{"uid": "p1", "kind": kind, "name": "p", "ctrl": False},
                                  {"uid": "f9", "kind": "Other", "name": "other", "av": "other.example/v1", "ctrl": True}]
        o = {"res": "things", "name": name, "uid": "c-" + name, "labels": {"app": "x"}, "spec": {"f1": "v1"}, "owners": own}
        if marker:
            o["ann"] = {MARKER: marker}
            o["la"] = {"f1": "v1"}
            o["laLabels"] = {"app": "x"}
            o["laAnn"] = {MARKER: marker}
        return o

    # handedover: carries our marker and still lists the target as a plain owner, but is controlled by somebody else now
    objs = [target, att("mine", "dc"), att("theirs", "other-dc"), att("plain", None), att("handedover", "dc", ctrl=False)]
    sync = {"prog": "const", "children": [{"res": "things", "name": "mine", "labels": {"app": "x"}, "spec": {"f1": "v1"}}]}
    if ans["lab"] != "unnamed":
        sync["setLabels"] = {"k": "<null>" if ans["lab"] == "null" else ans["lab"]}
    if ans["ann"] != "unnamed":
        sync["setAnnotations"] = {"k": "<null>" if ans["ann"] == "null" else ans["ann"]}
    if ans["st"] != "null":
        sync["status"] = {"phase": ans["st"]}
    key = "verif.example/v1:%s:ns1:p" % kind
    sched = [{"s": "sync", "a": "A", "key": key}]
    hist = raw["hist"] if isinstance(raw["hist"], list) else []
    for i, h in enumerate(hist):
        if h["t"] != "env":
            continue
        nxt = next((x for x in hist[i + 1:] if x["t"] == "req"), None)
        if nxt is None:
            sched.append({"s": "run", "a": "A"})
        else:
            sched.append({"s": "until", "a": "A", "res": res, "name": "p", "verb": nxt["verb"], "nth": 1})
        if h["op"] == "editspec":
            sched.append({"s": "env", "op": "setfield", "res": res, "name": "p", "path": ["spec", "x"], "value": "edited%d" % i})
        else:
            sched.append({"s": "env", "op": "setfield", "res": res, "name": "p", "path": ["metadata", "labels", "userlab"], "value": "u%d" % i})
    sched += [{"s": "run", "a": "A"}, {"s": "deliver"}, {"s": "sync", "a": "A", "key": key}, {"s": "run", "a": "A"}]
    style = raw.get("style", "ml")
    if style == "me":
        lsel = {"matchExpressions": [{"key": "deco", "operator": "In", "values": ["yes", "ja"]}]}
        asel = {"matchExpressions": [{"key": "adeco", "operator": "Exists", "values": []}]}
    elif style == "mixed":
        lsel = {"matchLabels": {"deco": "yes"}, "matchExpressions": [{"key": "keep", "operator": "Exists", "values": []}]}
        asel = {"matchAnnotations": {"keepa": "yes"}, "matchExpressions": [{"key": "adeco", "operator": "In", "values": ["yes"]}]}
    else:
        lsel = {"matchLabels": {"deco": "yes"}}
        asel = {"matchAnnotations": {"adeco": "yes"}}
    cfg = {"kind": "decorator", "parentRes": res, "children": [{"res": "things", "method": "InPlace"}],
           "dselLabels": lsel, "dselAnn": asel}
    return {"id": sid, "fam": "dec", "cfg": cfg, "objs": objs, "hook": {"sync": sync}, "sched": sched,
            "expect": {"model": {"final": raw["final"]}}}
