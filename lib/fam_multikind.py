"""Family "multikind": children of two resources with the same names, one update strategy each (spec/MultiKind.tla)."""
MARKER = "metacontroller.k8s.io/decorator-controller"


def convert(raw, sid):
    m1, m2 = raw["pair"]
    ctl = raw["ctl"]
    cfg = {"kind": ctl, "parentRes": "parents",
           "children": [{"res": "things", "method": m1}, {"res": "configmaps", "method": m2}]}
    parent = {"res": "parents", "name": "p", "uid": "p1",
              "spec": {"selector": {"matchLabels": {"app": "x"}}, "template": {"metadata": {"labels": {"app": "x"}}},
                       "rev": "1", "nonrev": "1", "names[]": ["a", "b"]}}
    prog = {"prog": "byParent", "res": "things", "also": [{"res": "configmaps"}]}
    if ctl == "composite":
        cfg["fieldPaths"] = ["spec.rev"]
        prog["status"] = {"phase": "x"}
        key = "ns1/p"
    else:
        cfg["dselLabels"] = {"matchLabels": {"deco": "yes"}}
        parent["labels"] = {"deco": "yes"}
        key = "verif.example/v1:Parent:ns1:p"
    pert = raw["pert"]
    rnd = [{"s": "sync", "a": "A", "key": key}, {"s": "run", "a": "A"}, {"s": "deliver"}]
    sched = []
    for r in range(int(raw["rounds"])):
        if r == 1:
            sched += [{"s": "env", "op": "setfield", "res": "parents", "name": "p", "path": ["spec", "rev"], "value": "2"}, {"s": "deliver"}]
        if pert["on"] and pert["round"] == r:
            res = "things" if pert["c"][0] == "Thing" else "configmaps"
            sched += [{"s": "env", "op": "delete", "res": res, "name": pert["c"][1]}, {"s": "deliver"}]
        sched += rnd
    fix = []
    for f in raw["final"]:
        fld = "spec.rev" if f["kind"] == "Thing" else "data.rev"
        fix.append({"kind": f["kind"], "ns": "ns1", "name": f["name"], "fields": {fld: "s:%d" % f["v"]}, "labels": {"app": "x"}})
    expect = {"fix": fix, "parentUid": "p1", "parentNs": "ns1", "marker": "dc" if ctl == "decorator" else "", "updatable": True,
              "model": {"final": raw["final"], "hist": raw["hist"]}}
    if ctl == "composite":
        expect["sel"] = {"ml": {"app": "x"}, "me": []}
    return {"id": sid, "fam": "multikind", "cfg": cfg, "objs": [parent], "hook": {"sync": prog}, "sched": sched, "expect": expect}


ORDER = [("Thing", "a"), ("Thing", "b"), ("ConfigMap", "a"), ("ConfigMap", "b")]


def drift(scenarios, events):
    """the model's child versions after EVERY round's sync vs the store as the requests left it"""
    cur, snaps = {}, {}
    for ev in events:
        sc = ev.get("sc")
        if ev.get("ev") == "Reset":
            cur[sc], snaps[sc] = {}, []
        elif ev.get("ev") in ("Req", "Env") and ev.get("kind") in ("Thing", "ConfigMap"):
            post = ev.get("post", {})
            if ev.get("ev") == "Req" and not (200 <= ev.get("code", 0) < 300):
                continue
            if post.get("live"):
                f = post.get("fields", {})
                v = f.get("spec.rev", f.get("data.rev", ""))
                cur.setdefault(sc, {})[(ev["kind"], ev["name"])] = int(v[2:]) if v.startswith("s:") and v[2:].isdigit() else -1
            else:
                cur.setdefault(sc, {}).pop((ev["kind"], ev["name"]), None)
        elif ev.get("ev") == "SyncEnd":
            snaps.setdefault(sc, []).append([cur.get(sc, {}).get(k, 0) for k in ORDER])
    n, ex = 0, []
    for sc in scenarios:
        want = [list(h) for h in sc["expect"]["model"]["hist"]]
        got = snaps.get(sc["id"], [])
        if got != want:
            n += 1
            if len(ex) < 5:
                i = next((j for j in range(min(len(got), len(want))) if got[j] != want[j]), -1)
                ex.append({"sc": sc["id"], "round": i, "model": want[i] if i >= 0 else len(want), "code": got[i] if i >= 0 else len(got),
                           "pair": sc["cfg"]["children"], "kind": sc["cfg"]["kind"]})
    return n, ex
