#!/usr/bin/env python3
"""Regenerates /verif/MANIFEST.json from the table below (keeps it valid at all times)."""
import json, os
VERIF = os.path.dirname(os.path.dirname(os.path.abspath(__file__)))
ALL = ["C%02d" % i for i in range(1, 21)]

TRUSTED = ("trusted base: TLC 1.8; the simulated API server (harness/verifsim, axioms E1-E8, re-checked on every trace by "
           "spec/TraceSync.tla!Axioms); the in-process webhook server; bounds of the TLA+ instances named in the evidence")

CHECKS = {
    "C02": dict(text="TLC checks the ownership invariants on the request-level model spec/Own.tla (all interleavings with environment "
                     "writers and stale caches); TLC enumerates every maximal behaviour of the bounded model as a scenario; each is replayed "
                     "on the real composite controller over the simulated API server and the recorded trace is validated by TLC against "
                     "spec/TraceSync.tla (monitors C02_WriteSafe, C02_WriteSafeObserved, C02_DeleteUidPrecond, C02_BornOwned). "
                     "Model checking is the right level: the property quantifies over interleavings at API-call granularity.",
                ref="DESIGN.md §8 C02", tech="TLA+ model + TLC behaviour enumeration replayed on real code + TLC trace validation"),
    "C04": dict(text="Same machinery as C02 with the ControllerRef monitors (C04_AdoptOnlyIf, C04_ReleaseShape, C04_OthersKept, "
                     "C04_OneController, C04_DyingParentPassive, C04_LabelGate, C04_GeneratedLabel); includes two parents racing for one "
                     "orphan with TLC-chosen request orders, and an anti-vacuity model without the CanAdopt recheck that TLC must reject.",
                ref="DESIGN.md §8 C04", tech="TLA+ model + TLC behaviour enumeration replayed on real code + TLC trace validation"),
}

def main():
    checks = []
    for p in ALL:
        if p not in CHECKS:
            continue
        c = CHECKS[p]
        checks.append({
            "property_id": p,
            "quick_cmd": "bin/check %s --tier quick" % p,
            "thorough_cmd": "bin/check %s --tier thorough" % p,
            "evidence_file": "/verif/evidence/%s.json" % p,
            "replay_cmd_template": "bin/check %s --replay {path}" % p,
            "engine": "tlc+go-replay",
            "level_claimed": {"category": c.get("cat", "model_checking"), "text": c["text"], "design_ref": c["ref"]},
            "level_note": c.get("note", TRUSTED),
            "technique": c["tech"],
        })
    na = [{"property_id": p, "reason": "check not built yet (work in progress; see DESIGN.md §14)"} for p in ALL if p not in CHECKS]
    m = {
        "version": 1,
        "setup_cmd": "bin/setup",
        "hooks": {"guard": "verif", "enable": "go test -overlay (harness files are overlaid, /repo is not modified; tag 'verif' reserved)",
                  "baseline_off_cmd": "cd /repo && GOFLAGS=-mod=mod GOPROXY=off GOSUMDB=off go test -vet=off -count=1 ./...",
                  "source_commits": [], "add_only": True},
        "engines": [
            {"name": "tlc-exhaustive", "path": "spec/MC_*.cfg", "serves_properties": sorted(CHECKS), "kind_free_text": "TLC exhaustive model checking of bounded instances"},
            {"name": "tlc-behaviours", "path": "spec/Beh_*.cfg", "serves_properties": sorted(CHECKS), "kind_free_text": "TLC enumeration of all maximal behaviours, printed as scenarios"},
            {"name": "go-replay", "path": "harness/", "serves_properties": sorted(CHECKS), "kind_free_text": "go test -overlay harness: real controllers over a simulated API server that doubles as scheduler gate"},
            {"name": "tlc-trace", "path": "spec/Trace*.tla", "serves_properties": sorted(CHECKS), "kind_free_text": "TLC trace validation of recorded executions with property monitors"},
        ],
        "checks": checks,
        "not_applicable": na,
        "notes": "exit 0 = held (possibly with KNOWN-FINDING lines from known_findings.txt), 1 = VIOLATION, 2 = inconclusive/broken machinery",
    }
    with open(os.path.join(VERIF, "MANIFEST.json"), "w") as fh:
        json.dump(m, fh, indent=1)

if __name__ == "__main__":
    main()
