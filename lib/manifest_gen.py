#!/usr/bin/env python3
"""Regenerates /verif/MANIFEST.json from the table below (keeps it valid at all times)."""
import json, os
VERIF = os.path.dirname(os.path.dirname(os.path.abspath(__file__)))
ALL = ["C%02d" % i for i in range(1, 21)]

TRUSTED = ("trusted base: TLC 1.8; the simulated API server (harness/verifsim, axioms E1-E8, re-checked on every trace by "
           "spec/TraceSync.tla!Axioms); the in-process webhook server; bounds of the TLA+ instances named in the evidence")

import sys
sys.path.insert(0, os.path.join(VERIF, "lib"))
import props  # noqa: E402
_, CHECKS = props._discover()

def main():
    checks = []
    for p in ALL:
        if p not in CHECKS:
            continue
        c = CHECKS[p]
        checks.append({
            "property_id": p,
            "quick_cmd": "bin/check %s --tier quick" % p,
            "thorough_cmd": "bin/check %s --tier thorough" % p,
            "evidence_file": "/verif/evidence/%s.json" % p,
            "replay_cmd_template": "bin/check %s --replay {path}" % p,
            "engine": "tlc+go-replay",
            "level_claimed": {"category": c.get("cat", "model_checking"), "text": c["text"], "design_ref": c["ref"]},
            "level_note": c.get("note", TRUSTED),
            "technique": c["tech"],
        })
    na = [{"property_id": p, "reason": "check not built yet (work in progress; see DESIGN.md §14)"} for p in ALL if p not in CHECKS]
    m = {
        "version": 1,
        "setup_cmd": "bin/setup",
        "hooks": {"guard": "verif", "enable": "go test -overlay (harness files are overlaid, /repo is not modified; tag 'verif' reserved)",
                  "baseline_off_cmd": "cd /repo && GOFLAGS=-mod=mod GOPROXY=off GOSUMDB=off go test -vet=off -count=1 ./...",
                  "source_commits": [], "add_only": True},
        "engines": [
            {"name": "tlc-exhaustive", "path": "spec/MC_*.cfg", "serves_properties": sorted(CHECKS), "kind_free_text": "TLC exhaustive model checking of bounded instances"},
            {"name": "tlc-behaviours", "path": "spec/Beh_*.cfg", "serves_properties": sorted(CHECKS), "kind_free_text": "TLC enumeration of all maximal behaviours, printed as scenarios"},
            {"name": "go-replay", "path": "harness/", "serves_properties": sorted(CHECKS), "kind_free_text": "go test -overlay harness: real controllers over a simulated API server that doubles as scheduler gate"},
            {"name": "tlc-trace", "path": "spec/Trace*.tla", "serves_properties": sorted(CHECKS), "kind_free_text": "TLC trace validation of recorded executions with property monitors"},
        ],
        "checks": checks,
        "not_applicable": na,
        "notes": "exit 0 = held (possibly with KNOWN-FINDING lines from known_findings.txt), 1 = VIOLATION, 2 = inconclusive/broken machinery",
    }
    with open(os.path.join(VERIF, "MANIFEST.json"), "w") as fh:
        json.dump(m, fh, indent=1)

if __name__ == "__main__":
    main()
