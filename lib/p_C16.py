"""C16 -- a decorator changes only labels, annotations, status and finalizer of its target."""
from props import sync_level, all_families, DECORATOR
import fam_dec, fam_fin
from plan_fin import FIN_PLAN

PLAN = {
    "pkgs": {"decorator": DECORATOR},
    "mc": {"quick": [("MC_Dec", "MC_Dec_q.cfg", None)], "thorough": [("MC_Dec", "MC_Dec_q.cfg", None)]},
    "beh": {
        "quick": [("MC_Dec", "Beh_Dec_q.cfg", fam_dec.convert, 1500),
                  ("MC_Fin", "Beh_Fin_t.cfg", lambda raw, sid: fam_fin.convert(raw, sid) if raw["kind"] == "decorator" else None, 400)],
        "thorough": [("MC_Dec", "Beh_Dec_t.cfg", fam_dec.convert, 0),
                     ("MC_Fin", "Beh_Fin_t6.cfg", lambda raw, sid: fam_fin.convert(raw, sid) if raw["kind"] == "decorator" else None, 0)],
    },
}

MANIFEST = dict(
    text="spec/Dec.tla models the decorator's target write at request granularity (selector conjunction, copy of the cached target, "
         "merge of the named label/annotation keys with null = delete, status rule, status endpoint first then main update with the "
         "new resourceVersion) interleaved with a user editing spec or labels; TLC checks SpecUntouched / OnlyNamed / StatusRule / "
         "Selected on the model and prints every behaviour (targets with and without status subresource, every answer, every "
         "selector combination, foreign finalizers, attachments of other decorators) as a scenario; the decorator life cycles of "
         "spec/Fin.tla are added for the finalizer clause; replayed on the real decorator controller; TLC validates the trace "
         "against spec/TraceSync.tla (C16_OnlyNamedKeys, C16_StatusRule, C16_FinalizerOnly, C16_SpecUntouched, C16_NoOpNoRequest, "
         "C16_Selected; attachments via C02/C03 monitors with the marker)."
         ' Selectors are written in three styles (matchLabels / matchAnnotations, matchExpressions, mixed); C16_Selected is judged on the target as the sync knows it after a finalizer update.',
    ref="DESIGN.md §8 C16",
    tech="TLA+ request-level model + TLC behaviour enumeration replayed on real code + TLC trace validation")


def run(scr, tier, replay_file):
    res = sync_level(scr, tier, "C16", "C16_", all_families(PLAN), replay_file)
    return res
