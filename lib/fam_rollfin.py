"""Family "rollfin": a parent deleted in the middle of a rolling update, finalize hook answering per revision
(spec/RollFin.tla, C10 'all revisions must agree')."""
FIN = "metacontroller.io/compositecontroller-cc"


def convert(raw, sid):
    child_cfg = {"res": "things", "method": raw["method"], "checks": [{"type": "Ready", "status": "True"}]}
    cfg = {"kind": "composite", "parentRes": "parents", "children": [child_cfg], "fieldPaths": ["spec.rev"], "finalize": True}
    parent = {"res": "parents", "name": "p", "uid": "p1",
              "spec": {"selector": {"matchLabels": {"app": "x"}}, "template": {"metadata": {"labels": {"app": "x"}}},
                       "rev": "1", "nonrev": "1", "names[]": ["a", "b", "c"]}}
    hook = {"sync": {"prog": "byParent", "res": "things", "status": {"phase": "x"}},
            "finalize": {"prog": "byParent", "res": "things", "status": {"phase": "x"},
                         "finalizedByRev": {"1": bool(raw["finOld"]), "2": bool(raw["finLatest"])}}}
    key = "ns1/p"
    rnd = [{"s": "sync", "a": "A", "key": key}, {"s": "run", "a": "A"}, {"s": "deliver"}]
    heal = [{"s": "env", "op": "heal", "res": "things", "name": n} for n in ("a", "b", "c")] + [{"s": "deliver"}]
    sched = rnd + heal + rnd + heal
    sched += [{"s": "env", "op": "setfield", "res": "parents", "name": "p", "path": ["spec", "rev"], "value": "2"}, {"s": "deliver"}]
    if raw["twoLive"]:
        # one rollout step only (child a moved, never healed): revisions 1 and 2 are both live when the parent is deleted
        sched += rnd
    else:
        for _ in range(10):
            sched += rnd + heal
    if raw.get("staleOrphan"):
        # somebody strips the owner references of the ControllerRevisions (delivered), then the parent is deleted -- it stays,
        # held by a foreign finalizer -- WITHOUT the deletion being delivered: the next sync works from a stale parent
        parent["fins"] = ["verif/hold"]
        cfg["finalize"] = False
        hook.pop("finalize", None)
        sched += [{"s": "env", "op": "setowners", "res": "controllerrevisions", "name": "*", "owners": []}, {"s": "deliver"},
                  {"s": "env", "op": "delete", "res": "parents", "name": "p"}]
        sched += [{"s": "sync", "a": "A", "key": key}, {"s": "run", "a": "A"}, {"s": "deliver"}]
        sched += rnd
        return {"id": sid, "fam": "rollfin", "cfg": cfg, "objs": [parent], "hook": hook, "sched": sched,
                "expect": {"model": {"mayAdopt": raw["mayAdopt"]}}}
    sched += [{"s": "env", "op": "delete", "res": "parents", "name": "p"}, {"s": "deliver"}]
    for _ in range(3):
        sched += rnd
    import json as _json
    # the rolling monitors need to know which ControllerRevision stands for which value of the revisioned field
    rolling = {"patchOf": {"s:%d" % v: _json.dumps({"spec": {"rev": str(v)}}, separators=(",", ":"), sort_keys=True) for v in (1, 2, 3)},
               "revOrder": {"s:%d" % v: v for v in (1, 2, 3)}, "parentUid": "p1"}
    return {"id": sid, "fam": "rollfin", "cfg": cfg, "objs": [parent], "hook": hook, "sched": sched,
            "expect": dict(rolling, model={"mayRemove": raw["mayRemove"]})}
