"""C02 -- only objects the parent controls are ever modified or deleted."""
from props import sync_level, all_families
from plan_own import OWN_PLAN

MANIFEST = dict(
    text="TLC checks the ownership invariants on the request-level model spec/Own.tla (all interleavings with environment "
         "writers and stale caches); TLC enumerates every maximal behaviour of the bounded model as a scenario; each is replayed "
         "on the real composite controller over the simulated API server and the recorded trace is validated by TLC against "
         "spec/TraceSync.tla (monitors C02_WriteSafe, C02_WriteSafeObserved, C02_DeleteUidPrecond, C02_BornOwned). "
         "Model checking is the right level: the property quantifies over interleavings at API-call granularity.",
    ref="DESIGN.md §8 C02",
    tech="TLA+ model + TLC behaviour enumeration replayed on real code + TLC trace validation")


def run(scr, tier, replay_file):
    return sync_level(scr, tier, "C02", "C02_", all_families(OWN_PLAN), replay_file)
