"""C18 -- shared informers live while subscribed to; subscribers are isolated."""
import json, random, time

import vlib
import fam_informers as fam

MANIFEST = dict(
    text="spec/Informers.tla models the factory (refCount, sharedInformers), subscriptions, the per-subscription handler lists "
         "of the shared event handler, the underlying informer (running, cache), add-time replay, private resync timers, fan-out, "
         "remove and close AS WRITTEN, next to a specification-level state (open subscriptions, added/removed handlers, server "
         "store); the clauses C18_RunningIffSubscribed, C18_StopOnLast, C18_FreshAfterRestart, C18_Replay, C18_Complete, "
         "C18_Silent, C18_Isolation are predicates over (specification state, last operation, observation) and are checked by "
         "TLC on ALL operation sequences up to the bound (3 subscribers x 2 resources x 2 objects, <=6 / <=8 operations, timer "
         "ticks interleaved; history hidden by VIEW; anti-vacuity configs with seeded model deviations). TLC then enumerates "
         "every canonical operation sequence of the bounded instance with what the property expects after each operation; each "
         "is executed on the REAL SharedInformerFactory over the simulated API server (barrier after every operation: WATCH "
         "count, then fence events seen by every open lister and every entitled handler); the recorded observations (active "
         "WATCHes, LIST calls, lister contents, events per handler, events after removal) are validated by TLC against "
         "spec/TraceInformers.tla, which evaluates the SAME clause definitions as monitors. Thorough: the same operations from "
         "concurrent goroutines under go test -race (C18_NoRace, C18_NoPanic, final state judged by the same clauses)."
         ' Composed operations: addev (an event arrives while a handler is being added), remev (handlers removed while an event is being broadcast), subx with a resource that discovery learns about only later (a failed subscribe must leave nothing behind).',
    ref="DESIGN.md §8 C18",
    tech="TLA+ model + TLC exhaustive check + TLC behaviour enumeration replayed on real code + TLC trace validation; "
         "Go race detector as observation device for the concurrent clause",
    note="trusted base: TLC 1.8; the simulated API server's LIST/WATCH (harness/verifsim); the barrier of the driver (an event "
         "is considered settled when a later fence event of the same resource has been seen by every entitled handler; a "
         "barrier that times out is recorded as such and is only a verdict if a clause fails on the recorded observation, "
         "otherwise the run is inconclusive); Go's race detector for the concurrent clause; bounds named in the evidence")

ASSUMPTIONS = [
    "E8 watch events are delivered in order (simulated API server, harness/verifsim)",
    "operations follow the API protocol: handlers are added through an open subscription; a subscription is closed once; "
    "RemoveEventHandlers may come before or after Close",
    "about handlers of a closed subscription that were never removed the statement is silent: nothing is required or forbidden",
    "an event still queued inside the informer when a handler is added (no entitled handler existed to fence it) may reach "
    "that handler after its replay; it is tolerated for that handler only (TraceInformers!InFlightNext)",
    "resync replays OnUpdate(o,o) of any version the object had are tolerated in any number",
    "data races are observed by Go's race detector (no TLA+ tool sees memory accesses); schedules are those the Go runtime "
    "produces for the TLC-generated concurrent programmes",
]

PLAN = {
    "quick": dict(mc=[("MC_Informers_quick.cfg", None, 6)],
                  beh=[("Beh_Informers_q.cfg", 10000), ("Beh_Informers_q6.cfg", 2500)], race=0),
    "thorough": dict(mc=[("MC_Informers_full.cfg", None, 10), ("MC_Informers_quick.cfg", None, 4)],
                     beh=[("Beh_Informers_q.cfg", 0), ("Beh_Informers_t.cfg", 90000), ("Beh_Informers_t7.cfg", 20000)], race=20000),
}


def _finish(scr, scenarios, traces, shard_scn, tlc_runs, states, trans, exhaustive, t_extra):
    hits, drift, st, tr = fam.validate(scr, traces)
    states += st
    trans += tr
    run, lines, unsettled, nontrivial = fam.trace_stats(traces)
    if unsettled and not hits:
        raise vlib.Inconclusive("%d operation(s) did not settle within the barrier timeout although no clause fails on the "
                                "recorded observations (dead or overloaded driver)" % unsettled)
    by_id = {s["id"]: s for s in scenarios}
    by_id.update(shard_scn)
    cache = {}

    def getter(sc):
        if not cache:
            for t in traces:
                for ev in vlib.read_trace(t):
                    cache.setdefault(ev.get("sc"), []).append(ev)
        return cache.get(sc, [])

    samples = []
    for s in scenarios[:2]:
        samples.append({"scenario": s["id"], "mode": s["mode"], "ops": fam.ops_of(s),
                        "observed": [{"w": e["w"], "lists": e["lists"], "recv": e["recv"]} for e in getter(s["id"]) if e.get("ev") == "Op"]})
    extra = {"trace_lines": lines, "unsettled_lines": unsettled, "scenarios_run": run, "scenarios_given": len(scenarios),
             "drift_examples": drift[:3]}
    extra.update(t_extra)
    return {"states": states, "transitions": trans, "traces": run, "hits": hits, "scenarios": by_id, "trace_getter": getter,
            "samples": samples, "evaluations": run, "distinct_nontrivial": nontrivial, "drift": len(drift),
            "rule": "scenarios = every canonical operation sequence of the bounded TLA+ instance (length = bound; shorter ones are "
                    "their prefixes and are judged line by line), enumerated by TLC; non-trivial = some handler received an event",
            "exhaustive": exhaustive, "tlc_runs": tlc_runs, "extra": extra, "assumptions": ASSUMPTIONS}


def run(scr, tier, replay_file):
    rng = random.Random(vlib.seed())
    tlc_runs, states, trans = [], 0, 0
    if replay_file:
        payload = json.load(open(replay_file))
        sc = payload["scenario"]
        if sc.get("mode") in ("race-shard", "seq-shard"):
            scs = sc["scenarios"]
            traces, shard_scn = fam.run_shards(scr, scs, "C18r", "TestVerifRace" if sc["mode"] == "race-shard" else "TestVerifReplay",
                                               race=sc["mode"] == "race-shard", shards=1)
        elif sc.get("mode") == "race":
            scs = [dict(sc, id="%s#%d" % (sc["id"], k), seed=sc.get("seed", 0) + k) for k in range(50)]
            traces, shard_scn = fam.run_shards(scr, scs, "C18r", "TestVerifRace", race=True, shards=4)
        else:
            scs = [sc]
            traces, shard_scn = fam.run_shards(scr, scs, "C18r", "TestVerifReplay", shards=1)
        return _finish(scr, scs, traces, shard_scn, tlc_runs, states, trans, False, {})

    plan = PLAN[tier]
    # 1. design level: the model of the code satisfies the clauses on all bounded sequences,
    #    and every clause is violated by some seeded deviation of the model
    jobs = list(plan["mc"]) + [(c, e, 2) for c, e in fam.MUTANT_CFGS]
    for r in fam.mc_many(scr, jobs, par=4):
        tlc_runs.append(r)
        states += r["distinct"]
        trans += r["states"]
    # 2. behaviours
    scenarios, exhaustive = [], True
    for cfg, quota in plan["beh"]:
        r, raws = fam.behaviours(scr, cfg)
        tlc_runs.append(r)
        states += r["distinct"]
        trans += r["states"]
        tag = cfg.replace(".cfg", "").replace("Beh_Informers_", "inf-")
        scs = [fam.convert(raw, "%s-%06d" % (tag, i), seed=i) for i, raw in enumerate(raws)]
        if quota and len(scs) > quota:
            exhaustive = False
            core = [s for s in scs if fam.is_core(s)]
            rng2 = random.Random(vlib.seed() * 7919 + len(scs))
            rng2.shuffle(core)
            scs = vlib.sample(scs, quota, rng, core=core[:quota // 4])
        scenarios += scs
    # 3. replay on the real code (crashes inside the code under test become Detector lines)
    t0 = time.time()
    traces, shard_scn = fam.run_shards(scr, scenarios, "C18", "TestVerifReplay")
    t_replay = time.time() - t0
    extra = {"replay_wall_s": round(t_replay, 1)}
    # 4. thorough: the same operations from concurrent goroutines under the race detector
    if plan["race"]:
        # (the composed operations place an event INSIDE another operation themselves and the late resource orders a failed
        # subscribe before the others: neither makes sense when the operations run unordered)
        plain = ("sub", "add", "rem", "close", "oadd", "oupd", "odel")
        pool = [s for s in scenarios if len({st["op"]["s"] for st in s["steps"] if st["op"]["s"]}) >= 2
                and not s.get("late") and all(st["op"]["t"] in plain for st in s["steps"])]
        rng.shuffle(pool)
        rsc = [dict(s, id=s["id"] + "-race", mode="race", seed=vlib.seed() * 1000003 + k) for k, s in enumerate(pool[:plan["race"]])]
        t0 = time.time()
        rtraces, rshard = fam.run_shards(scr, rsc, "C18race", "TestVerifRace", race=True)
        extra["race_wall_s"] = round(time.time() - t0, 1)
        extra["race_scenarios"] = len(rsc)
        scenarios = scenarios + rsc
        traces += rtraces
        shard_scn.update(rshard)
    return _finish(scr, scenarios, traces, shard_scn, tlc_runs, states, trans, exhaustive, extra)
