"""Shared plan of the convergence family (spec/Conv.tla), used by C01, C03 and C06."""
import fam_conv, fam_multikind
from props import COMPOSITE, DECORATOR

CONV_PLAN = {
    "pkgs": {"composite": COMPOSITE, "decorator": DECORATOR},
    "mc": {
        "quick": [("MC_Conv", "MC_Conv_q.cfg", None), ("MC_MultiKind", "MC_MultiKind.cfg", None)],
        "thorough": [("MC_Conv", "MC_Conv_q.cfg", None), ("MC_Conv", "MC_Conv_t.cfg", None), ("MC_MultiKind", "MC_MultiKind.cfg", None)],
    },
    "beh": {
        "quick": [("MC_Conv", "Beh_Conv_t.cfg", fam_conv.convert, 1000), ("MC_MultiKind", "Beh_MultiKind.cfg", fam_multikind.convert, 200)],
        "thorough": [("MC_Conv", "Beh_Conv_t.cfg", fam_conv.convert, 0), ("MC_MultiKind", "Beh_MultiKind.cfg", fam_multikind.convert, 0)],
    },
}
