"""Family "lifecycle" (C20): spec/Lifecycle.tla + spec/MC_Lifecycle.tla (model, bounded
instances, behaviour enumeration, configuration matrix), spec/TraceLifecycle.tla (trace
validation), harness/verifsim/lifecycle_ext.go + harness/{composite,decorator}/
verif_lifecycle_test.go (replay on the real Metacontroller.Reconcile of both kinds).

This module only moves data: TLC output -> scenario files -> go test -> trace files ->
TLC.  Every judgement about the property is taken in TLA+ (MONITOR lines)."""
import concurrent.futures as cf
import json, os, random, re

import vlib

PKGS = {"composite": "pkg/controller/composite", "decorator": "pkg/controller/decorator"}
MODULE = "MC_Lifecycle"
RUN = "TestVerifLifecycle"
CODE_FRAME = re.compile(r"metacontroller/pkg/(?!internal/verifsim)[^\n]*\n\s+\S*/pkg/(?!internal/verifsim)(?!\S*_test\.go)\S+\.go:\d+")

# (cfg, invariant expected to be violated or None, workers)
MC_INTENDED = {"quick": ["MC_Lifecycle_quick.cfg", "MC_Lifecycle_quick_dec.cfg"],
               "thorough": ["MC_Lifecycle_thorough.cfg", "MC_Lifecycle_thorough_dec.cfg", "MC_Lifecycle_quick.cfg", "MC_Lifecycle_quick_dec.cfg"]}
# the model of the code AS WRITTEN, one deviation left in at a time: TLC must find the counterexample
MC_CODE = [("MC_Lifecycle_code_etag.cfg", "Inv_OnePerObject"),
           ("MC_Lifecycle_code_stale.cfg", "Inv_RestartOnSpec"),
           ("MC_Lifecycle_code_dup.cfg", "Inv_QuietAfterStop")]
# anti-vacuity: a seeded deviation of the model must violate the named clause
MC_MUT = [("MC_Lifecycle_mut_keepOnDelete.cfg", "Inv_StopOnDelete"),
          ("MC_Lifecycle_mut_noRestart.cfg", "Inv_RestartOnSpec"),
          ("MC_Lifecycle_mut_alwaysRestart.cfg", "Inv_NoopOnSame"),
          ("MC_Lifecycle_mut_leakOnFail.cfg", "Inv_BadConfigInert"),
          ("MC_Lifecycle_mut_stopKeepsSubs.cfg", "Inv_QuietAfterStop"),
          ("MC_Lifecycle_mut_stopKeepsHandlers.cfg", "Inv_RestartOnSpec"),
          ("MC_Lifecycle_mut_zombie.cfg", "Inv_QuietAfterStop"),
          ("MC_Lifecycle_mut_noStart.cfg", "Inv_OnePerObject")]


# --------------------------------------------------------------------------------------
# TLC on the model


def _violated(out):
    return re.findall(r"Invariant (\S+) is violated", out)


def _tlc_broken(r):
    out = r["out"]
    if r["timeout"]:
        return True
    if re.search(r"Error: (?!Invariant|The behavior|Temporal|Action property)", out) or "TLC threw" in out \
            or "Parsing or semantic analysis failed" in out:
        return True
    return "states generated" not in out


def mc(scr, cfg, expect=None, workers=4, timeout=1500):
    """Exhaustive check of a bounded instance.  A failure here is a defect of the
    specification (inconclusive), never a verdict about the code."""
    r = vlib.tlc(scr, MODULE, cfg, workers=workers, timeout=timeout, heap="4g")
    if _tlc_broken(r):
        raise vlib.Inconclusive("TLC failed on %s/%s:\n%s" % (MODULE, cfg, r["out"][-2000:]))
    viol = _violated(r["out"])
    if expect:
        if expect not in viol:
            raise vlib.Inconclusive("config %s: expected %s to be violated by the modelled deviation, got %s" % (cfg, expect, viol))
    elif viol:
        raise vlib.Inconclusive("model %s/%s violates %s (specification defect)" % (MODULE, cfg, viol))
    elif "No error has been found" not in r["out"]:
        raise vlib.Inconclusive("TLC did not complete on %s:\n%s" % (cfg, r["out"][-1500:]))
    return {"cfg": cfg, "states": r["states"], "distinct": r["distinct"], "wall_s": round(r["wall"], 1), "expect_violation": expect}


def mc_many(scr, jobs, par=4):
    with cf.ThreadPoolExecutor(max_workers=par) as ex:
        return list(ex.map(lambda j: mc(scr, j[0], j[1], workers=j[2]), jobs))


def kind_cfg(scr, cfg, kind):
    """The behaviour configs are written for kind composite; the decorator variant is the
    same file with the constant Kind replaced (generated in the scratch copy only)."""
    if kind == "composite":
        return cfg
    src = open(os.path.join(scr.spec, cfg)).read()
    if 'Kind = "composite"' not in src:
        raise vlib.Inconclusive("config %s has no Kind constant to replace" % cfg)
    out = cfg.replace(".cfg", "_%s.cfg" % kind)
    with open(os.path.join(scr.spec, out), "w") as fh:
        fh.write(src.replace('Kind = "composite"', 'Kind = "%s"' % kind))
    return out


def behaviours(scr, cfg, kind, timeout=1500):
    """returns (run record, list of scenario dicts without ids)"""
    c = kind_cfg(scr, cfg, kind)
    r = vlib.tlc(scr, MODULE, c, workers=1, timeout=timeout, heap="6g")
    if _tlc_broken(r) or _violated(r["out"]):
        raise vlib.Inconclusive("TLC behaviour enumeration failed on %s:\n%s" % (c, r["out"][-2000:]))
    pal = [json.loads(p) for p in vlib.tagged(r["out"], "PAL")]
    var = [json.loads(p) for p in vlib.tagged(r["out"], "VAR")]
    raws = [json.loads(p) for p in vlib.tagged(r["out"], "SCN")]
    mtx = [json.loads(p) for p in vlib.tagged(r["out"], "MTX")]
    if not raws and not mtx:
        raise vlib.Inconclusive("behaviour enumeration %s produced no scenario" % c)
    if raws and (len(pal) != 1 or len(var) != 1):
        raise vlib.Inconclusive("behaviour enumeration %s did not print its palette" % c)
    run = {"cfg": c, "states": r["states"], "distinct": r["distinct"], "behaviours": len(raws) + len(mtx), "wall_s": round(r["wall"], 1)}
    scs = []
    for i, raw in enumerate(raws):
        scs.append(convert(raw, pal[0], var[0], i))
    for raw in mtx:
        scs.append(convert_mx(raw))
    return run, scs


def convert(raw, pal, var, i):
    """TLC's record -> scenario for the Go driver.  Pure data movement: spec ids become
    strings, the traits of each id used are attached; where the specification lists
    alternatives of the same class for an id (MCVariants), they are taken in turn."""
    used = sorted({st["op"]["s"] for st in raw["steps"] if st["op"]["s"]})
    specs, seen = {}, []
    for sid in used:
        alts = var[sid - 1] if sid - 1 < len(var) and var[sid - 1] else [pal[sid - 1]]
        t = alts[(i * 7 + sid * 3) % len(alts)]
        if t in seen:                       # distinct ids must stay distinct configurations
            t = pal[sid - 1]
        seen.append(t)
        specs[str(sid)] = t
    steps = []
    for k, st in enumerate(raw["steps"]):
        op = dict(st["op"])
        op["s"] = str(op["s"]) if op["s"] else "-"
        step = {"op": op, "want": st["want"]}
        # variant (every third scenario): the event that stops an instance arrives while a sync of that instance is IN
        # FLIGHT (its hook call is being answered); the driver lets the answer go once the reconciler is waiting
        if i % 2 == 0 and k > 0 and op["t"] in ("delete", "update"):
            step["inflight"] = True
        steps.append(step)
    return {"fam": "lifecycle", "kind": raw["kind"], "nn": raw["nn"], "specs": specs, "steps": steps}


def convert_mx(raw):
    specs = {str(k + 1): t for k, t in enumerate(raw["specs"])}
    steps = []
    for st in raw["steps"]:
        op = dict(st["op"])
        op["s"] = str(op["s"]) if op["s"] else "-"
        steps.append({"op": op, "want": st["want"]})
    return {"fam": "lifecycle", "kind": raw["kind"], "nn": raw["nn"], "specs": specs, "steps": steps, "matrix": True}


def ops_of(sc):
    return ["%s(%d%s)" % (st["op"]["t"], st["op"]["n"], "," + st["op"]["s"] if st["op"]["s"] != "-" else "") for st in sc["steps"]]


def is_core(sc):
    """scenarios always kept when a tier samples: a restart onto the same configuration
    (create A, ..., back to A), or both names alive at once"""
    ts = [(st["op"]["t"], st["op"]["n"], st["op"]["s"]) for st in sc["steps"]]
    specs = [s for t, n, s in ts if n == 1 and t in ("create", "update")]
    again = len(specs) != len(set(specs))
    both = any(n == 2 for t, n, s in ts)
    return again or both


def pins(scs, per=2):
    """witnesses always kept when a tier samples (by what the scenario contains, nothing is
    judged here): a configuration that lists a child resource twice and is stopped later; a
    sync hook with etag.cacheTimeoutSeconds but no cacheCleanupSeconds; a running controller
    whose parent resource is changed to one without CRD / without status subresource."""
    def dup_stop(sc):
        cur = {}
        for st in sc["steps"]:
            t, n, s = st["op"]["t"], st["op"]["n"], st["op"]["s"]
            if t in ("update", "delete") and cur.get(n):
                return True
            if t in ("create", "update"):
                k = sc["specs"][s]["kids"]
                cur[n] = len(k) != len(set(k))
            if t == "delete":
                cur[n] = False
        return False

    def etag(sc):
        return any(sp["hooks"] == "set" and sp["sync"]["etag"] == "timeout" and (sp["sync"]["url"] or (sp["sync"]["svc"] == "ok" and sp["sync"]["path"]))
                   for sp in sc["specs"].values())

    def stale(sc):
        ran = {}
        for st in sc["steps"]:
            t, n, s = st["op"]["t"], st["op"]["n"], st["op"]["s"]
            if t == "update" and ran.get(n) and sc["specs"][s]["par"] in ("ghost", "ns"):
                return True
            if t in ("create", "update"):
                ran[n] = st["want"][n - 1]["c"] == "must"
            if t == "delete":
                ran[n] = False
        return False

    out = []
    for pred in (dup_stop, etag, stale):
        out += [s for s in scs if pred(s)][:per]
    return out


# --------------------------------------------------------------------------------------
# replay


def scan_output(out):
    crash = bool(re.search(r"^(panic:|fatal error:)", out, re.M))
    machinery = "MACHINERY" in out
    where, code_crash = "", False
    if crash:
        m = re.search(r"^(panic:|fatal error:).*", out, re.M | re.S)
        tail = m.group(0)[:8000] if m else ""
        first = tail.split("\n\ngoroutine", 2)
        head = "\n\ngoroutine".join(first[:2])
        code_crash = bool(CODE_FRAME.search(head))
        where = tail.split("\n")[0][:200]
        fr = CODE_FRAME.findall(head)
        if fr:
            where += " @ " + fr[0].split("\n")[0].strip()[:120]
    return {"crash": crash, "code_crash": code_crash, "where": where, "machinery": machinery}


def _good_lines(path):
    out = []
    if os.path.exists(path):
        for l in open(path):
            try:
                out.append(json.loads(l))
            except Exception:
                break
    return out


def run_shards(scr, scenarios, tag, shards=None, timeout=2400):
    """Replays scenarios (dicts with id and kind) on the real code; returns (trace files
    with their kind, crash scenarios).  A crash of the test process inside the code under
    test is an observation: a Crash line is appended for the scenario that was running and
    the rest of the shard is replayed in a fresh process.  Everything else that makes the
    driver fail is broken machinery."""
    shards = shards or 3 * vlib.NCPU
    jobs = []
    for kind, pkg in PKGS.items():
        part = [s for s in scenarios if s["kind"] == kind]
        if not part:
            continue
        binary = vlib.build_test_binary(scr, pkg)
        for i, p in enumerate(vlib.shard(part, shards)):
            jobs.append((kind, binary, "%s-%s-%d" % (tag, kind, i), p))

    def one(job):
        kind, binary, name, todo = job
        files, crashes, rnd = [], {}, 0
        while todo:
            rnd += 1
            scn, trc = scr.path("%s.r%d.scn.ndjson" % (name, rnd)), scr.path("%s.r%d.trace.ndjson" % (name, rnd))
            with open(scn, "w") as fh:
                for s in todo:
                    fh.write(json.dumps(s, separators=(",", ":")) + "\n")
            rc, out = vlib.run_test_binary(binary, RUN, {"VERIF_SCN": scn, "VERIF_TRACE": trc}, timeout=timeout)
            if rc == 0:
                files.append(trc)
                break
            sco = scan_output(out)
            if rc == 124:
                raise vlib.Inconclusive("driver timed out (shard %s):\n%s" % (name, out[-2000:]))
            if sco["machinery"] or not sco["crash"]:
                raise vlib.Inconclusive("driver failed (rc=%d, shard %s):\n%s" % (rc, name, out[-3000:]))
            if not sco["code_crash"]:
                raise vlib.Inconclusive("driver crashed outside the code under test (shard %s):\n%s" % (name, out[-4000:]))
            good = _good_lines(trc)
            ids = [s["id"] for s in todo]
            # the scenario that was running: the one of the last line if it is incomplete, else the next one
            cur = 0
            if good:
                last = good[-1]["sc"]
                if last not in ids:
                    raise vlib.Inconclusive("cannot attribute the crash of shard %s" % name)
                cur = ids.index(last)
                nlife = sum(1 for e in good if e["sc"] == last and e["ev"] == "Life")
                if nlife >= len(todo[cur]["steps"]) and cur + 1 < len(ids):
                    cur += 1
            crashed = ids[cur]
            with open(trc, "w") as fh:
                for e in good:
                    fh.write(json.dumps(e, separators=(",", ":")) + "\n")
                fh.write(json.dumps({"ev": "Crash", "sc": crashed, "i": (good[-1]["i"] + 1) if good else 1, "where": sco["where"]}) + "\n")
            crashes[crashed] = out[-6000:]
            files.append(trc)
            todo = todo[cur + 1:]
        return kind, files, crashes

    traces, crashes = [], {}
    with cf.ThreadPoolExecutor(max_workers=shards) as ex:
        for kind, files, cr in ex.map(one, jobs):
            traces += [(kind, f) for f in files]
            crashes.update(cr)
    return traces, crashes


def merge(scr, traces, tag, per_kind=8):
    """concatenates the shard traces into a few files per kind (one JVM per file)"""
    out = []
    for kind in PKGS:
        files = [f for k, f in traces if k == kind and os.path.getsize(f) > 0]
        if not files:
            continue
        n = max(1, min(per_kind, len(files)))
        for j in range(n):
            path = scr.path("%s-%s-merged-%d.ndjson" % (tag, kind, j))
            with open(path, "w") as fh:
                for f in files[j::n]:
                    fh.write(open(f).read())
            out.append((kind, path))
    return out


# --------------------------------------------------------------------------------------
# trace validation


def validate(scr, traces, timeout=1500):
    """TLC trace validation.  returns hits, drift, states, transitions"""
    hits, broken, drift = [], [], []
    states = trans = 0
    env_fixed = {k: v for k, v in os.environ.items() if k.startswith("VERIF_FIX_")}

    def one(kt):
        kind, trc = kt
        env = {"VERIF_TRACE": trc, "VERIF_KIND": kind}
        env.update(env_fixed)
        return trc, vlib.tlc(scr, "TraceLifecycle", "TraceLifecycle.cfg", workers=1, timeout=timeout, env=env, heap="3g")

    with cf.ThreadPoolExecutor(max_workers=min(vlib.NCPU, 8)) as ex:
        for trc, r in ex.map(one, traces):
            if r["timeout"]:
                raise vlib.Inconclusive("trace validation timed out on %s" % trc)
            n = sum(1 for _ in open(trc))
            if r["error"] or r["violated"] or "No error has been found" not in r["out"]:
                raise vlib.Inconclusive("trace validation failed on %s (the trace specification rejected the trace, or TLC error):\n%s"
                                        % (trc, r["out"][-3000:]))
            if r["distinct"] != n + 1:
                raise vlib.Inconclusive("trace %s not fully consumed: %d states for %d lines" % (trc, r["distinct"], n))
            states += r["distinct"]
            trans += r["states"]
            for pl in vlib.tagged(r["out"], "MONITOR"):
                prop, name, sig, sc, i, facts = pl.split("|", 5)
                hits.append({"prop": prop, "name": name, "sig": sig, "sc": sc, "i": int(i), "facts": facts, "trace": trc})
            for pl in vlib.tagged(r["out"], "BROKEN"):
                broken.append(pl)
            for pl in vlib.tagged(r["out"], "DRIFT"):
                drift.append(pl)
    if broken:
        raise vlib.Inconclusive("harness and specification disagree (machinery): %s" % broken[:3])
    return hits, drift, states, trans


def trace_stats(traces):
    """counting only (nothing here judges): scenarios, lines, per event kind, lines where an
    instance existed before a stop-type event, scenarios with hook calls, unsettled lines"""
    st = {"scenarios": 0, "lines": 0, "unsettled": 0, "events": {}, "stops": 0, "starts": 0, "panics": 0,
          "reflection_unavailable": 0, "hook_calls": 0, "api_writes": 0}
    nontrivial = set()
    for _, t in traces:
        prev = None
        for ev in vlib.read_trace(t):
            if ev.get("ev") == "Reset":
                st["scenarios"] += 1
                prev = None
                continue
            if ev.get("ev") != "Life":
                continue
            st["lines"] += 1
            st["events"][ev["op"]["t"]] = st["events"].get(ev["op"]["t"], 0) + 1
            if not ev.get("settled", True):
                st["unsettled"] += 1
            if ev.get("panic"):
                st["panics"] += 1
            if not ev.get("refl", True):
                st["reflection_unavailable"] += 1
            st["hook_calls"] += ev.get("ncalls", 0)
            st["api_writes"] += ev.get("nwrites", 0)
            if ev.get("ncalls", 0):
                nontrivial.add(ev["sc"])
            ids = {r["id"] for r in ev["running"] if r["has"]}
            pids = {r["id"] for r in prev["running"] if r["has"]} if prev else set()
            st["starts"] += len(ids - pids)
            st["stops"] += len(pids - ids)
            prev = ev
    st["nontrivial"] = len(nontrivial)
    return st
