"""Plan of the rolling-update family (spec/Rolling.tla), used by C07, C08, C09."""
import fam_roll
from props import COMPOSITE

ROLL_PLAN = {
    "pkgs": {"composite": COMPOSITE},
    "mc": {
        "quick": [("MC_Rolling", "MC_Rolling_q.cfg", None), ("MC_Rolling", "MC_Rolling_code.cfg", "C08_Linear")],
        "thorough": [("MC_Rolling", "MC_Rolling_q.cfg", None), ("MC_Rolling", "MC_Rolling_t.cfg", None), ("MC_Rolling", "MC_Rolling_code.cfg", "C08_Linear")],
    },
    "beh": {
        "quick": [("MC_Rolling", "Beh_Rolling_q.cfg", fam_roll.convert, 500)],
        "thorough": [("MC_Rolling", "Beh_Rolling_q.cfg", fam_roll.convert, 0), ("MC_Rolling", "Beh_Rolling_t.cfg", fam_roll.convert, 6000)],
    },
    "drift": fam_roll.drift,
    "drift_fam": "roll",
}
