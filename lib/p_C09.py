"""C09 -- rollout intent is persisted before acting; any crash resumes consistently."""
import random
from props import sync_level
from plan_roll import ROLL_PLAN
import fam_roll, fam_rollfin, vlib


def crash_conv(kind):
    """every rollout plan x a crash (or an API error) after the n-th request of the r-th sync"""
    def conv(raw, sid):
        # the position is derived from the scenario id so that the set is reproducible; every (round, n)
        # of the early rollout rounds is covered across the plans (exhaustively in the thorough tier)
        h = int(sid.rsplit("-", 1)[1])
        rounds = [1, 2, 3, 4, 5]
        r = rounds[h % len(rounds)]
        n = (h // len(rounds)) % 9
        if kind == "revfault":
            # an API error on exactly the k-th ControllerRevision create / update / delete of the r-th sync
            r = [1, 2, 3][h % 3]
            verb = ["create", "update", "delete"][(h // 3) % 3]
            code = [500, 409, 404, 422, 0][(h // 9) % 5]
            k = (h // 45) % 2
            return fam_roll.convert(raw, sid + "-revfault-r%d-%s-k%d-c%d" % (r, verb, k, code),
                                    fault=(r, k, code, {"verb": verb, "res": "controllerrevisions"}))
        if kind == "crash":
            return fam_roll.convert(raw, sid + "-crash-r%d-n%d" % (r, n), crash=(r, n))
        code = [500, 409, 404, 422, 0][(h // 45) % 5]
        return fam_roll.convert(raw, sid + "-fault-r%d-n%d-c%d" % (r, n, code), fault=(r, n, code))
    return conv


PLAN = dict(ROLL_PLAN)
PLAN["beh"] = {
    "quick": [("MC_Rolling", "Beh_Rolling_q.cfg", crash_conv("crash"), 300), ("MC_Rolling", "Beh_Rolling_q.cfg", crash_conv("fault"), 150),
              ("MC_Rolling", "Beh_Rolling_q.cfg", crash_conv("revfault"), 150), ("RollFin", "Beh_RollFin.cfg", fam_rollfin.convert, 0)],
    "thorough": [("MC_Rolling", "Beh_Rolling_q.cfg", crash_conv("crash"), 0), ("MC_Rolling", "Beh_Rolling_q.cfg", crash_conv("fault"), 0),
                 ("MC_Rolling", "Beh_Rolling_q.cfg", crash_conv("revfault"), 0), ("RollFin", "Beh_RollFin.cfg", fam_rollfin.convert, 0),
                 ("MC_Rolling", "Beh_Rolling_t.cfg", crash_conv("crash"), 4000)],
}
PLAN["drift"] = None

MANIFEST = dict(
    text="The rollout plans of spec/Rolling.tla are replayed with a crash (process state discarded, caches rebuilt, SSA memo reset) or "
         "an injected API error after the n-th request of the r-th sync, for every n and the early rollout rounds; the run then "
         "continues to the linear bound.  TLC validates the trace against spec/TraceSync.tla: C09_RevisionsFirst / C09_FailStops "
         "(order of ControllerRevision and child writes within each sync), C09_OneClaim (after every completed sync), C09_NotAhead "
         "(an invariant of EVERY reconstructed store state, i.e. at every cut point: no child's content is newer than the newest "
         "revision claiming it), and C08_Done as SameEnd (the crashed run reaches the final state of the uninterrupted run)."
         " Faults are also aimed at exactly the k-th ControllerRevision create / update / delete (revfault); C09_RecordedFirst: a child is written with revision v's content only once the store records that it belongs to v.",
    ref="DESIGN.md §8 C09",
    tech="TLA+ model + TLC-enumerated rollout plans x crash/fault positions replayed on real code + TLC trace validation",
    cat="model_checking")


def run(scr, tier, replay_file):
    res = sync_level(scr, tier, "C09", "C09_,C08_Done", PLAN, replay_file)
    return res
