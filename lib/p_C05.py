"""C05 -- apply is a three-way merge that never clobbers what it does not own."""
import json

import vlib
import fam_merge as fm

MANIFEST = dict(
    text="spec/Merge.tla states the laws of the three-way merge declaratively over tagged JSON trees (containment, clash => error, "
         "removal, preservation incl. order of foreign list-map entries, system fields/status/last-applied of ApplyUpdate, "
         "idempotence, purity, totality) next to a transcription of apply.Merge/ApplyUpdate as coded and as intended. TLC "
         "enumerates every triple (observed, last-applied, desired) of a bounded universe (spec/MC_Merge.tla: one TLC state per "
         "triple; one-key roots over ~70 depth-2 values, two/three-key roots, list-maps under every conventional merge key and "
         "under none, pairs of conventional keys, depth-4 nestings, whole objects with metadata/status, merge keys that differ "
         "only in JSON type), checks the laws on the transcription and prints each triple; every triple is replayed on the REAL "
         "apply.Merge and ApplyUpdate (overlay harness: results, errors, panics, mutation of inputs, second application) and TLC "
         "(spec/TraceMerge.tla) evaluates the laws on the Go result of every case. Seeded random triples up to depth 5 are judged "
         "the same way. Model checking is the right level: the property quantifies over all triples of a bounded universe and its "
         "laws interact; coverage-guided byte-level fuzzing is not claimed.",
    ref="DESIGN.md §8 C05",
    tech="TLA+ laws + TLC exhaustive enumeration of input triples replayed on real code + TLC judgement of the recorded results")

RANDOM = {"quick": 3000, "thorough": 20000}

ASSUMPTIONS = [
    "inputs are JSON objects as the k8s decoders produce them (integers int64, other numbers float64); a nil []interface{} in a result counts as null (what reaches the wire)",
    "exhaustive bound: spec/MC_Merge.tla universe (depth <= 3 plus the depth-4 family), list-map entries with unique values under every conventional key they share; random triples to depth 5",
    "list-map convention as documented in docs/src/api/apply.md (all entries objects sharing a conventional key, fixed precedence), evaluated over the arrays of observed, last-applied and desired at the place",
    "a null desired value is accepted with any outcome (the statement is silent); an observed scalar replaced by a desired container is not a clash",
    "the text of the last-applied annotation is compared after parsing; byte-level fuzzing of decoders is out of reach of TLC and not claimed",
]


def run(scr, tier, replay_file):
    tlc_runs = []
    states = trans = 0
    exhaustive = True
    if replay_file:
        payload = json.load(open(replay_file))
        sc = payload["scenario"]
        if not sc:
            raise vlib.Inconclusive("replay file %s carries no scenario" % replay_file)
        cases = [sc]
        exhaustive = False
    else:
        cases, mc, r = fm.enumerate_cases(scr, tier)
        tlc_runs.append(mc)
        states += r["distinct"]
        trans += r["states"]
        rnd = fm.random_cases(RANDOM[tier])
        cases = cases + rnd
    by_id = {c["id"]: c for c in cases}
    if len(by_id) != len(cases):
        raise vlib.Inconclusive("duplicate case ids")
    traces = fm.replay(scr, cases)
    hits, drift, st, tr = fm.judge(scr, traces)
    states += st
    trans += tr
    tlc_runs.append({"cfg": "TraceMerge.cfg", "files": len(traces), "states": st})
    picks = [c["id"] for c in cases[:1]] + [h["sc"] for h in hits[:1]] + [c["id"] for c in cases if c["fam"] == "random"][:1]
    wanted = set(h["sc"] for h in hits) | set(picks)
    counts, lines, _ = fm.scan(traces, wanted)
    if counts["total"] != len(cases):
        raise vlib.Inconclusive("harness executed %d of %d cases" % (counts["total"], len(cases)))

    def getter(sc):
        return [lines[sc]] if sc in lines else []

    samples = []
    for c in [by_id[p] for p in picks]:
        ev = lines.get(c["id"])
        if ev:
            samples.append({"case": c["id"], "observed": fm.show(c["o"]), "lastApplied": fm.show(c["l"]), "desired": fm.show(c["d"]),
                            "go_merge": ev["m"]["err"] or fm.show(ev["m"]["r"]),
                            "go_applyupdate": ev["a"]["err"] or fm.show(ev["a"]["r"]),
                            "monitor_hits": sorted(set(h["name"] for h in hits if h["sc"] == c["id"]))})
    coded = sum(1 for sc, w in drift if not (w["mergeCoded"] and w["applyCoded"]))
    intended = sum(1 for sc, w in drift if not (w["mergeIntended"] and w["applyIntended"]))
    drift_ex = [{"case": sc, "o": fm.show(by_id[sc]["o"]), "l": fm.show(by_id[sc]["l"]), "d": fm.show(by_id[sc]["d"]), "agrees": w}
                for sc, w in drift if not ((w["mergeCoded"] and w["applyCoded"]) if coded <= intended else (w["mergeIntended"] and w["applyIntended"]))][:3]
    per_mon = {}
    for h in hits:
        k = "%s/%s" % (h["name"], h["sig"])
        per_mon[k] = per_mon.get(k, 0) + 1
    # The transcription exists in two variants (guard as coded / as intended, Merge.tla Part 2);
    # the recorded results drift only if they follow neither of them consistently.
    variant = "as coded (type-clash guard dead)" if coded <= intended else "as intended (type-clash guard live)"
    return {"states": states, "transitions": trans, "traces": counts["total"], "hits": hits,
            "scenarios": {sc: dict(by_id[sc], text={"observed": fm.show(by_id[sc]["o"]), "lastApplied": fm.show(by_id[sc]["l"]),
                                                     "desired": fm.show(by_id[sc]["d"])}) for sc in wanted if sc in by_id}, "trace_getter": getter, "samples": samples,
            "drift": min(coded, intended), "evaluations": counts["total"] + counts["applied"], "distinct_nontrivial": counts["nontrivial"],
            "rule": "cases = every triple of the bounded universe enumerated by TLC (one state per triple) plus seeded random triples; "
                    "each is executed on the real apply.Merge and ApplyUpdate and judged by TLC; non-trivial = apply.Merge returned an "
                    "error or a result different from observed; evaluations = Merge runs + ApplyUpdate runs judged",
            "exhaustive": exhaustive, "tlc_runs": tlc_runs, "assumptions": ASSUMPTIONS,
            "extra": {"cases_per_family": counts["per_fam"], "merge_errors_returned": counts["errors"],
                      "hits_per_monitor_and_signature": per_mon,
                      "transcription_variant_followed_by_the_code": variant,
                      "drift_vs_transcription_as_coded": coded, "drift_vs_transcription_as_intended": intended,
                      "drift_examples": drift_ex,
                      "random_max_depth": max([max(fm.depth_of(c["o"]), fm.depth_of(c["d"])) for c in cases if c["fam"] == "random"] + [0])}}
