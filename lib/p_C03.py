"""C03 -- the hook sees exactly the children the parent owns, in the documented shape."""
from props import sync_level, all_families
from plan_conv import CONV_PLAN

MANIFEST = dict(
    text="spec/Conv.tla models a whole sync (observe, claim, hook, diff, act) for composite and decorator controllers and every "
         "update method; TLC checks convergence (liveness under weak fairness), quiescence and the linear bound on it, and prints "
         "every initial cluster content x configuration x hook programme as a scenario with the fixpoint and the number of syncs "
         "the model needs; each scenario is replayed on the real controllers over the simulated API server and TLC validates the "
         "recorded trace against spec/TraceSync.tla: C03_ViewExact (group keys Kind.apiVersion present even when empty, inner keys name or namespace/name, exactly the owned objects after this sync's adoptions/releases) and C03_NsDefault.",
    ref="DESIGN.md §8 C03",
    tech="TLA+ model (TLC liveness + invariants) + TLC-enumerated initial states replayed on real code + TLC trace validation")


def run(scr, tier, replay_file):
    return sync_level(scr, tier, "C03", "C03_", all_families(CONV_PLAN), replay_file)
