"""C19 -- hook transport: only 200 / a valid 304 is an answer; cached bodies match their ETag;
429 -> Retry-After; strict / loose decoding; for every interleaving of concurrent calls."""
import concurrent.futures as cf
import json, random

import vlib
import fam_hook

PKG = "pkg/hooks"
MODULE = "MC_Hook"

MANIFEST = dict(
    text="spec/HookTransport.tla models one webhook executor with its ETag cache and 2-3 concurrent hook calls as "
         "Enrich / Serve / Adjust steps (plus cache expiry), in a variant that says what the code does and a variant that says "
         "what C19 states; TLC checks the five clauses (C19_OkOnly, C19_Body304, C19_ErrElse, C19_Retry429, C19_Strict) over all "
         "interleavings and all hook answers (spec/MC_Hook_*.cfg). TLC then prints every maximal behaviour of the bounded instances "
         "(sequential matrix status x ETag x Retry-After x body class x mode x ETag on/off x cache state x key relation; all "
         "interleavings of 2 and 3 concurrent calls) as a scenario; each is replayed on the REAL executor built by hooks.NewHook "
         "(real metrics-wrapped http.Client, real zcache) with the in-process hook server as the scheduler gate, and the recorded "
         "steps are validated by TLC against spec/TraceHook.tla, which drives the actions of HookTransport.tla with the logged values "
         "and evaluates the same clause operators as monitors. Model checking is the right level: the property quantifies over "
         "interleavings at enrich / round-trip / adjust granularity and over a finite product of answer shapes."
         ' A timed-out hook answers late but well-formed (the in-process transport honours the request context): a client with a stale timeout would accept it.',
    ref="DESIGN.md §8 C19",
    tech="TLA+ model + TLC exhaustive check + TLC behaviour enumeration replayed on real code + TLC trace validation")

# (cfg, invariant expected to be violated on the model of the code | None)
MC = {
    "quick": [("MC_Hook_int2.cfg", None), ("MC_Hook_intseq.cfg", None), ("MC_Hook_intkey.cfg", None), ("MC_Hook_int3.cfg", None),
              ("MC_Hook_code304.cfg", "C19_Body304"), ("MC_Hook_codeStrict.cfg", "C19_Strict"),
              ("MC_Hook_codesig2.cfg", None), ("MC_Hook_codesigseq.cfg", None), ("MC_Hook_codesig3.cfg", None)],
    "thorough": [("MC_Hook_int2.cfg", None), ("MC_Hook_intseq.cfg", None), ("MC_Hook_intkey.cfg", None), ("MC_Hook_int3.cfg", None),
                 ("MC_Hook_int3f.cfg", None),
                 ("MC_Hook_code304.cfg", "C19_Body304"), ("MC_Hook_codeStrict.cfg", "C19_Strict"),
                 ("MC_Hook_codesig2.cfg", None), ("MC_Hook_codesigseq.cfg", None), ("MC_Hook_codesig3.cfg", None),
                 ("MC_Hook_codesig3f.cfg", None)],
}
# (cfg, quota: 0 = replay every behaviour, n = fixed core + VERIF_SEED-chosen slice of n)
BEH = {
    "quick": [("Beh_Hook_seq_q.cfg", 0), ("Beh_Hook_conc2.cfg", 0), ("Beh_Hook_key.cfg", 0), ("Beh_Hook_conc2q.cfg", 0), ("Beh_Hook_xfl.cfg", 0),
              ("Beh_Hook_conc3_q.cfg", 0)],
    "thorough": [("Beh_Hook_seq_t.cfg", 0), ("Beh_Hook_conc2.cfg", 0), ("Beh_Hook_conc2x.cfg", 0), ("Beh_Hook_key.cfg", 0),
                 ("Beh_Hook_conc2q.cfg", 0), ("Beh_Hook_xfl.cfg", 0), ("Beh_Hook_conc3_t.cfg", 0), ("Beh_Hook_conc3s_t.cfg", 0)],
}
MONITORS = ["C19_OkOnly", "C19_Body304", "C19_ErrElse", "C19_Retry429", "C19_Strict"]

ASSUMPTIONS = [
    "bounds: one executor (one ETag cache); a priming call then 2 or 3 concurrent calls with the same cache key (plus a call about a "
    "parent that differs in namespace / name / kind only); sequential matrix of priming x main x probing call; at most one expiry",
    "interleaving granularity: header enrichment / round trip / response adjustment, realised with handshakes around the in-process "
    "hook server (a call parked inside http.Client.Do is between Enrich and Adjust); steps of different calls do not overlap in time",
    "hook answers: status in {200,201,202,204,206,302,304,400,404,410,412,429,500,503, transport error, client timeout}; ETag header "
    "present/absent; Retry-After absent / integer / RFC1123 date (clock injected through the executor's `now`, 750 ms into the second) "
    "/ garbage; body valid / unknown field / duplicate field / invalid JSON / empty / wrong type",
    "Retry-After: absent or garbage is read as delay 0; negative integers and dates in the past are executed but not judged",
    "cache expiry is realised by cacheTimeoutSeconds=1 and waiting 1.08 s; the clause 'a valid 304 is accepted' is only judged when no "
    "entry can have timed out unnoticed (ttl 3600 s, or < 0.4 s since the last wait)",
    "the in-process hook server (harness/verifsim/hooks.go) stands in for the network; the client timeout is the real http.Client.Timeout",
    "the nil dereference of NewWebhookExecutor for etag{cacheTimeoutSeconds set, cacheCleanupSeconds unset} belongs to C20; both fields are set here",
]


def _tlc_all(scr, tier):
    """all TLC runs that do not depend on /repo, in parallel (each is small)"""
    jobs = [("mc", cfg, exp) for cfg, exp in MC[tier]] + [("beh", cfg, q) for cfg, q in BEH[tier]]

    def one(job):
        kind, cfg, arg = job
        if kind == "mc":
            return job, vlib.tlc(scr, MODULE, cfg, workers=4, timeout=1500, heap="4g")
        return job, vlib.tlc(scr, MODULE, cfg, workers=1, timeout=1500, heap="6g")

    out = []
    with cf.ThreadPoolExecutor(max_workers=5) as ex:
        for job, r in ex.map(one, jobs):
            out.append((job, r))
    return out


def _check_tlc(results):
    tlc_runs, raws_by_cfg = [], {}
    states = trans = 0
    for (kind, cfg, arg), r in results:
        if r["timeout"] or r["error"]:
            raise vlib.Inconclusive("TLC failed on %s/%s:\n%s" % (MODULE, cfg, r["out"][-2000:]))
        rec = {"cfg": cfg, "states": r["states"], "distinct": r["distinct"], "wall_s": round(r["wall"], 1)}
        if kind == "mc":
            if arg:
                if arg not in r["violated"]:
                    raise vlib.Inconclusive("anti-vacuity config %s: expected %s to be violated on the model of the code, it was not" % (cfg, arg))
                rec["expect_violation"] = arg
            elif r["violated"]:
                raise vlib.Inconclusive("model %s/%s violates %s (specification defect)" % (MODULE, cfg, r["violated"]))
        else:
            if r["violated"]:
                raise vlib.Inconclusive("behaviour enumeration %s reported %s" % (cfg, r["violated"]))
            raws = [json.loads(p) for p in vlib.tagged(r["out"], "SCN")]
            if not raws:
                raise vlib.Inconclusive("behaviour enumeration %s produced no scenario" % cfg)
            raws_by_cfg[cfg] = raws
            rec["behaviours"] = len(raws)
        tlc_runs.append(rec)
        states += r["distinct"]
        trans += r["states"]
    return tlc_runs, raws_by_cfg, states, trans


def _is_core(sc):
    """scenarios always kept when a tier samples: the model of the code and the property disagree"""
    for m, w in zip(sc["model"]["calls"], sc["want"]):
        if w["k"] in ("ok", "err", "retry") and m["out"]["k"] not in ("skip", "none") and m["out"]["k"] != w["k"]:
            return True
        if w["k"] == "ok" and m["out"]["k"] == "ok" and m["out"]["body"]["id"] != w["body"]:
            return True
    return False


def _call_table(events):
    """join Enrich / Serve / Adjust of each real call"""
    calls, cur, par = [], {}, None
    for ev in events:
        k = ev["ev"]
        if k == "Reset":
            cur, par = {}, ev["par"]
        elif k == "Enrich":
            cur[ev["c"]] = {"sc": ev["sc"], "c": ev["c"], "par": par, "key": ev["key"], "inm": ev["inm"]}
        elif k == "Serve":
            cur[ev["c"]]["ans"] = ev["ans"]
        elif k == "Adjust":
            c = cur[ev["c"]]
            c["out"] = ev["out"]
            calls.append(c)
    return calls


def run(scr, tier, replay_file):
    rng = random.Random(vlib.seed())
    tlc_runs, states, trans = [], 0, 0
    scenarios = []
    exhaustive = True
    if replay_file:
        payload = json.load(open(replay_file))
        sc = payload.get("scenario")
        if not sc or "go" not in sc:
            raise vlib.Inconclusive("replay file %s carries no C19 scenario" % replay_file)
        scenarios = [sc]
    else:
        tlc_runs, raws_by_cfg, states, trans = _check_tlc(_tlc_all(scr, tier))
        for cfg, quota in BEH[tier]:
            scs = [fam_hook.convert(raw, "%s-%05d" % (cfg.replace(".cfg", "").replace("Beh_Hook_", ""), i))
                   for i, raw in enumerate(raws_by_cfg[cfg])]
            if quota and len(scs) > quota:
                exhaustive = False
                core = [s for s in scs if _is_core(s)][:max(1, quota // 4)]
                scs = vlib.sample(scs, quota, rng, core=core)
            scenarios += scs
    by_id = {s["id"]: s for s in scenarios}
    traces = vlib.replay(scr, PKG, [s["go"] for s in scenarios], "C19", run="TestVerifHookReplay")
    hits, st, tr = vlib.validate_traces(scr, traces, module="TraceHook", cfg="TraceHook.cfg")
    states += st
    trans += tr
    for h in hits:
        h.pop("trace", None)
    mine = [h for h in hits if h["name"] in MONITORS]
    drift_hits = [h for h in hits if h["name"] == "DRIFT"]
    stray = [h for h in hits if h["name"] not in MONITORS and h["name"] != "DRIFT"]
    # report order: the shortest witness of every (monitor, signature) class first, so that the first
    # VIOLATION lines show every class and not twenty instances of one
    mine.sort(key=lambda h: (len(by_id[h["sc"]]["go"]["sched"]) if h["sc"] in by_id else 99, h["sc"], h["i"]))
    first, rest, seen_cls = [], [], set()
    for h in mine:
        cls = (h["name"], h["sig"])
        (rest if cls in seen_cls else first).append(h)
        seen_cls.add(cls)
    mine = first + rest
    if stray:
        raise vlib.Inconclusive("trace validation printed unknown monitor names: %s" % sorted({h["name"] for h in stray}))

    # ---- evidence ---------------------------------------------------------------------------
    events = []
    for t in traces:
        events += list(vlib.read_trace(t))
    calls = _call_table(events)
    want_sc = {h["sc"] for h in mine}
    ev_by_sc = {}
    for ev in events:
        if ev["sc"] in want_sc:
            ev_by_sc.setdefault(ev["sc"], []).append(ev)
    not_code = {h["sc"] for h in drift_hits if h["sig"] in ("not-code", "neither", "inm")}
    not_int = {h["sc"] for h in drift_hits if h["sig"] in ("not-intended", "neither", "inm")}
    conforms = "code" if len(not_code) <= len(not_int) else "intended"
    ndrift = min(len(not_code), len(not_int))
    drift_examples = [{"sc": h["sc"], "line": h["i"], "kind": h["sig"], "facts": h["facts"][:400]}
                      for h in drift_hits if h["sig"] in ("neither", "inm") or
                      (conforms == "code" and h["sig"] == "not-code") or (conforms == "intended" and h["sig"] == "not-intended")][:5]

    def case_of(c):
        a, o, p = c["ans"], c["out"], c["par"]
        return (p["etagOn"], p["mode"], c["key"], c["inm"] != 0, a["st"], a["etag"] != 0, a["ra"]["form"], a["ra"]["v"],
                a["body"]["cls"], o["k"], o["body"]["cls"])

    def trivial(c):
        a = c["ans"]
        return a["st"] == 200 and a["body"]["cls"] == "valid" and c["inm"] == 0 and c["par"]["mode"] == "loose"

    nontrivial_sc = {c["sc"] for c in calls if not trivial(c)}
    concurrent_sc = sum(1 for s in scenarios if fam_hook.concurrent(s))
    ante = {
        "C19_OkOnly(outcome ok)": sum(1 for c in calls if c["out"]["k"] == "ok"),
        "C19_Body304(ok on 304/412)": sum(1 for c in calls if c["out"]["k"] == "ok" and c["ans"]["st"] in (304, 412)),
        "C19_Body304(ok on 200)": sum(1 for c in calls if c["out"]["k"] == "ok" and c["ans"]["st"] == 200),
        "C19_ErrElse(bad status/transport/undecodable)": sum(1 for c in calls if c["ans"]["st"] not in (200, 304, 412, 429) or
                                                             c["ans"]["body"]["cls"] in ("badjson", "empty", "wrongtype")),
        "C19_Retry429(status 429)": sum(1 for c in calls if c["ans"]["st"] == 429),
        "C19_Strict(strict mode, 200)": sum(1 for c in calls if c["par"]["mode"] == "strict" and c["ans"]["st"] == 200),
        "C19_Strict(304/412 with If-None-Match)": sum(1 for c in calls if c["ans"]["st"] in (304, 412) and c["inm"] != 0),
    }
    by_sig = {}
    for h in mine:
        k = "%s/%s" % (h["name"], h["sig"])
        by_sig.setdefault(k, set()).add(h["sc"])
    by_sig = {k: len(v) for k, v in sorted(by_sig.items())}
    for k, n in by_sig.items():
        print("NOTE: property=C19 monitor/signature %s: %d scenario(s)" % (k, n))
    print("NOTE: property=C19 real executor conforms to the model variant %r (drift vs code model: %d, vs intended model: %d scenario(s))"
          % (conforms, len(not_code), len(not_int)))

    samples = []
    shown = set()
    for h in mine[:200]:
        if h["name"] + h["sig"] in shown or len(samples) >= 3:
            continue
        shown.add(h["name"] + h["sig"])
        s = by_id.get(h["sc"])
        samples.append({"scenario": h["sc"], "monitor": h["name"], "sig": h["sig"], "sched": fam_hook.sched_str(s) if s else "",
                        "facts": h["facts"][:300]})
    for s in scenarios[:2]:
        samples.append({"scenario": s["id"], "sched": fam_hook.sched_str(s),
                        "outcomes": [[c["c"], c["inm"], c["ans"]["st"], c["out"]["k"], c["out"]["body"]["id"]] for c in calls if c["sc"] == s["id"]]})

    return {"states": states, "transitions": trans, "traces": len(scenarios), "hits": mine, "other_hits": {},
            "scenarios": by_id, "trace_getter": lambda sc: ev_by_sc.get(sc, []), "samples": samples, "drift": ndrift,
            "evaluations": len(calls), "distinct_nontrivial": len(nontrivial_sc),
            "rule": "scenarios = maximal behaviours of the bounded instances of spec/HookTransport.tla enumerated by TLC; evaluations = "
                    "real hooks.Hook.Call invocations executed and judged; non-trivial = the scenario has a call that is not a plain "
                    "loose-mode 200/valid-body call without If-None-Match",
            "exhaustive": exhaustive, "tlc_runs": tlc_runs, "assumptions": ASSUMPTIONS,
            "extra": {"real_calls": len(calls), "distinct_call_cases": len({case_of(c) for c in calls}),
                      "scenarios_with_concurrency": concurrent_sc,
                      "scenarios_rerun_because_of_timing": sum(1 for ev in events if ev["ev"] == "Reset" and ev.get("attempt", 1) > 1), "monitor_antecedents": ante, "hits_by_monitor_and_signature": by_sig,
                      "conforms_to_variant": conforms, "drift_vs_code_model": len(not_code), "drift_vs_intended_model": len(not_int),
                      "drift_examples": drift_examples}}
