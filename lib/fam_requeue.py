"""Family "requeue": work-queue discipline of one sync (spec/Requeue.tla): Forget / AddRateLimited / AddAfter for every
outcome x resyncAfterSeconds value (per revision during a rolling update).  Concretisation only."""
import json

RESYNC_MS = {"0": 0, "5": 5000, "9": 9000, "-3": 0, "0.5": 500}


def _val(r):
    return None if r["txt"] == "none" else json.loads(r["txt"])


def convert(raw, sid):
    kind, outcome = raw["kind"], raw["outcome"]
    des = {"res": "things", "name": "a", "labels": {"app": "x"}, "spec": {"f1": "v1"}}
    pre, test_sync = [], 0
    if kind == "decorator":
        parent = {"res": "parents", "name": "p", "uid": "p1", "labels": {"deco": "yes"}, "spec": {"x": "1"}}
        cfg = {"kind": "decorator", "parentRes": "parents", "children": [{"res": "things", "method": "InPlace"}],
               "dselLabels": {"matchLabels": {"deco": "yes"}}}
        prog = {"prog": "const", "children": [des], "status": {"n": "1"}}
        if _val(raw["r1"]) is not None:
            prog["resync"] = _val(raw["r1"])
        key = "verif.example/v1:Parent:ns1:p"
        api_fault = {"s": "fault", "a": "A", "code": 500, "verb": "create", "res": "things", "name": "a"}
    elif kind == "composite":
        parent = {"res": "parents", "name": "p", "uid": "p1", "spec": {"selector": {"matchLabels": {"app": "x"}}}}
        cfg = {"kind": "composite", "parentRes": "parents", "children": [{"res": "things", "method": "InPlace"}]}
        prog = {"prog": "const", "children": [des], "status": {"ok": "1"}}
        if _val(raw["r1"]) is not None:
            prog["resync"] = _val(raw["r1"])
        key = "ns1/p"
        api_fault = {"s": "fault", "a": "A", "code": 500, "verb": "create", "res": "things", "name": "a"}
    else:
        # rolling: revision 1 (old) and revision 2 (latest) are both live at the sync under test
        parent = {"res": "parents", "name": "p", "uid": "p1",
                  "spec": {"selector": {"matchLabels": {"app": "x"}}, "template": {"metadata": {"labels": {"app": "x"}}},
                           "rev": "1", "nonrev": "1", "names[]": ["a", "b"]}}
        cfg = {"kind": "composite", "parentRes": "parents", "children": [{"res": "things", "method": "RollingInPlace"}], "fieldPaths": ["spec.rev"]}
        by = {}
        if _val(raw["r2"]) is not None:
            by["1"] = _val(raw["r2"])
        if _val(raw["r1"]) is not None:
            by["2"] = _val(raw["r1"])
        prog = {"prog": "byParent", "res": "things", "status": {"phase": "x"}, "resyncByRev": by}
        key = "ns1/p"
        rnd = [{"s": "sync", "a": "A", "key": key}, {"s": "run", "a": "A"}, {"s": "deliver"}]
        heal = [{"s": "env", "op": "heal", "res": "things", "name": n} for n in ("a", "b")] + [{"s": "deliver"}]
        pre = rnd + heal + rnd + [{"s": "env", "op": "setfield", "res": "parents", "name": "p", "path": ["spec", "rev"], "value": "2"}, {"s": "deliver"}]
        test_sync = 2
        api_fault = {"s": "fault", "a": "A", "code": 500, "verb": "update", "res": "things"}
    sched = list(pre)
    if outcome == "hook500":
        sched.append({"s": "hookfault", "hook": "sync", "code": 500})
    elif outcome == "hook429":
        sched.append({"s": "hookfault", "hook": "sync", "code": 429})
    elif outcome == "apiErr":
        sched.append(api_fault)
    nsync = 2
    if outcome == "outage":
        sched.append({"s": "hookfault", "hook": "sync", "code": 500, "n": 13 if kind != "rolling" else 26})
        nsync = 16
    for _ in range(nsync):
        sched += [{"s": "sync", "a": "A", "key": key}, {"s": "run", "a": "A"}, {"s": "deliver"}]
    return {"id": sid, "fam": "requeue", "cfg": cfg, "objs": [parent], "hook": {"sync": prog}, "sched": sched,
            "expect": {"resyncMs": RESYNC_MS, "parentUid": "p1",
                       "model": {"result": raw["result"], "after": sorted(raw["after"]) if isinstance(raw["after"], list) else [],
                                 "final": raw["final"], "testSync": test_sync}}}


def drift(scenarios, events):
    """the model's queue operations vs those of the sync under test"""
    ends = {}
    for ev in events:
        if ev.get("ev") == "SyncEnd":
            ends.setdefault(ev["sc"], []).append(ev)
    n, ex = 0, []
    for sc in scenarios:
        m = sc["expect"]["model"]
        es = ends.get(sc["id"], [])
        if len(es) <= m["testSync"]:
            n += 1
            continue
        e = es[m["testSync"]]
        ops = [q["op"] for q in e["queue"]]
        after = sorted(q["d"] for q in e["queue"] if q["op"] == "AddAfter")
        got = {"result": e["result"], "after": after, "final": ops[-1] if ops else ""}
        want = {"result": m["result"], "after": m["after"], "final": m["final"]}
        if got != want:
            n += 1
            if len(ex) < 5:
                ex.append({"sc": sc["id"], "model": want, "code": got, "queue": e["queue"]})
    return n, ex
