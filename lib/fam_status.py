"""Family "status": the parent status write under interference (spec/Status.tla, C11)."""

VARIANT = {
    "absent": None,
    "empty": {},
    "nested": {"a": {"b": "c"}, "n": 3},
    "ownObsGen": {"observedGeneration": 99, "x": "1"},
    "conditions": {"conditions[]": [{"type": "Ready", "status": "True"}], "x": "1"},
}


def status_of(variant):
    v = VARIANT[variant]
    return v


def convert(raw, sid):
    sv = raw["sv"]
    child = {"res": "things", "name": "a", "labels": {"app": "x"}, "spec": {"f1": "v1"}}
    sync = {"prog": "const", "children": [child]}
    if VARIANT[sv] is not None:
        sync["status"] = VARIANT[sv]
    p0 = raw["p0"]
    parent = {"res": "parents", "name": "p", "uid": "p1", "spec": {"selector": {"matchLabels": {"app": "x"}}}}
    if p0["st"] == "old":
        parent["status"] = {"ok": "0", "observedGeneration": 1}
    elif p0["st"] == "des":
        st = dict(VARIANT[sv] or {})
        st = {k.replace("[]", "[]"): v for k, v in st.items()}
        st["observedGeneration"] = 1
        parent["status"] = st
    sched = []
    if raw["childFail"]:
        sched.append({"s": "fault", "a": "A", "code": 500, "verb": "create"})
    if raw["fault"]:
        sched.append({"s": "fault", "a": "A", "code": raw["fault"], "verb": "updateStatus"})
    sched.append({"s": "sync", "a": "A", "key": "ns1/p"})
    hist = raw["hist"] if isinstance(raw["hist"], list) else []
    gets = puts = 0
    for i, h in enumerate(hist):
        if h["t"] == "req":
            if h["verb"] == "get":
                gets += 1
            else:
                puts += 1
            continue
        nxt = next((x for x in hist[i + 1:] if x["t"] == "req"), None)
        if nxt is None:
            sched.append({"s": "run", "a": "A"})
        elif nxt["verb"] == "get":
            sched.append({"s": "until", "a": "A", "res": "parents", "name": "p", "verb": "get", "afterHook": True, "nth": gets + 1})
        else:
            sched.append({"s": "until", "a": "A", "res": "parents", "name": "p", "verb": "updateStatus", "nth": puts + 1})
        op = h["op"]
        if op == "editspec":
            sched.append({"s": "env", "op": "setfield", "res": "parents", "name": "p", "path": ["spec", "extra"], "value": "e%d" % i})
        elif op == "editstatus":
            sched.append({"s": "env", "op": "setstatus", "res": "parents", "name": "p", "path": ["ok"], "value": "0"})
        elif op == "replace":
            sched.append({"s": "env", "op": "recreate", "res": "parents", "name": "p",
                          "obj": {"res": "parents", "name": "p", "uid": "p%d" % h["uid"], "spec": {"selector": {"matchLabels": {"app": "x"}}}}})
        elif op == "remove":
            sched.append({"s": "env", "op": "delete", "res": "parents", "name": "p"})
    sched.append({"s": "run", "a": "A"})
    cfg = {"kind": "composite", "parentRes": "parents", "children": [{"res": "things", "method": "InPlace"}]}
    return {"id": sid, "fam": "status", "cfg": cfg, "objs": [parent], "hook": {"sync": sync}, "sched": sched,
            "expect": {"model": {"final": raw["final"]}}}
