"""Shared plan of the ownership family (spec/Own.tla), used by C02 and C04."""
import fam_own
from props import COMPOSITE

OWN_PLAN = {
    "pkg": COMPOSITE,
    "mc": {
        "quick": [("MC_Own", "MC_Own_quick.cfg", None), ("MC_Own", "MC_Own_norecheck.cfg", "C04_AdoptRecheck")],
        "thorough": [("MC_Own", "MC_Own_full.cfg", None), ("MC_Own", "MC_Own_recreate.cfg", None), ("MC_Own", "MC_Own_race.cfg", None),
                     ("MC_Own", "MC_Own_norecheck.cfg", "C04_AdoptRecheck"), ("MC_Own", "MC_Own_literal.cfg", "C02_Literal")],
    },
    "beh": {
        "quick": [("MC_Own", "Beh_Own_q.cfg", fam_own.convert, 500), ("MC_Own", "Beh_Own_q_recreate.cfg", fam_own.convert, 300),
                  ("MC_Own", "Beh_Own_race_q.cfg", fam_own.convert, 300)],
        "thorough": [("MC_Own", "Beh_Own_t.cfg", fam_own.convert, 0), ("MC_Own", "Beh_Own_t_recreate.cfg", fam_own.convert, 0),
                     ("MC_Own", "Beh_Own_t2.cfg", fam_own.convert, 30000), ("MC_Own", "Beh_Own_race_t.cfg", fam_own.convert, 20000)],
    },
    "core": lambda s: bool(s["expect"].get("modelViol")),
    "drift": fam_own.drift,
    "drift_fam": "own",
}
